#!/usr/bin/env python3
"""Development helper: fills the thorough-tier table of DESIGN.md (10.7) from a log of `bin/check <id> --tier thorough`
SUMMARY lines (one line per check: '<id> rc=<rc> wall=<s> head=<commit> SUMMARY property=... items=... ...')."""
import re, sys, os
HERE = os.path.dirname(os.path.dirname(os.path.abspath(__file__)))
log = sys.argv[1]
rows = {}
for ln in open(log):
    m = re.match(r"(C\d\d) rc=(\d+) wall=(\d+) head=(\w+) SUMMARY (.*)", ln)
    if not m:
        continue
    cid, rc, wall, head, rest = m.groups()
    kv = dict(re.findall(r"(\w+)=([\w.]+)", rest))
    rows[cid] = (int(rc), int(wall), head, kv)
out = ["| id | exit | items | paths | obligations | wall | result |", "|---|---|---|---|---|---|---|"]
for cid in sorted(rows):
    rc, wall, head, kv = rows[cid]
    inc, known, to, sat = int(kv.get("inconclusive", 0)), int(kv.get("known", 0)), int(kv.get("timeouts", 0)), int(kv.get("sat", 0))
    res = []
    if inc == 0 and sat == known:
        res.append("all obligations discharged" if known == 0 else "all other obligations discharged")
    if known:
        res.append("%d reproduced counterexamples = known findings" % known)
    if inc:
        res.append("%d inconclusive (solver or item time-outs%s; never counted as held)" % (inc, ", %d items at their wall-clock limit" % to if to else ""))
    obl = int(kv.get("obligations", 0))
    obls = "%.1f M" % (obl / 1e6) if obl >= 1e6 else "{:,}".format(obl).replace(",", " ")
    out.append("| %s | %d | %s | %s | %s | %s | %s |" % (cid, rc, kv.get("items"), kv.get("paths"), obls,
                                                         ("%d min" % round(wall / 60.0)) if wall >= 90 else "%d s" % wall, "; ".join(res)))
p = os.path.join(HERE, "DESIGN.md")
s = open(p).read()
a, b = s.index("<!-- THOROUGH-BEGIN -->"), s.index("<!-- THOROUGH-END -->")
head = ("<!-- THOROUGH-BEGIN -->\nEvery thorough command was run end to end on the unchanged tree after the last round of strengthening (16 cores,\n"
        "`--no-evidence`, while seed evaluations were running in parallel, so the wall times are upper bounds and some item\n"
        "time-outs are due to load). Inconclusive obligations are never counted as held.\n\n")
s = s[:a] + head + "\n".join(out) + "\n" + s[b:]
open(p, "w").write(s)
print(len(rows), "rows")
