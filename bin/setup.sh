#!/bin/sh
# Builds /verif/.venv: an overlay on /venv (the repository's interpreter and numpy/scipy) plus
# z3-solver, crosshair-tool, sympy, cvc5 from the offline wheelhouse. Idempotent, offline.
set -e
HERE="$(cd "$(dirname "$0")/.." && pwd)"
V="$HERE/.venv"
if [ -x "$V/bin/python" ] && "$V/bin/python" -c "import z3, numpy, scipy, sympy" 2>/dev/null; then
  exit 0
fi
rm -rf "$V"
/venv/bin/python -m venv "$V"
SP="$("$V/bin/python" -c 'import sysconfig; print(sysconfig.get_paths()["purelib"])')"
echo "import site; site.addsitedir('/venv/lib/python3.12/site-packages')" > "$SP/_venv_overlay.pth"
PIP_NO_INDEX=1 "$V/bin/python" -m pip install -q --no-index --find-links /opt/veriftools/wheels z3-solver sympy crosshair-tool cvc5 >/dev/null 2>&1 || \
PIP_NO_INDEX=1 "$V/bin/python" -m pip install -q --no-index --find-links /opt/veriftools/wheels z3-solver sympy
"$V/bin/python" -c "import z3, numpy, scipy, sympy; print('verif venv ok', z3.get_version_string(), numpy.__version__, scipy.__version__, sympy.__version__)"
