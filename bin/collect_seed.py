#!/usr/bin/env python3
"""Development helper: copies an independently produced, lead-confirmed seeded change from /tmp/seeds/<prop>/seed<k>
(patch.diff, demo.py, README.txt, eval.json written by the evaluation script) to /verif/seeded/<prop>-<k>/."""
import json, os, shutil, sys
prop, k = sys.argv[1], sys.argv[2]
src = "/tmp/seeds/%s/seed%s" % (prop, k)
dst = os.path.join(os.path.dirname(os.path.dirname(os.path.abspath(__file__))), "seeded", "%s-%s" % (prop, k))
ev = json.load(open(os.path.join(src, "eval.json")))
ok = ev["patch_applies"] and ev["demo_clean_exit"] == 0 and ev["demo_patched_exit"] != 0 and ev["suite_exit"] == 0
if not ok and "--force" not in sys.argv:
    print("NOT CONFIRMED:", ev)
    sys.exit(1)
os.makedirs(dst, exist_ok=True)
for f in ("patch.diff", "demo.py"):
    shutil.copy(os.path.join(src, f), os.path.join(dst, f))
readme = open(os.path.join(src, "README.txt")).read() if os.path.exists(os.path.join(src, "README.txt")) else ""
meta = dict(property=prop, seed=int(k), breaks=prop, produced_by="independent sub-agent given only the property text and a scratch worktree",
            needs_to_manifest=readme.strip(), confirmed_by_lead=dict(
                repo_head=ev["repo_head"], patch_applies=ev["patch_applies"], demo_exit_on_clean_tree=ev["demo_clean_exit"],
                demo_exit_with_patch=ev["demo_patched_exit"], baseline_suite_with_patch="all 159 baseline tests pass" if ev["suite_exit"] == 0 else "REGRESSION",
                commands=["git worktree add <scratch> HEAD; git apply patch.diff", "/venv/bin/python demo.py (cwd = worktree)",
                          "pytest (repository suite, compared with BASELINE.json stable_pass)",
                          "bin/check <id> --tier quick --repo <scratch> --no-evidence"]),
            checks=ev["checks"])
json.dump(meta, open(os.path.join(dst, "meta.json"), "w"), indent=1)
print("collected", dst, [(c["check"], c["exit"], c["violations"]) for c in ev["checks"]])
