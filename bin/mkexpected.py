#!/usr/bin/env python3
"""Development helper: records the functions each check executed (from evidence/<id>.json of the unchanged tree) as
expected_functions.json, the reference of the informational drift guard in symx/runner.py.  Only functions of the
files the property is anchored in are kept."""
import json, os
HERE = os.path.dirname(os.path.dirname(os.path.abspath(__file__)))
props = {json.loads(l)["id"]: json.loads(l) for l in open(os.path.join(HERE, "properties.jsonl"))}
path = os.path.join(HERE, "expected_functions.json")
out = json.load(open(path)) if os.path.exists(path) else {}
for pid, p in props.items():
    f = os.path.join(HERE, "evidence", pid + ".json")
    if not os.path.exists(f):
        continue
    ev = json.load(open(f))
    files = set(p["anchors"]["files"])
    fns = [x for x in ev["coverage"].get("functions_encoded", []) if x.split(":")[0] in files]
    out.setdefault(pid, {})[ev["tier"]] = sorted(fns)
json.dump(out, open(path, "w"), indent=0, sort_keys=True)
print({k: {t: len(v) for t, v in d.items()} for k, d in out.items()})
