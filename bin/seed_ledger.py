#!/usr/bin/env python3
"""Development helper: writes seeded/LEDGER.md from seeded/*/meta.json (+ the strengthening notes below)."""
import json, glob, os
HERE = os.path.dirname(os.path.dirname(os.path.abspath(__file__)))
# seeds the first version of the check missed, and what was added to the check afterwards
STRENGTHENED = {
    "C01-1": "3-D meshes with a non-square cross-section added to the overhang items",
    "C02-1": "print_timing paths (timing bookkeeping rotates the module list) added to the wiring grid",
    "C02-2": "dyadic (DyadCarrier) sensitivities shared between two consumers added to C02; DyadCarrier values to C18",
    "C03-1": "sparse EigenSolve template in C03 (n = 3, two modes, per-mode seeding over two rounds); the singular adjoint systems "
             "(A - lambda_i B)^T v = r are answered by an 'any solution' contract oracle",
    "C04-1": "LAPACK overwrite_a/overwrite_b modelled as destroying the array handed in; early 'input state after the first response' clause; column-major concrete twin",
    "C04-2": "scalar seeds handed over as mutable 0-d arrays for the scaled aggregations",
    "C06-2": "history with T solves before and after update() (adjoint storage)",
    "C07-2": "items that pass the hermitian/symmetric class flags and let LinSolve choose the real solver class (exact elimination models)",
    "C09-1": "radius kernels given in absolute units with the other anisotropy (unit sizes swapped)",
    "C11-1": "complex Hermitian pencils (principal complex square root as definitional symbols)",
    "C11-2": "the which/mode arguments of the ARPACK call are recorded by the stub; behavioural replay on an 8x8 pencil whose spectrum straddles the shift",
    "C13-2": "definedness obligation: no divisor of eval_shape_fun(_der) may vanish on the closed element",
    "C14-2": "3-D meshes with a non-square cross-section in the quick tier",
    "C17-2": "two variable signals initialised from one user array",
    "C18-1": "slice kind M: basic slice mixed with an integer index array (a copy whose .base is not None)",
    "C19-1": "inputs that are SignalSlices with index-array / boolean-mask indices; base signal state compared",
    "C19-2": "complex inputs with relative_dx in the quick tier (and the replay enumerates complex entries correctly)",
    "C20-1": "the same DomainDefinition written three times; domain compared before/after",
    # ---- round 2
    "C02-3": "slice kind 'l' (tuple holding an index list: NumPy returns a copy) in the wiring grid",
    "C03-3": "histories with several seed/sensitivity/reset passes after ONE response, seeding different outputs",
    "C04-3": "ComplexNorm item that admits |z| = 0 (code branching on it is followed into the branch); state clauses replayed numerically",
    "C04-4": "C04 itself does not reach the sparse eigenvector adjoint (its four independent oracle runs do not finish); the new sparse "
             "EigenSolve items of C01 catch the change",
    "C05-3": "solver objects re-used for a second matrix (Cholesky success->failure and failure->success, LU, LDL, diagonal, sparse LU)",
    "C06-3": "history with a block whose first column is already known (mask of new columns [False, True])",
    "C07-3": "free/prescribed index sets in the user's own (not ascending) order",
    "C07-4": "StaticCondensation on non-symmetric matrices (response only)",
    "C08-3": "three module constructions with the same material in one process",
    "C10-4": "asymptote update rule with the parameters the user passed (asyincr/asydecr) as a clause",
    "C11-4": "clauses evaluated against pre-call copies of the pencil + 'inputs unchanged' (the LAPACK overwrite model destroyed the "
             "reference too); column-major replay",
    "C13-3": "another DomainDefinition with the same element count is built and queried first (process history)",
    "C13-4": "found by z3 at once but lost in the replay (a clause about concrete tables has no symbolic witness): replay fixed",
    "C15-4": "value / in-place modification / same value programs for every memoisable value operation",
    "C16-3": "np.isclose modelled as the inequality NumPy evaluates instead of exact equality",
    "C17-3": "found by the existing positive-gradient item, which ran into the item time-out under the change: time-outs raised",
    "C18-3": "rank-0 array values (mutable scalars) as a fifth shape class",
    # ---- round 3
    "C01-6": "C01 runs one back-propagation per response; the stale per-mode solver is caught by the sparse EigenSolve template of C03",
    "C03-5": "C03 uses a contract oracle as inner solver; the same change is caught by C05 (Cholesky success/failure histories)",
    "C17-4": "two outer iterations whose first one loses volume: the bracket of the second iteration is compared with the documented one",
    "C06-5": "complex matrices without symmetry and with decoupled dofs whose diagonal entry is complex (single T / H solves: longer "
             "histories of this class do not finish)",
    "C07-5": "C07 builds one module per item; caught by C06 (update() with a changed sparsity pattern)",
    "C07-6": "complex matrix with real applied loads, NumPy's real/complex assignment rule modelled (logical dtypes); patch re-based "
             "onto the D29 fix",
    "C08-6": "C08 assembles once per module; caught by the new real-then-complex template of C03 (logical dtypes)",
    "C09-6": "set_filter_radius() on an existing filter (this also exposed the genuine defect D30)",
    "C10-5": "design signals with a pre-allocated sensitivity buffer",
    "C10-6": "a callback that installs another design (new state object)",
    "C11-6": "complex Hermitian sparse pencils in CSC and CSR storage; behavioural replay on a complex Hermitian 8x8 pencil",
    "C12-6": "free out-of-plane thickness for the average / strain items (the thickness items had exposed D27 before)",
    "C13-6": "same change as C20-1; C13 does not write files, caught by C20 (domain compared before/after writing)",
    "C14-6": "C14 evaluates each filter once; caught by the overhang template of C03 (two cycles)",
    "C16-5": "found by z3 at once (ties at the cut) but the replay accepted any tie-break without counting: count clause added",
    "C16-6": "seed / sensitivity() / reset() between the damped responses",
    "C17-5": "a 2-D variable array (offsets must count entries, not rows)",
    "C18-6": "reversed basic slices (negative step) with nesting",
    "C19-6": "zero entries with relative_dx and keep_zero_structure=False; a division by an exact zero in the symbolic run is replayed "
             "as 'non-finite reported value'",
    "C20-5": "transposed (not C-contiguous) array signals, every column compared with the entry its header names; the nditer stand-in "
             "follows memory order",
    # ---- round 4
    "C02-7": "slices of slices (a SignalSlice whose base is a SignalSlice) in the wiring grid of C02; C18 (nested slices) "
             "caught the change as first registered",
    "C02-8": "the fault is inside EinSum (one Signal at two operands of one contraction): caught by the new C01 items "
             "'quad-same', 'matmat-same', 'proj-same'; C02 wires one signal twice into asymmetric Poly / MathGeneral modules "
             "only (EinSum has no asymmetric 1-D -> 1-D expression with a supported adjoint)",
    "C03-7": "C03 uses a contract oracle as inner solver; caught by C06 (block right-hand sides whose first column is known)",
    "C03-8": "histories whose second cycle modifies the design array in place (x[:] = ..., the way optimisers update designs)",
    "C04-7": "three sensitivity() calls without reset (an aliased seed doubles: 1, 2, 4); ndarray.real of real content modelled "
             "as a view; C18 caught the change as first registered",
    "C04-8": "C04 hands LinSolve a contract oracle; caught by the new 'right-hand side unchanged' clause of C06",
    "C05-7": "'right-hand side unchanged by solve()' clause for every solver class, mode and memory layout (column-major "
             "concrete twin)",
    "C06-7": "block right-hand sides with independent columns and a small non-zero tolerance (1e-7)",
    "C06-8": "n = 3 with a decoupled dof and a user-supplied initial guess x0",
    "C07-7": "the disagreement between the symbolic run and its concretised twin is now replayed clause by clause on the real "
             "library and reported as VIOLATION (it was a harness error, exit 2)",
    "C07-8": "np.isclose / np.allclose modelled as the inequalities NumPy evaluates; matrices with couplings of 1e-6 and larger "
             "(this also exposed the genuine defect D32)",
    "C09-8": "the same filter object applied to a second field (constant paddings, overrides); C03 (two-cycle histories) caught "
             "the change as first registered",
    "C10-7": "responses that share an intermediate signal two modules deep (sensitivity left on the intermediate signal)",
    "C11-8": "library precondition as an obligation: the pencil handed to LAPACK is the module's input (the oracle's eigenpairs "
             "belong to that pencil)",
    "C14-7": "parameter rules of set_parameters (xi_0, p, nsampling) as clauses",
    "C16-8": "scaling strategy together with an active set",
    "C17-7": "two outer iterations whose first one loses volume (objective independent of the design): target volume and "
             "multiplier bracket of the second iteration; this also catches C17-4",
    "C20-7": "an exception of the symbolic run that the real library does not raise now falls back to evaluating every clause on "
             "the real library with the witness values",
    "C20-8": "in-memory files receive data when the handle is flushed or closed (buffered-handle model); the file is read while "
             "the module object is alive",
    # ---- round 5
    "C03-9": "aggregation with undamped AggScaling as a C03 template; C16 (three responses of one module) catches the change as registered",
    "C04-9": "real-typed seed on the complex output of LinSolve (new C01 item without pre-image); the linearity clause of C04 "
             "holds for real scalars under this change",
    "C04-10": "same fault as C03-1 (stale per-mode adjoint factorisation): caught by the sparse EigenSolve template of C03",
    "C05-9": "CG object set up for another matrix and used in the same mode before update(A)",
    "C05-10": "found by z3 at once; the witnesses could not be reproduced because LAPACK pivots differently for them (exit 2 "
              "through the twin): witnesses now prefer matrices for which Bunch-Kaufman takes a 2x2 pivot without interchange",
    "C07-9": "C07 builds one module per item; caught by C03 (LinSolve, second cycle with the matrix updated in place)",
    "C08-10": "element matrix handed over as a transposed (not C-contiguous) view; generalised: every harness can duplicate items "
              "with all input arrays as non-contiguous views (mem_layout=views)",
    "C09-9": "process history: another DensityFilter / FilterConv on a mesh of the same size with another radius built first",
    "C09-10": "kernels given as 1-D arrays",
    "C10-9": "accuracy of the Newton iteration is outside the solver's reach; six concrete regression items (fixed data, real "
             "subsolv, optimality conditions of the returned point) were added and are labelled as not a solver verdict",
    "C11-9": "second response() of one EigenSolve with another shift / another B while A keeps its object (operator handed to ARPACK)",
    "C11-10": "fixed ARPACK data of the complex Hermitian items no longer ascending (scipy hands back ARPACK's order there); the "
              "behavioural replay puts the shift on either side of the spectral gap",
    "C12-9": "the same Element/Nodal/ThermoMechanical module evaluated for a second field without reset",
    "C13-9": "shape functions evaluated at a second point while the first results are still in use",
    "C13-10": "connectivity for index arrays of rank 1 and 2+ (meshgrid selections)",
    "C14-9": "found by z3 at once; lost in the replay because shift ~ 1e-76 was compared with an absolute tolerance: parameters "
             "that are tiny by design are compared relative to their own size",
    "C14-10": "C14 is about the forward result; the drift of the output state under sensitivity() is caught by C04 (states unchanged)",
    "C15-9": "scalars that may be zero for s*D and add_dyad(fac=s)",
    "C16-9": "aggregation parameters changed through their public attributes after a first evaluation",
    "C16-10": "the same AggActiveSet object called a second time",
    "C17-10": "stopping rule of one iteration as a clause (update written iff |dx|/|x| of the whole design >= tolx); also catches C17-6",
    "C19-9": "re-used network whose upstream input changed before finite_difference is called",
    "C19-10": "modules whose output state is a view of the perturbed input",
    # ---- earlier seeds caught after later strengthenings
    "C13-5": "element sizes given as integers (an admissible input whose array dtype is integer)",
    "C16-4": "floating-point overflow is invisible to exact-real arithmetic: concrete regression items on wide-range data (not a solver verdict)",
    "C18-4": "non-finite entries are outside exact-real arithmetic: concrete regression items for reset() of kept allocations holding inf / nan (not a solver verdict)",
    "C03-6": "same fault class as C18-4: caught by the concrete non-finite items of C18 (C03 itself has no non-finite values)",
    "C02-6": "networks built step by step with Network.append (inner network extended after nesting); observables are snapshots",
    "C06-6": "LinSolve wrapping its solver: the class flags handed to the LDAWrapper must be true of the matrix",
    "C15-6": "soft deadline per item: counterexamples of the explored paths are reported although the change multiplies the paths "
             "(the run takes about half an hour under this change)",
    "C17-6": "stopping rule of one iteration as a clause",
    # ---- round 6 (several of these were strengthened from the seeders' reports before the first evaluation finished; the
    #      first evaluation of the check as registered at that time is what "missed" refers to)
    "C01-11": "complex nodal vectors through Strain / ElementAverage / ElementOperation, NumPy's real/complex casting modelled",
    "C01-12": "the complex eigenvector contracts of the dense generalised adjoint are not decided by the solver in time: two "
              "concrete finite-difference regression items (complex Hermitian A, complex Hermitian B != B^T; real LAPACK, "
              "fixed generic values) were added and are labelled as not a solver verdict",
    "C02-11": "C02's graphs are real; caught by the new scalar-mixed configurations of C18 (real and complex contributions in turn)",
    "C02-12": "a second evaluation of the same network after the source arrays were updated in place (C18 caught it as registered)",
    "C07-11": "one load case as an (n, 1) block through the wrapped solver, a one-dof system (C07); single-column blocks in C06",
    "C11-12": "a complex-conjugate pair with a user sorting function that orders by the imaginary part",
    "C05-11": "items inside the property: the rhs array itself handed over as initial guess (symbolic items, concrete regression items); found from the seeder's report before the first evaluation",
    "C05-12": "SolverDenseLDL constructed with the matrix (constructor shortcut); added from the seeder's report before the first evaluation",
    "C06-11": "block with a dependent column followed by a new one; added from the seeder's report before the first evaluation",
    "C06-12": "a second wrapper object used in between; added from the seeder's report before the first evaluation",
    "C08-11": "clause: the domain handed to an assembly module keeps its element sizes; added before the first evaluation",
    "C08-12": "boundary-condition set {0}; added before the first evaluation",
    "C11-11": "largest admissible number of modes of the symmetric ARPACK driver; added before the first evaluation",
    "C12-12": "per-node operators with two and three leading axes; added before the first evaluation",
    "C14-12": "clause: a direction given as an array keeps its values; added before the first evaluation",
    "C15-11": "contract with negative indices and boolean masks; added before the first evaluation",
    "C16-12": "SoftMinMax with scaling and an active set; added before the first evaluation",
    "C17-11": "concrete regression items for the volume accuracy of the bisection (not a solver verdict); added before the first evaluation",
    "C17-12": "network used before the call (sensitivities left set); added before the first evaluation",
    "C18-12": "two different index arrays of six entries on one base; added before the first evaluation",
    "C19-11": "2-D inputs as transposed views (report order follows memory order); added before the first evaluation",
    "C19-12": "a module that forgets an input; added before the first evaluation",
    "C20-11": "header numbers written with full precision (format specification of the symbolic token, generic-value probe); added before the first evaluation",
    "C20-12": "csv extension in upper / mixed case; added before the first evaluation",
    # ---- round 7
    "C01-14": "assembly with a complex scaling vector (logical dtypes); added from the seeder's report before the first evaluation",
    "C03-13": "SystemOfEquations template with a symmetric free-free block and independent coupling blocks (A_pf != A_fp^T)",
    "C04-13": "Scaling in objective mode with an array-valued (mutable) state; added before the first evaluation",
    "C04-14": "C04's modules take whole signals; caught by C18 (second add through an index-array slice)",
    "C05-13": "concrete CG items with complex-dependent block columns (symbolic block CG does not finish); added before the first evaluation",
    "C05-14": "sparse LU re-updated with the SAME matrix object after its values were changed in place",
    "C06-13": "auto-detected class flags on structured complex matrices (Hermitian coupled block, decoupled dof with a non-real diagonal)",
    "C08-13": "a 3-D mesh with several elements in y and z (C13's connectivity tables caught it as registered)",
    "C10-14": "clauses: the constants a0, a, c, d of the sub-problem reach subsolv in their own argument slots",
    "C11-14": "spectrum with a complex pair AND a real eigenvalue (n = 3); added before the first evaluation",
    "C13-13": "tables handed out belong to the caller (modified in place, then queried again); added before the first evaluation",
    "C13-14": "derivative and shape functions from one point array, point argument unchanged; added before the first evaluation",
    "C14-13": "the eps keyword of the constructor, zero included (the forward items set eps through the attribute)",
    "C15-13": "zeroing through slices that have a step but no start/stop; added before the first evaluation",
    "C16-13": "damped scaling with a varying number of values; added before the first evaluation",
    "C19-13": "sensitivities left on the inputs before finite_difference is called; added before the first evaluation",
    "C19-14": "a network input consumed through a slice of a slice; added before the first evaluation",
    # ---- round 8 (one seed per property)
    "C06-14": "sparse matrices of one fixed structure (every position a stored entry, explicit zeros: same shape and nnz for every "
              "zero pattern) in the update histories; added in round 8",
    "C06-15": "the matrix handed over through the constructor argument LDAWrapper(solver, A=A) (matrices with decoupled dofs)",
    "C08-15": "found by the concretised twin at once (csr constant with csc matrix type) but reported as exit 2: the twin replay took the "
              "first obligation of each kind (a shape clause that still holds); the runner now replays ANY clause of the item first",
    "C11-15": "history on one module: a symmetric matrix first, a general one afterwards in the same input signal (library "
              "precondition of eigh as obligation)",
    "C12-15": "the shared DomainDefinition must be unchanged after constructing / evaluating an element operator; energy items with "
              "the operators constructed before the assembly module",
    "C03-15": "caught by C05 (C03 has no history that leads a dense matrix to the LDL solver): every dense direct solver (LU, LDL, "
              "Cholesky, QR) now has the clause 'update() leaves the caller's matrix unchanged'; the replay hands the matrix over "
              "in column-major storage, the layout for which scipy honours overwrite_a",
    "C07-15": "caught by C05 (the change is in CG.solve): concrete regression items (not solver verdicts) with a block whose columns "
              "differ in norm by 1e6 and in convergence speed; clause: every column is solved relative to its OWN norm",
    "C13-15": "the public table node_numbering reversed between two evaluations on one domain object (shape functions and "
              "derivatives follow the live table)",
}
NOT_CAUGHT = {
    "C02-15": "outside the claim: a complex-valued network (OUTSIDE of C02); the fault is in the RESPONSE of ConcatSignal (imaginary parts "
              "dropped when the first input is real), and its sensitivities are the exact adjoint of that wrong response, so the new C01 "
              "item (real vector followed by a complex one) does not see it either",
    "C04-15": "outside the claim: the unused option dep_tol wired to the wrapper's residual tolerance (1e-7 -> 1e-5), same change as "
              "C07-14: a statement about tolerances, the histories are decided with tolerance 0",
    "C02-14": "outside the claim: user-defined sensitivity objects with their own add_sensitivity() hook (listed in OUTSIDE of C02/C18)",
    "C07-14": "outside the claim: the unused option dep_tol wired to the wrapper's residual tolerance (1e-7 -> 1e-5): a statement about "
              "tolerances, A x = b still holds to the looser one",
    "C09-14": "outside the claim: the kernel array is stored by reference and the CALLER changes it later (the library itself does not "
              "modify it); also not confirmed - the suite run lost a flaky test",
    "C10-3": "outside the claim: the fault needs integer-typed design vectors (np.concatenate keeps int64, np.zeros_like then truncates "
             "fractional bounds); object arrays carry no integer/float distinction and the logical-dtype mode only tracks real/complex",
    "C01-5": "not confirmed: z3 finds the dropped dyads (norm < 1e-12), but at that magnitude the finite-difference replay cannot tell "
             "0 from 6e-12 and the run ends inconclusive (494 sat answers, none reproduced); C15 does not finish under this change",
    "C05-6": "outside the claim: accuracy of SuperLU without pivoting (the factorisation is a stub; only the class/flag admissibility of "
             "auto_determine_solver is decided, and the new option is unknown to that predicate)",
    "C18-5": "outside the claim: mixing real and complex values inside one signal (listed in OUTSIDE of C18)",
    "C20-6": "outside the claim: needs an array of more than 262144 values (bound: meshes up to 15 elements per axis)",
    "C10-8": "outside the claim: stopping rule of the outer MMA iteration (|dx|/|x| with or without scaling by the variable ranges); "
             "convergence to the optimum is listed as not decided",
    "C12-4": "C12 itself uses one construction per item; the same change is caught by C08 (repeated constructions)",
    "C03-4": "C03 does not run CG (contract oracle as inner solver); the same change is caught by C05 (CG stopping rule)",
}
rows = []
for d in sorted(glob.glob(os.path.join(HERE, "seeded", "C*-*"))):
    sid = os.path.basename(d)
    m = json.load(open(os.path.join(d, "meta.json")))
    if sid in STRENGTHENED:
        m["first_evaluation"] = ("not evaluated against the earlier check (strengthened from the seeder's report first)"
                                 if "before the first evaluation" in STRENGTHENED[sid] else "missed by the check as first registered")
        m["strengthening"] = STRENGTHENED[sid]
    if sid in NOT_CAUGHT:
        m["not_caught_because"] = NOT_CAUGHT[sid]
    json.dump(m, open(os.path.join(d, "meta.json"), "w"), indent=1)
    first = (m.get("needs_to_manifest") or "").strip().splitlines()[0][:150] if m.get("needs_to_manifest") else ""
    caught = [c for c in m["checks"] if c["exit"] == 1 and c["violations"] > 0]
    status = ("caught by " + ", ".join("%s (%d VIOLATION lines)" % (c["check"], c["violations"]) for c in caught)) if caught else "NOT caught"
    if sid in STRENGTHENED:
        status += " - after strengthening: " + STRENGTHENED[sid]
    if sid in NOT_CAUGHT:
        status += " - " + NOT_CAUGHT[sid]
    rows.append("| %s | %s | %s |" % (sid, first.replace("|", "/"), status.replace("|", "/")))
out = ["# Seeded changes (independent sub-agents; each confirmed by the lead in a scratch worktree)", "",
       "Run a check against one: `git -C /repo apply /verif/seeded/<id>/patch.diff; bin/check <Cxx> --tier quick --no-evidence; git -C /repo checkout -- .` (absolute path: `git -C` resolves relative paths inside /repo)", "",
       "Each patch applies to the repository head recorded in its meta.json (`confirmed_by_lead.repo_head`); all but C06-3 and C06-4 "
       "also apply to the current head (those two touch lines that the later `fix:` commit e4823e9 rewrote).", "",
       "| seed | change (first line of the seeder's README) | quick-tier result of the registered check(s) |", "|---|---|---|"] + rows
open(os.path.join(HERE, "seeded", "LEDGER.md"), "w").write("\n".join(out) + "\n")
print(len(rows), "seeds;", sum("NOT caught" in r for r in rows), "not caught")
