#!/usr/bin/env python3
"""Regenerates MANIFEST.json from the table below (development helper, not a registered command)."""
import json
import os

HERE = os.path.dirname(os.path.dirname(os.path.abspath(__file__)))

CLAIMED = {
    "C01": dict(
        text="Bounded symbolic execution of the real response()/sensitivity() of every catalogue module on z3-term "
             "inputs, seeds and numeric options; per independent input symbol the obligation "
             "Re sum g*dx/ds == Re sum w*dy/ds (dy by exact term differentiation) is decided by z3 for all values; "
             "sat answers are replayed against a 4th-order finite difference on the real library.",
        note="float64 as exact reals; module grid, mesh/vector sizes and option combinations are enumerated (bounds in the "
             "evidence); inner linear solvers are contract oracles (C05 covers them); EXP/LOG/SQRT/POW uninterpreted with "
             "ground axioms; sparse EigenSolve sensitivities on n=3 / two modes with an any-solution oracle for the singular adjoint systems; "
             "AutoMod, plotting and sizes beyond the grid are outside the claim."),
    "C04": dict(
        text="Same symbolic runs as C01 but the obligations relate several real runs on one module instance: "
             "g(a*w1+b*w2) == a*g(w1)+b*g(w2), two sensitivity() calls == 2x, states term-equal before/after "
             "sensitivity()/reset()/response(); z3 decides every entry-wise equality for all values.",
        note="as C01; seeds and scalars a, b are free symbols; LinSolve with LDAWrapper is left to C06/C03."),
    "C16": dict(
        text="AggActiveSet/AggScaling/Aggregation executed on symbolic data: all orderings, ties and rounding counts are "
             "explored as paths, the mask is compared with a rank-based reference, the damped recurrence and the "
             "SoftMinMax/KS/PNorm bounds are decided by z3 (EXP/LOG with ground monotonicity instances).",
        note="float64 as exact reals; n <= 3 (quick) / 5 (thorough); PNorm bounds only for integer p; lemma instances for "
             "EXP/LOG listed in the evidence."),
    "C02": dict(
        text="All wirings of <= 3 modules (4 in the thorough tier) over shared, doubly-used and sliced signals, with "
             "nested networks and every non-empty subset of seeded sinks, executed with symbolic values, coefficients and "
             "seeds through the real Network.response/sensitivity/reset; the source sensitivities are compared entry-wise "
             "with a forward-mode reference of the composed function (z3 decides each polynomial identity), None-ness is "
             "compared with reachability from a seed.",
        note="graphs beyond the enumerated sizes, outputs written through slices and fully non-linear 4-chains are outside; "
             "module set: a polynomial test module with hand-written adjoint, EinSum, ConcatSignal, Scaling, MathGeneral."),
    "C03": dict(
        text="Networks with caching components (Poisson assembly -> LinSolve -> EinSum, dense LinSolve, OverhangFilter, "
             "DensityFilter/FilterConv, SystemOfEquations, StaticCondensation, AssembleGeneral with add_constant, "
             "aggregation with an active set) are driven through histories of set-input / response / seed / sensitivity / "
             "reset calls with independent symbolic inputs and seeds per cycle; every state and sensitivity after the "
             "last cycle is compared entry-wise (z3) with a freshly built identical network evaluated once; reset() must "
             "leave no sensitivity, an unseeded sensitivity() must change nothing. Templates also cover dense and sparse "
             "EigenSolve (class change between cycles, per-mode seeding over two rounds), several seed passes after one "
             "response and a real-then-complex scaling of one assembly module; preconditions of stubbed LAPACK routines "
             "(eigh: Hermitian input) are obligations of the path.",
        note="float64 as exact reals; linear solves through exact factor models / the unique explicit solution so that "
             "both networks give comparable terms; 6 history shapes (<= 14 calls); path budgets stated; D11 (solver and "
             "symmetry flags kept from the first matrix) is a known finding confined to the class-change templates."),
    "C06": dict(
        text="The real LDAWrapper (get_diagonal_indices, update, solve, _do_solve_1rhs, residual) around a counting contract "
             "oracle, for every off-diagonal zero pattern of 2x2 (3x3 thorough) matrices and histories of update/solve "
             "calls with new, repeated, scaled, summed, zero, complex and block right-hand sides in N/T/H order; every "
             "returned x must satisfy op(A) x = b as a rational identity (z3), dependent right-hand sides must not reach "
             "the inner solver, update() must clear the stores. Histories include initial guesses, blocks with a known first "
             "column, T solves before and after update(), real right-hand sides after complex ones with NumPy's in-place "
             "casting rule modelled, and complex matrices without symmetry.",
        note="float64 as exact reals; wrapper tolerance 0 so that reuse means an exactly zero residual; norms are compared on "
             "squares; complex classes only in the thorough tier (partly inconclusive); D11 (flags kept across update) is a "
             "known finding."),
    "C07": dict(
        text="LinSolve / Inverse / SystemOfEquations / StaticCondensation executed on symbolic matrices (every class, "
             "dense and sparse stand-ins, all dof partitions up to n=4); right-hand sides are defined from free "
             "pre-images so that A x = b, x[p] = x_p, b[f] = b_f and the Schur-complement identity are polynomial "
             "identities decided by z3; with LinSolve's own solver choice the real dense solver classes run on exact "
             "LU/LDL elimination models.",
        note="float64 as exact reals; np.allclose in the matrix classification read as exact equality; inner sparse LU and "
             "the `solver=` override are contract oracles (op(A) x = b); n <= 3 quick / 4 thorough."),
    "C05": dict(
        text="The real solver classes (SolverDiagonal, SolverDenseLU/Cholesky/LDL/QR, SolverSparseLU plumbing, "
             "DampedJacobi, SOR, CG with orth, Preconditioner, GeometricMultigrid set-up, auto_determine_solver and its "
             "matrix_is_* tests) executed on matrices defined from free factor symbols of the documented class "
             "(A := P L U, U^H U, L D L^H, L D L^T, Q R) with b := op(A) x* for free x*; the stubbed LAPACK entry point "
             "hands back the factors only after z3 proved that they reproduce the matrix it received; the obligation "
             "solve(b, trans) == x* is decided entry-wise by z3 for N/T/H, real/complex data and 1-D/2-D right-hand sides.",
        note="float64 as exact reals; n <= 3 quick / 4 thorough; CG only for 1-2 iterations on n = 2 (exactness after n "
             "steps, restart and zero/converged columns), convergence rates and LAPACK accuracy are outside; multigrid "
             "interpolation against an independent prolongation on <= 4x4 / 2x2x4 meshes."),
    "C09": dict(
        text="FilterConv (padding rules, wide pads, overrides, radius kernels) and DensityFilter executed with symbolic "
             "densities, kernels, padding constants and radii; every output entry is compared by z3 with an "
             "independent reference written from the definition (explicit Cartesian loops, per-side extension rules); "
             "bounds min <= y <= max, preservation of constants and volume preservation are decided as polynomial "
             "inequalities/identities; int() of a symbolic radius forks the path per kernel width.",
        note="float64 as exact reals; meshes <= 3x2 / 2x2x2 quick, <= 4x3 / 3x2x2 thorough; D22 (pad wider than the domain "
             "with different rules on the two sides of an axis) is a known finding confined to the fc-widepad-mixed items."),
    "C14": dict(
        text="OverhangFilter: the direction-string parser runs on a symbolic str of unbounded length whose membership tests are "
             "z3 string-theory atoms (all 11 paths compared with the clause; witnesses are concrete strings) and is "
             "cross-searched by CrossHair (len <= 1 exhausted, a reachability twin must be refuted); direction vectors with a symbolic positive "
             "magnitude, the layer sweep with symbolic densities and parameters (p, q, shift, backshift, eps) on 2-D and "
             "3-D meshes in all 4/6 directions compared entry-wise by z3 with the recursive reference written per element, "
             "plus mirror/axis-swap equivariance.",
        note="float64 as exact reals, POW uninterpreted with ground axioms; meshes <= 3x2 and 3x2x2 quick, <= 4x3 / 2x2x3 "
             "thorough; the len <= 3 CrossHair condition (thorough tier) is a refutation search ('Not confirmed' is reported "
             "as inconclusive); a concrete 820-string enumeration is a cross-check only."),
    "C08": dict(
        text="AssembleGeneral/Stiffness/Mass/Poisson executed with symbolic scaling, element sizes, material data, element "
             "matrices and boundary values; the assembled matrix is compared entry-wise with an independent scatter; "
             "symmetry, rigid-body null space, mass totals, Poisson energy and exact-integration element matrices are "
             "z3-decided identities; positive semi-definiteness per element on a rational material/size grid.",
        note="float64 as exact reals; sqrt(3) is an exact algebraic constant; meshes <= 2x2 / 1x1x1 quick, 3x2 / 2x2x1 "
             "thorough; PSD for rational sizes/material only (symbolic ones time out), assembled by linearity in x."),
    "C10": dict(
        text="Partial (the decidable clauses): one real MMA.mmasub step from an arbitrary admissible state with subsolv "
             "replaced by its contract (enclosure low < alfa <= x <= beta < upp, bounds, move limit, offset clip, P,Q >= 0, "
             "value and diffz3-gradient reproduction of the approximations); the real subsolv code from an arbitrary "
             "interior state with an arbitrary direction (every line-search trial keeps x strictly inside and all "
             "multipliers/slacks positive); residual() against the differentiated Lagrangian; MMA.response design-vector "
             "plumbing (bound/move expansion, concatenation, gradients per response, write-back) - all decided by z3.",
        note="NOT covered (not encodable as a bounded symbolic run): that the Newton iteration reaches the requested "
             "accuracy and that the outer iteration converges on convex problems; n <= 3 (4 for mmasub in the thorough "
             "tier), m <= 2, one Newton iteration and <= 4 (6) line-search trials per run."),
    "C11": dict(
        text="EigenSolve's own code (dispatch, sorting function, sign rule, normalisation loop, shift handling, the "
             "shift-invert operator and the arguments handed to ARPACK) executed on symbolic A (and B = G G^T + I); LAPACK "
             "and ARPACK are oracles returning arbitrary (W, Q) constrained only by A Q = B Q diag(W); z3 decides for all "
             "values and all orderings: every output column is a non-zero multiple of an oracle eigenvector paired with "
             "its eigenvalue, q^T B q = 1, ordering follows the sorting function, mean entry >= 0 for symmetric problems, "
             "complete spectrum on the dense path, OPinv solves (A - sigma B) v = r and k/sigma/M are passed through.",
        note="that LAPACK/ARPACK find eigenpairs (and 'closest to the shift') is their contract, not checked; n <= 3 dense, "
             "n = 2 sparse in the quick tier (3 thorough); real data only."),
    "C12": dict(
        text="Strain/Stress/ElementAverage/ElementOperation/NodalOperation/ThermoMechanical executed on a symbolic affine "
             "displacement field with symbolic sizes and material: every strain/stress row, the energy identity with the "
             "real AssembleStiffness, the transpose relation and the thermal-load identities are decided by z3.",
        note="float64 as exact reals; unit out-of-plane thickness for 2D stress; the doubled engineering shear of "
             "Strain(voigt=True) is a known finding (D7) and matched narrowly."),
    "C13": dict(
        text="The real index functions of DomainDefinition run on z3 integers: injectivity/range with unbounded symbolic "
             "grid sizes, node-number round trip with symbolic sizes <= 15 (24-bit bit-vectors with no-wrap guards), "
             "connectivity/dof tables for enumerated grids with symbolic indices, shape functions and their derivatives "
             "with symbolic sizes and evaluation point.",
        note="div/mod by symbolic divisors only up to the stated size bounds; tables enumerated up to 5x5 / 3x3x3 quick "
             "(8x8 / 5x5x5 thorough)."),
    "C15": dict(
        text="Operation programs (constructor + up to 2/3 operations) over the public DyadCarrier API executed on symbolic "
             "real/complex vectors; after every step value, shape, complex/real type, operand immutability and aliasing "
             "are compared with an independent dense reference, each entry-wise equality decided by z3.",
        note="float64 as exact reals; depth <= 2 quick, seeded subset of depth 3 thorough; shapes up to 3x3; inputs non-zero "
             "except in dedicated zero-vector programs; in-place operators are exercised with dyadic operands only."),
    "C17": dict(
        text="Partial: the complete minimize_oc routine for one outer iteration (maxit=1) from an arbitrary admissible "
             "symbolic design - the inductive step for 'every design produced': on every path (bisection branches, "
             "stopping tests, positive-gradient clipping) z3 proves xmin <= xnew <= xmax, |xnew - xold| <= move, and that "
             "each variable signal receives its slice of an independently recomputed OC update.",
        note="NOT covered: 'volume equals the prescribed maximum to bisection tolerance' (needs the full ~30-step "
             "data-dependent bisection) and convergence to the analytic optimum; bisection limited to 2 (3) steps through "
             "the public l1init/l2init/l1l2tol arguments, <= 3 (4) variables in <= 2 signals."),
    "C18": dict(
        text="Histories of Signal/SignalSlice operations (assign, add_sensitivity incl. the same object twice and later "
             "mutation, reset with/without keep_alloc, basic/tuple/integer-array/nested slices) executed on symbolic real "
             "and complex data in lock-step with an explicit-copy reference model; every state/sensitivity entry and "
             "every None-ness/aliasing fact is compared after each step (z3 decides the entry-wise equalities).",
        note="history length <= 4 quick / 6 thorough (seeded subset), ranks <= 3; integer index arrays without repeats."),
    "C19": dict(
        text="The unmodified finite_difference routine runs on symbolic states with a symbolic perturbation size dx "
             "(np.nditer replaced by a pure-Python iterator, np.random.rand by arbitrary symbols, tol by an object that is "
             "never exceeded); for every value handed to test_fn z3 proves: the analytical value equals the block's own "
             "back-propagated sensitivity for the seed used, fd*dx equals the difference of the seeded real responses, "
             "exactly the expected entries (and the imaginary pass of complex inputs) are visited, a deliberately wrong "
             "Jacobian entry shows up as a non-matching pair, states are restored and no sensitivity is left.",
        note="inputs with <= 4 perturbed entries (the routine's reporting code forks ~3 ways per value); the printed report "
             "and the tolerance counting are outside."),
    "C20": dict(
        text="write_to_vti executed on array stand-ins whose sizes/shapes are bit-vector integers (grid sizes <= 12, "
             "component counts <= 6) with the file recorded in memory: section, component count, padding, extent, spacing "
             "and origin are decided by z3 for all sizes in the bound; WriteToVTI naming and ScalarToFile header/row "
             "structure with a symbolic iteration counter (inductive step).",
        note="bytes produced by base64/struct/float32 and number formatting are C code and outside the claim; the size-based "
             "cell/point ambiguity (D12 family) and the csv header tags (D16) are known findings."),
}

TECH = "symbolic execution of the real Python source on z3 terms (symx) + SMT (z3 5.1), counterexamples replayed"

PENDING = "check under construction in this session (see DESIGN.md section 5); not claimed yet"


def main():
    props = [json.loads(ln) for ln in open(os.path.join(HERE, "properties.jsonl"))]
    m = dict(
        version=1, setup_cmd="bin/setup.sh",
        hooks=dict(guard="PYMOTO_VERIF",
                   enable="no hooks in /repo are needed: the harness process rebinds library names inside the imported "
                          "pymoto modules; bin/check exports PYMOTO_VERIF=1 for information only",
                   baseline_off_cmd="cd /repo && /venv/bin/python -m pytest -ra -q -p no:cacheprovider --timeout=900 "
                                    "--continue-on-collection-errors",
                   source_commits=[], add_only=True),
        engines=[dict(name="symx", path="symx/", serves_properties=sorted(CLAIMED),
                      kind_free_text="bounded symbolic execution of the real pyMOTO Python source on numpy object arrays of "
                                     "z3-term scalars (path explorer, library shims, contract oracles); z3 decides every "
                                     "obligation; sat answers are replayed on the real library before being reported")],
        checks=[], notes="DESIGN.md explains the approach; known_findings.json lists fixed/known defects",
        not_applicable=[])
    for p in props:
        pid = p["id"]
        if pid in CLAIMED:
            c = CLAIMED[pid]
            m["checks"].append(dict(
                property_id=pid, quick_cmd="bin/check %s --tier quick" % pid,
                thorough_cmd="bin/check %s --tier thorough" % pid, evidence_file="evidence/%s.json" % pid,
                replay_cmd_template="bin/check %s --replay {path}" % pid, engine="symx",
                level_claimed=dict(category="model_checking", text=c["text"], design_ref="DESIGN.md section 5, " + pid),
                level_note=c["note"] + CONCRETE.get(pid, ""), technique=c.get("technique", TECH)))
        else:
            m["not_applicable"].append(dict(property_id=pid, reason=NOT_APPLICABLE.get(pid, PENDING)))
    with open(os.path.join(HERE, "MANIFEST.json"), "w") as f:
        json.dump(m, f, indent=1)
    print("claimed:", sorted(CLAIMED), "not applicable:", len(m["not_applicable"]))


NOT_APPLICABLE = {}
# a few items per check are concrete regression runs of the real routine (where exact-real symbolic arithmetic cannot see the
# fault class); they supplement the solver verdicts and are labelled in the evidence
CONCRETE = {
    "C01": " Supplement (not solver verdicts): two concrete finite-difference items for the complex Hermitian dense EigenSolve adjoint.",
    "C05": " Supplement (not solver verdicts): concrete `cgdeg-*` items (degenerate right-hand sides, the rhs array used as initial guess).",
    "C06": " Supplement (not solver verdicts): twelve concrete `rounding-*` items (floating-point remainders of dependent block columns).",
    "C10": " Supplement (not solver verdicts): six concrete `subsolv-kkt-concrete-*` items (optimality conditions of the point the real subsolv returns).",
    "C16": " Supplement (not solver verdicts): six concrete `range-concrete-*` items (floating-point range of the aggregates).",
    "C17": " Supplement (not solver verdicts): four concrete `oc-volume-concrete-*` items (volume to bisection tolerance with the full bisection).",
    "C18": " Supplement (not solver verdicts): two concrete `nonfinite-concrete-*` items (reset of kept allocations holding inf / nan).",
}

if __name__ == "__main__":
    main()
