#!/usr/bin/env python3
"""Regenerates MANIFEST.json from the table below (development helper, not a registered command)."""
import json
import os

HERE = os.path.dirname(os.path.dirname(os.path.abspath(__file__)))

CLAIMED = {
    "C01": dict(
        text="Bounded symbolic execution of the real response()/sensitivity() of every catalogue module on z3-term "
             "inputs, seeds and numeric options; per independent input symbol the obligation "
             "Re sum g*dx/ds == Re sum w*dy/ds (dy by exact term differentiation) is decided by z3 for all values; "
             "sat answers are replayed against a 4th-order finite difference on the real library.",
        note="float64 as exact reals; module grid, mesh/vector sizes and option combinations are enumerated (bounds in the "
             "evidence); inner linear solvers are contract oracles (C05 covers them); EXP/LOG/SQRT/POW uninterpreted with "
             "ground axioms; AutoMod, plotting and sizes beyond the grid are outside the claim."),
    "C04": dict(
        text="Same symbolic runs as C01 but the obligations relate several real runs on one module instance: "
             "g(a*w1+b*w2) == a*g(w1)+b*g(w2), two sensitivity() calls == 2x, states term-equal before/after "
             "sensitivity()/reset()/response(); z3 decides every entry-wise equality for all values.",
        note="as C01; seeds and scalars a, b are free symbols; LinSolve with LDAWrapper is left to C06/C03."),
    "C16": dict(
        text="AggActiveSet/AggScaling/Aggregation executed on symbolic data: all orderings, ties and rounding counts are "
             "explored as paths, the mask is compared with a rank-based reference, the damped recurrence and the "
             "SoftMinMax/KS/PNorm bounds are decided by z3 (EXP/LOG with ground monotonicity instances).",
        note="float64 as exact reals; n <= 3 (quick) / 5 (thorough); PNorm bounds only for integer p; lemma instances for "
             "EXP/LOG listed in the evidence."),
}

TECH = "symbolic execution of the real Python source on z3 terms (symx) + SMT (z3 5.1), counterexamples replayed"

PENDING = "check under construction in this session (see DESIGN.md section 5); not claimed yet"


def main():
    props = [json.loads(ln) for ln in open(os.path.join(HERE, "properties.jsonl"))]
    m = dict(
        version=1, setup_cmd="bin/setup.sh",
        hooks=dict(guard="PYMOTO_VERIF",
                   enable="no hooks in /repo are needed: the harness process rebinds library names inside the imported "
                          "pymoto modules; bin/check exports PYMOTO_VERIF=1 for information only",
                   baseline_off_cmd="cd /repo && /venv/bin/python -m pytest -ra -q -p no:cacheprovider --timeout=900 "
                                    "--continue-on-collection-errors",
                   source_commits=[], add_only=True),
        engines=[dict(name="symx", path="symx/", serves_properties=sorted(CLAIMED),
                      kind_free_text="bounded symbolic execution of the real pyMOTO Python source on numpy object arrays of "
                                     "z3-term scalars (path explorer, library shims, contract oracles); z3 decides every "
                                     "obligation; sat answers are replayed on the real library before being reported")],
        checks=[], notes="DESIGN.md explains the approach; known_findings.json lists fixed/known defects",
        not_applicable=[])
    for p in props:
        pid = p["id"]
        if pid in CLAIMED:
            c = CLAIMED[pid]
            m["checks"].append(dict(
                property_id=pid, quick_cmd="bin/check %s --tier quick" % pid,
                thorough_cmd="bin/check %s --tier thorough" % pid, evidence_file="evidence/%s.json" % pid,
                replay_cmd_template="bin/check %s --replay {path}" % pid, engine="symx",
                level_claimed=dict(category="model_checking", text=c["text"], design_ref="DESIGN.md section 5, " + pid),
                level_note=c["note"], technique=c.get("technique", TECH)))
        else:
            m["not_applicable"].append(dict(property_id=pid, reason=NOT_APPLICABLE.get(pid, PENDING)))
    with open(os.path.join(HERE, "MANIFEST.json"), "w") as f:
        json.dump(m, f, indent=1)
    print("claimed:", sorted(CLAIMED), "not applicable:", len(m["not_applicable"]))


NOT_APPLICABLE = {}

if __name__ == "__main__":
    main()
