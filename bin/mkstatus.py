#!/usr/bin/env python3
"""Development helper: fills the STATUS and SEED tables of DESIGN.md from evidence/*.json and seeded/*/meta.json."""
import json, glob, os, re
HERE = os.path.dirname(os.path.dirname(os.path.abspath(__file__)))
rows = ["| id | items | paths | obligations | to z3 | solver calls | inconclusive | known (reproduced) | twin-validated items | functions executed | wall (s) |",
        "|---|---|---|---|---|---|---|---|---|---|---|"]
for f in sorted(glob.glob(os.path.join(HERE, "evidence", "C*.json"))):
    d = json.load(open(f)); c = d["coverage"]
    rows.append("| %s | %s | %s | %s | %s | %s | %s | %s | %s | %s | %s |" % (
        d["property_id"], c.get("configurations"), c.get("paths"), c.get("obligations"), c.get("evaluations"),
        c.get("solver_check_calls", "-"), c.get("inconclusive"), c.get("reproduced_known"), c.get("traces_validated_against_impl"),
        len(c.get("functions_encoded", [])), round(d.get("wall_s", 0))))
seed_rows = ["| seed | what the change is | result |", "|---|---|---|"]
for dd in sorted(glob.glob(os.path.join(HERE, "seeded", "C*-*"))):
    m = json.load(open(os.path.join(dd, "meta.json")))
    sid = os.path.basename(dd)
    first = (m.get("needs_to_manifest") or "").strip().splitlines()[0] if m.get("needs_to_manifest") else ""
    first = re.sub(r"^(Seed|seed|SEED)?\s*[\w/ ()-]{0,24}?(--|-|:)\s*", "", first)[:140]
    caught = [c for c in m["checks"] if c["exit"] == 1 and c["violations"] > 0]
    res = ("caught by " + ", ".join(c["check"] for c in caught)) if caught else "**not caught**"
    if m.get("strengthening"):
        res += " (missed at first; added: " + m["strengthening"] + ")"
    if m.get("not_caught_because"):
        res += ": " + m["not_caught_because"]
    seed_rows.append("| %s | %s | %s |" % (sid, first.replace("|", "/"), res.replace("|", "/")))
p = os.path.join(HERE, "DESIGN.md")
s = open(p).read()
def fill(s, tag, body):
    a = s.index("<!-- %s-BEGIN" % tag); a = s.index("-->", a) + 3
    b = s.index("<!-- %s-END" % tag)
    return s[:a] + "\n" + body + "\n" + s[b:]
s = fill(s, "STATUS-TABLE", "\n".join(rows))
s = fill(s, "SEED-TABLE", "\n".join(seed_rows))
open(p, "w").write(s)
print(len(rows) - 2, "status rows;", len(seed_rows) - 2, "seed rows")
