"""SymArray: ndarray subclass (dtype=object) that repairs the few ndarray attributes which are
silently wrong on object arrays (.real/.imag) or which need concrete values (boolean-mask indexing
with symbolic booleans, .min/.max/.argsort through symbolic comparisons work natively)."""
from fractions import Fraction
import numpy as np

from .scalars import R, C, SB, ite


def _elem_real(e):
    if isinstance(e, (R, C)):
        return e.real
    if isinstance(e, complex):
        return e.real
    return e


def _elem_imag(e):
    if isinstance(e, (R, C)):
        return e.imag
    if isinstance(e, complex):
        return e.imag
    return 0


def _elem_conj(e):
    if isinstance(e, (R, C)):
        return e.conjugate()
    if isinstance(e, complex):
        return e.conjugate()
    return e


_v_real = np.frompyfunc(_elem_real, 1, 1)
_v_imag = np.frompyfunc(_elem_imag, 1, 1)
_v_conj = np.frompyfunc(_elem_conj, 1, 1)


def is_complex_content(a):
    """True if an object array / scalar holds complex values."""
    if isinstance(a, C) or isinstance(a, (complex, np.complexfloating)):
        return True
    if isinstance(a, np.ndarray):
        if a.dtype == object:
            for e in a.flat:
                if isinstance(e, (C, complex, np.complexfloating)):
                    return True
            return False
        return np.iscomplexobj(a)
    return False


def wrap(a):
    """View object ndarrays as SymArray (no copy)."""
    if isinstance(a, np.ndarray) and a.dtype == object and not isinstance(a, SymArray):
        return a.view(SymArray)
    return a


def _concretize_index(idx):
    """Turn object arrays of symbolic booleans used as masks into concrete bool arrays (forks)."""
    if isinstance(idx, tuple):
        return tuple(_concretize_index(i) for i in idx)
    if isinstance(idx, np.ndarray) and idx.dtype == object:
        flat = [e for e in idx.flat]
        if all(isinstance(e, (SB, bool, np.bool_)) for e in flat) and len(flat) > 0:
            out = np.empty(idx.shape, dtype=bool)
            for i, e in zip(np.ndindex(*idx.shape), flat):
                out[i] = bool(e)
            return out
        if all(isinstance(e, (int, np.integer)) or (isinstance(e, R) and e.q is not None and e.q.denominator == 1)
               for e in flat):
            out = np.empty(idx.shape, dtype=int)
            for i, e in zip(np.ndindex(*idx.shape), flat):
                out[i] = int(e)
            return out
    if isinstance(idx, R) and idx.q is not None:
        return int(idx)
    return idx


class SymArray(np.ndarray):
    """Object array of R / C / SB / exact numbers."""

    def __array_finalize__(self, obj):
        pass

    def __array_wrap__(self, arr, context=None, return_scalar=False):
        # reductions of an ndarray subclass give 0-d arrays; the base class gives the element itself
        if isinstance(arr, np.ndarray) and arr.ndim == 0 and arr.dtype == object:
            return arr[()]
        if isinstance(arr, np.ndarray) and arr.dtype == object:
            return arr.view(SymArray)
        if isinstance(arr, np.ndarray) and arr.ndim == 0:
            return arr[()]
        return np.asarray(arr)

    @property
    def real(self):
        if self.dtype != object:
            return np.asarray(self).real
        return wrap(_v_real(np.asarray(self)))

    @real.setter
    def real(self, v):
        raise TypeError("symx: assignment to .real of a symbolic array (encoding gap)")

    @property
    def imag(self):
        if self.dtype != object:
            return np.asarray(self).imag
        return wrap(_v_imag(np.asarray(self)))

    def conj(self):
        if self.dtype != object:
            return np.asarray(self).conj()
        return wrap(_v_conj(np.asarray(self)))

    conjugate = conj

    def __getitem__(self, idx):
        idx = _concretize_index(idx)
        r = super().__getitem__(idx)
        return r

    def __setitem__(self, idx, val):
        idx = _concretize_index(idx)
        super().__setitem__(idx, val)

    def astype(self, dtype, *a, **k):
        if self.dtype != object:
            return np.asarray(self).astype(dtype, *a, **k)
        dt = np.dtype(dtype)
        if dt == object or dt.kind == 'f':
            return self.copy()
        if dt.kind == 'c':
            out = np.empty(self.shape, dtype=object)
            for i in np.ndindex(*self.shape):
                out[i] = C.of(super().__getitem__(i))
            return out.view(SymArray)
        if dt.kind in 'iub':
            out = np.empty(self.shape, dtype=dt)
            for i in np.ndindex(*self.shape):
                e = super().__getitem__(i)
                out[i] = bool(e) if dt.kind == 'b' else int(e)
            return out
        raise TypeError("symx: astype(%s) on symbolic array" % dt)

    def min(self, axis=None, **k):
        from . import npshim
        return npshim.sym_min(self, axis=axis)

    def max(self, axis=None, **k):
        from . import npshim
        return npshim.sym_max(self, axis=axis)
