"""SymArray: ndarray subclass (dtype=object) that repairs the few ndarray attributes which are
silently wrong on object arrays (.real/.imag) or which need concrete values (boolean-mask indexing
with symbolic booleans, .min/.max/.argsort through symbolic comparisons work natively)."""
from fractions import Fraction
import numpy as np

from .scalars import R, C, SB, ite


def _elem_real(e):
    if isinstance(e, (R, C)):
        return e.real
    if isinstance(e, complex):
        return e.real
    return e


def _elem_imag(e):
    if isinstance(e, (R, C)):
        return e.imag
    if isinstance(e, complex):
        return e.imag
    return 0


def _elem_conj(e):
    if isinstance(e, (R, C)):
        return e.conjugate()
    if isinstance(e, complex):
        return e.conjugate()
    return e


_v_real = np.frompyfunc(_elem_real, 1, 1)
_v_imag = np.frompyfunc(_elem_imag, 1, 1)
_v_conj = np.frompyfunc(_elem_conj, 1, 1)


def is_complex_content(a):
    """True if an object array / scalar holds complex values."""
    if isinstance(a, C) or isinstance(a, (complex, np.complexfloating)):
        return True
    if isinstance(a, np.ndarray):
        if a.dtype == object:
            for e in a.flat:
                if isinstance(e, (C, complex, np.complexfloating)):
                    return True
            return False
        return np.iscomplexobj(a)
    return False


def wrap(a):
    """View object ndarrays as SymArray (no copy)."""
    if isinstance(a, np.ndarray) and a.dtype == object and not isinstance(a, SymArray):
        return a.view(SymArray)
    return a


def _concretize_index(idx):
    """Turn object arrays of symbolic booleans used as masks into concrete bool arrays (forks)."""
    if isinstance(idx, tuple):
        return tuple(_concretize_index(i) for i in idx)
    if isinstance(idx, np.ndarray) and idx.dtype == object:
        flat = [e for e in idx.flat]
        if all(isinstance(e, (SB, bool, np.bool_)) for e in flat) and len(flat) > 0:
            out = np.empty(idx.shape, dtype=bool)
            for i, e in zip(np.ndindex(*idx.shape), flat):
                out[i] = bool(e)
            return out
        if all(isinstance(e, (int, np.integer)) or (isinstance(e, R) and e.q is not None and e.q.denominator == 1)
               for e in flat):
            out = np.empty(idx.shape, dtype=int)
            for i, e in zip(np.ndindex(*idx.shape), flat):
                out[i] = int(e)
            return out
    if isinstance(idx, R) and idx.q is not None:
        return int(idx)
    return idx


# ------------------------------------------------------------------------------------------------
# Opt-in "logical dtype" mode (off by default; a harness switches it on inside its forked worker).
# Object arrays forget whether they stand for float64 or complex128 data.  With the mode on,
#   * SymArray.dtype is still the object dtype (== object, kind 'O') but carries the logical kind
#     ('f' / 'c', derived from the content) as dtype metadata, which npshim.result_type and the shimmed
#     creation functions read, so `np.result_type(self.dtype, ui.dtype)` in pyMOTO tracks complexness;
#   * in-place arithmetic of a real-content array with a complex operand raises the UFuncTypeError
#     NumPy raises for float64 (+)= complex128;
#   * item assignment keeps the logical kind of the target (complex -> real discards the imaginary
#     part as NumPy does for complex128 scalars/arrays; real -> complex is promoted).
_LOGICAL = False
_TAGGED = {}


def enable_logical_dtype(on=True):
    global _LOGICAL
    _LOGICAL = bool(on)


def logical_dtype_enabled():
    return _LOGICAL


def logical_kind_of_dtype(dt):
    """'c' / 'f' for an object dtype tagged by SymArray.dtype, else None."""
    md = getattr(dt, "metadata", None)
    if md:
        return md.get("symx")
    return None


def _tagged(kind):
    d = _TAGGED.get(kind)
    if d is None:
        d = _TAGGED[kind] = np.dtype(object, metadata={"symx": kind})
    return d


def _cast_kind(val, to_complex):
    def one(e):
        if to_complex:
            if isinstance(e, (R, bool, int, float, Fraction, np.integer, np.floating, np.bool_)):
                return C.of(e)
            return e
        if isinstance(e, (C, complex, np.complexfloating)):
            return e.real
        return e
    if isinstance(val, np.ndarray):
        if val.dtype != object:
            if to_complex or val.dtype.kind != "c":
                return val
            return val.real
        out = np.empty(val.shape, dtype=object)
        for i in np.ndindex(*val.shape):
            out[i] = one(np.ndarray.__getitem__(val, i))
        return out
    if isinstance(val, (list, tuple)):
        return val
    return one(val)


def _inplace_cast_check(self, other, ufunc):
    if not _LOGICAL:
        return
    base = np.asarray(self)
    if base.dtype != object or base.size == 0:
        return
    if not is_complex_content(base) and is_complex_content(other if not isinstance(other, SymArray) else np.asarray(other)):
        from numpy._core._exceptions import _UFuncOutputCastingError
        raise _UFuncOutputCastingError(ufunc, "same_kind", np.dtype(complex), np.dtype(float), 2)


class SymArray(np.ndarray):
    """Object array of R / C / SB / exact numbers."""

    def __array_finalize__(self, obj):
        pass

    @property
    def dtype(self):
        dt = np.ndarray.dtype.__get__(self)
        if _LOGICAL and dt == object:
            return _tagged("c" if is_complex_content(np.asarray(self)) else "f")
        return dt

    @dtype.setter
    def dtype(self, v):
        np.ndarray.dtype.__set__(self, v)

    def __iadd__(self, o):
        _inplace_cast_check(self, o, np.add)
        return super().__iadd__(o)

    def __isub__(self, o):
        _inplace_cast_check(self, o, np.subtract)
        return super().__isub__(o)

    def __imul__(self, o):
        _inplace_cast_check(self, o, np.multiply)
        return super().__imul__(o)

    def __array_wrap__(self, arr, context=None, return_scalar=False):
        # reductions of an ndarray subclass give 0-d arrays; the base class gives the element itself
        if isinstance(arr, np.ndarray) and arr.ndim == 0 and arr.dtype == object:
            return arr[()]
        if isinstance(arr, np.ndarray) and arr.dtype == object:
            return arr.view(SymArray)
        if isinstance(arr, np.ndarray) and arr.ndim == 0:
            return arr[()]
        return np.asarray(arr)

    @property
    def real(self):
        if self.dtype != object:
            return np.asarray(self).real
        if not is_complex_content(np.asarray(self)):
            return self.view()   # ndarray.real of a non-complex array is a view on the same memory: aliasing matters
        return wrap(_v_real(np.asarray(self)))

    @real.setter
    def real(self, v):
        raise TypeError("symx: assignment to .real of a symbolic array (encoding gap)")

    @property
    def imag(self):
        if self.dtype != object:
            return np.asarray(self).imag
        return wrap(_v_imag(np.asarray(self)))

    def conj(self):
        if self.dtype != object:
            return np.asarray(self).conj()
        if not is_complex_content(np.asarray(self)):
            return self          # ndarray.conj() of a non-complex array returns the array itself (no copy): aliasing matters
        return wrap(_v_conj(np.asarray(self)))

    conjugate = conj

    def __getitem__(self, idx):
        idx = _concretize_index(idx)
        r = super().__getitem__(idx)
        return r

    def __setitem__(self, idx, val):
        idx = _concretize_index(idx)
        if _LOGICAL:
            base = np.asarray(self)
            if base.dtype == object and base.size:
                val = _cast_kind(val, is_complex_content(base))
        super().__setitem__(idx, val)

    def astype(self, dtype, *a, **k):
        if self.dtype != object:
            return np.asarray(self).astype(dtype, *a, **k)
        dt = np.dtype(dtype)
        nocopy = (k.get("copy", True) is False)
        cplx_content = is_complex_content(np.asarray(self))
        if dt == object or dt.kind == 'f':
            # astype(..., copy=False) hands back the array itself when nothing has to be converted (aliasing matters)
            if nocopy and (dt == object or not cplx_content):
                return self
            return self.copy()
        if dt.kind == 'c' and nocopy and cplx_content:
            return self
        if dt.kind == 'c':
            out = np.empty(self.shape, dtype=object)
            for i in np.ndindex(*self.shape):
                out[i] = C.of(super().__getitem__(i))
            return out.view(SymArray)
        if dt.kind in 'iub':
            out = np.empty(self.shape, dtype=dt)
            for i in np.ndindex(*self.shape):
                e = super().__getitem__(i)
                out[i] = bool(e) if dt.kind == 'b' else int(e)
            return out
        raise TypeError("symx: astype(%s) on symbolic array" % dt)

    def min(self, axis=None, **k):
        from . import npshim
        return npshim.sym_min(self, axis=axis)

    def max(self, axis=None, **k):
        from . import npshim
        return npshim.sym_max(self, axis=axis)
