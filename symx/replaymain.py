"""Replay of counterexamples on the real, unshimmed library in a fresh process."""
import importlib
import json
import os
import sys
import traceback


def main():
    with open(sys.argv[1]) as f:
        job = json.load(f)
    verif = os.path.dirname(os.path.dirname(os.path.abspath(__file__)))
    sys.path.insert(0, job["repo"])
    sys.path.insert(0, verif)
    os.environ["SYMX_REPO"] = job["repo"]
    import warnings
    warnings.simplefilter("ignore")
    h = importlib.import_module("harness." + job["harness"])
    out = []
    for c in job["cases"]:
        env = {}
        for k, v in (c.get("env") or {}).items():
            env[k] = (v[0] / v[1]) if isinstance(v, list) and len(v) == 2 else v
        try:
            import io
            import contextlib
            buf = io.StringIO()
            try:
                from harness.common import Vals
                Vals.default_layout = (c.get("cfg") or {}).get("mem_layout")
            except Exception:
                pass
            with contextlib.redirect_stdout(buf):
                r = h.replay(c["cfg"], c["label"], env, c)
            out.append(r)
        except Exception as e:
            out.append(dict(reproduced=None, detail="replay raised %s: %s %s" % (type(e).__name__, e, traceback.format_exc()[-800:])))
    print("REPLAY-RESULT " + json.dumps(out, default=str))


if __name__ == "__main__":
    main()
