"""Stand-ins for scipy.linalg factorizations and scipy.sparse.linalg objects.

Two mechanisms (DESIGN.md 3.5):
* factor pre-images: the harness builds A from free factor symbols and registers them with
  `register(kind, factors)`; the stub returns the registered factors after *proving* that they
  reproduce the matrix it was handed (so a mutated caller handing over another matrix is noticed);
* deterministic symbolic models where no pre-image is registered: LU / LDL elimination without
  pivoting (pivots guarded non-zero) and triangular substitution.  These are exact computations.
"""
import numpy as _np
import z3

from . import ctx as _ctx
from .scalars import R, C, SB
from .array import SymArray, wrap, is_complex_content
from . import npshim as _nps


def _reg(c):
    if not hasattr(c, "factor_reg"):
        c.factor_reg = {}
        c.factor_cfg = {}
    return c.factor_reg


def register(kind, factors):
    c = _ctx.current()
    _reg(c).setdefault(kind, []).append(factors)


def configure(**kw):
    c = _ctx.current()
    _reg(c)
    c.factor_cfg.update(kw)


def _dense(A):
    if hasattr(A, "_dense"):
        return _np.asarray(A._dense)
    return _np.asarray(A)


def _valid_eq(X, Y):
    from .decide import quick_equal
    X, Y = _np.asarray(X), _np.asarray(Y)
    if X.shape != Y.shape:
        return False
    return all(quick_equal(X[i], Y[i]) for i in _np.ndindex(*X.shape))


def _conjT(M):
    return wrap(_np.asarray(M).T.astype(object)).conj()


def _eyeobj(n):
    return _nps.eye(n)


def _sym(*a):
    return _nps.has_sym(*a) or any(hasattr(x, "_dense") for x in a)


def _clobber(arr, k, *flags):
    """LAPACK semantics of overwrite_a / overwrite_b = True: the array handed in MAY be used as work space.  Modelled
    as 'is destroyed' (entries replaced in place by fresh unconstrained symbols); whether the real library does it for
    the given memory layout is settled by the replay."""
    if not any(k.get(f) for f in flags):
        return
    base = arr._dense if hasattr(arr, "_dense") else arr
    if not isinstance(base, _np.ndarray) or base.dtype != object:
        return
    c = _ctx.current()
    c.stubs.add("LAPACK overwrite_* flag: the input array is modelled as destroyed")
    from .scalars import sym
    for i in _np.ndindex(*base.shape):
        _np.ndarray.__setitem__(base, i, sym(c.fresh_name("ow")))


# ------------------------------------------------------------------------------------------------
def lu(a, permute_l=False, **k):
    import scipy.linalg as spla
    if not _sym(a):
        return spla.lu(a, permute_l=permute_l, **k)
    c = _ctx.current()
    A = _dense(a)
    for (P, L, U) in _reg(c).get("lu", []):
        if _valid_eq(_np.asarray(P) @ _np.asarray(L) @ _np.asarray(U), A):
            c.stubs.add("scipy.linalg.lu (factor pre-image: returns registered P, L, U with P L U = A)")
            return wrap(_np.array(P, dtype=object)), wrap(_np.array(L, dtype=object)), wrap(_np.array(U, dtype=object))
    c.stubs.add("scipy.linalg.lu (deterministic model: elimination without pivoting, pivots != 0)")
    n = A.shape[0]
    L = _eyeobj(n)
    U = wrap(_np.array(A, dtype=object, copy=True))
    for j in range(n):
        for i in range(j + 1, n):
            f = U[i, j] / U[j, j]
            L[i, j] = f
            for kk in range(j, n):
                U[i, kk] = U[i, kk] - f * U[j, kk]
            U[i, j] = 0
    return _eyeobj(n), L, U


def cholesky(a, lower=False, **k):
    import scipy.linalg as spla
    if not _sym(a):
        return spla.cholesky(a, lower=lower, **k)
    c = _ctx.current()
    A = _dense(a)
    if getattr(c, "factor_cfg", {}).get("cholesky_fails"):
        raise _np.linalg.LinAlgError("symx: Cholesky factorization configured to fail")
    for U in _reg(c).get("cholesky", []):
        if _valid_eq(_np.asarray(_conjT(U)) @ _np.asarray(U), A):
            c.stubs.add("scipy.linalg.cholesky (factor pre-image: registered U with U^H U = A)")
            U = wrap(_np.array(U, dtype=object))
            return _conjT(U) if lower else U
    # deterministic model: Cholesky-Crout elimination; a non-positive pivot raises LinAlgError like LAPACK
    c.stubs.add("scipy.linalg.cholesky (deterministic model: elimination with SQRT pivots; pivot <= 0 raises LinAlgError)")
    n = A.shape[0]
    U = _nps.zeros((n, n))
    cj = (lambda x: x.conjugate() if isinstance(x, (R, C)) else x)
    for j in range(n):
        s = A[j, j]
        s = s.re if isinstance(s, C) else s
        for kk in range(j):
            u = U[kk, j]
            s = s - ((u.re * u.re + u.im * u.im) if isinstance(u, C) else u * u)
        if not (s > 0):
            raise _np.linalg.LinAlgError("%d-th leading minor of the array is not positive definite" % (j + 1))
        piv = _nps.sqrt(s)
        U[j, j] = piv
        for i in range(j + 1, n):
            t = A[j, i]
            for kk in range(j):
                t = t - cj(U[kk, j]) * U[kk, i]
            U[j, i] = t / piv
    return _conjT(U) if lower else U


def ldl(a, lower=True, hermitian=True, **k):
    import scipy.linalg as spla
    if not _sym(a):
        return spla.ldl(a, lower=lower, hermitian=hermitian, **k)
    c = _ctx.current()
    A = _dense(a)
    n = A.shape[0]
    for (l, d, p) in _reg(c).get("ldl", []):
        lt = _conjT(l) if hermitian else wrap(_np.asarray(l).T)
        if _valid_eq(_np.asarray(l) @ _np.asarray(d) @ _np.asarray(lt), A):
            c.stubs.add("scipy.linalg.ldl (factor pre-image: registered L, D, perm with L D L^T/H = A)")
            return wrap(_np.array(l, dtype=object)), wrap(_np.array(d, dtype=object)), _np.asarray(p)
    c.stubs.add("scipy.linalg.ldl (deterministic model: LDL elimination without pivoting, pivots != 0)")
    L = _eyeobj(n)
    D = _nps.zeros((n, n))
    cj = (lambda x: x.conjugate() if isinstance(x, (R, C)) else x) if hermitian else (lambda x: x)
    for j in range(n):
        s = A[j, j]
        for kk in range(j):
            s = s - L[j, kk] * cj(L[j, kk]) * D[kk, kk]
        D[j, j] = s
        for i in range(j + 1, n):
            t = A[i, j]
            for kk in range(j):
                t = t - L[i, kk] * cj(L[j, kk]) * D[kk, kk]
            L[i, j] = t / s
    return L, D, _np.arange(n)


def qr(a, **k):
    import scipy.linalg as spla
    if not _sym(a):
        return spla.qr(a, **k)
    c = _ctx.current()
    A = _dense(a)
    for (Q, Rm) in _reg(c).get("qr", []):
        if _valid_eq(_np.asarray(Q) @ _np.asarray(Rm), A):
            c.stubs.add("scipy.linalg.qr (factor pre-image: registered Q, R with Q R = A, Q^H Q = I assumed)")
            return wrap(_np.array(Q, dtype=object)), wrap(_np.array(Rm, dtype=object))
    raise _nps.EncodingGap("scipy.linalg.qr without a matching factor pre-image")


def solve_triangular(a, b, trans=0, lower=False, unit_diagonal=False, **k):
    import scipy.linalg as spla
    if not _sym(a, b):
        return spla.solve_triangular(a, b, trans=trans, lower=lower, unit_diagonal=unit_diagonal, **k)
    _ctx.current().stubs.add("scipy.linalg.solve_triangular (exact substitution)")
    T = _dense(a)
    tr = {0: 'N', 1: 'T', 2: 'C', 'N': 'N', 'T': 'T', 'C': 'C'}[trans]
    if tr == 'T':
        T = T.T
        lower = not lower
    elif tr == 'C':
        T = _np.asarray(_conjT(T))
        lower = not lower
    B = _np.asarray(b)
    n = T.shape[0]
    if B.shape[0] != n:
        raise ValueError("shapes of a %s and b %s are incompatible" % (T.shape, B.shape))
    X = _np.empty(B.shape, dtype=object)
    order = range(n) if lower else range(n - 1, -1, -1)
    for i in order:
        s = B[i]
        rng = range(0, i) if lower else range(i + 1, n)
        for j in rng:
            tij = T[i, j]
            if not isinstance(tij, (R, C)) and tij == 0:
                continue
            s = s - tij * X[j]
        X[i] = s if unit_diagonal else s / T[i, i]
    return wrap(X)


# ------------------------------------------------------------------------------------------------
def eigh(a, b=None, **k):
    import scipy.linalg as spla
    if not _sym(a, b):
        return spla.eigh(a, b=b, **k)
    return _eig_registered(a, b, "eigh")


def eig(a, b=None, **k):
    import scipy.linalg as spla
    if not _sym(a, b):
        return spla.eig(a, b=b, **k)
    return _eig_registered(a, b, "eig")


def _hermitian_precondition(c, M, what):
    """LAPACK's ?syev/?heev read ONE triangle: handing eigh a matrix that is not Hermitian silently solves a different
    problem.  Recorded as an obligation of the path (harness/common.symbolic_run turns it into a clause)."""
    A = _dense(M)
    conds = []
    n = A.shape[0]
    for i in range(n):
        for j in range(i):
            x, y = A[i, j], A[j, i]
            yc = y.conjugate() if isinstance(y, (R, C)) else _np.conj(y)
            e = (x == yc)
            if isinstance(e, SB):
                conds.append(e.t)
            elif not bool(e):
                conds.append(z3.BoolVal(False))
    if conds:
        if not hasattr(c, "lib_preconditions"):
            c.lib_preconditions = []
        c.lib_preconditions.append(("scipy.linalg.eigh: %s is Hermitian (only one triangle is read)" % what,
                                    SB(z3.And(*conds)) if len(conds) > 1 else SB(conds[0])))


def _same_matrix_precondition(c, M, ref, what):
    A, Rf = _dense(M), _dense(ref)
    conds = []
    if A.shape != Rf.shape:
        conds.append(z3.BoolVal(False))
    else:
        for i in _np.ndindex(*A.shape):
            e = (A[i] == Rf[i])
            if isinstance(e, SB):
                conds.append(e.t)
            elif not bool(e):
                conds.append(z3.BoolVal(False))
    if conds:
        if not hasattr(c, "lib_preconditions"):
            c.lib_preconditions = []
        c.lib_preconditions.append(("scipy.linalg eigen-solver: argument %s is the module's input matrix" % what,
                                    SB(z3.And(*conds)) if len(conds) > 1 else SB(conds[0])))


def _eig_registered(a, b, kind):
    c = _ctx.current()
    if kind == "eigh":
        _hermitian_precondition(c, a, "a")
        if b is not None:
            _hermitian_precondition(c, b, "b")
    regs = _reg(c).get("eig", [])
    if not regs:
        raise _nps.EncodingGap("scipy.linalg.%s without registered oracle eigenpairs" % kind)
    reg = regs[-1]
    W, Q = reg[0], reg[1]
    if len(reg) >= 3 and reg[2] is not None:
        # the oracle's eigenpairs belong to a particular pencil: LAPACK must be handed exactly that pencil
        _same_matrix_precondition(c, a, reg[2], "a")
        if len(reg) >= 4 and reg[3] is not None and b is not None:
            _same_matrix_precondition(c, b, reg[3], "b")
    c.stubs.add("scipy.linalg.%s (contract oracle: arbitrary (W, Q) with A Q = B Q diag(W))" % kind)
    c.oracle_eig_calls = getattr(c, "oracle_eig_calls", []) + [(kind, a, b)]
    return wrap(_np.array(W, dtype=object)), wrap(_np.array(Q, dtype=object))


class _SuperLU:
    def __init__(self, A):
        self.A = _dense(A)
        self.shape = self.A.shape

    def solve(self, rhs, trans='N'):
        from . import oracles
        if trans not in ('N', 'T', 'H'):
            raise ValueError("trans must be N, T, or H")
        A = self.A
        def _z(e):      # concretely zero entry (plain number, or a symbolic scalar carrying the concrete value 0)
            if isinstance(e, R):
                return e.q is not None and e.q == 0
            if isinstance(e, C):
                return e.re.q is not None and e.re.q == 0 and e.im.q is not None and e.im.q == 0
            return e == 0
        zl = all(_z(A[i, j]) for i in range(A.shape[0]) for j in range(i + 1, A.shape[1]))
        zu = all(_z(A[i, j]) for i in range(A.shape[0]) for j in range(0, i))
        if zl or zu:
            return solve_triangular(A, rhs, trans={'N': 'N', 'T': 'T', 'H': 'C'}[trans], lower=zl and not zu or (zl and zu))
        _ctx.current().stubs.add("scipy.sparse.linalg.splu(...).solve (contract oracle: op(A) x = b)")
        return oracles.solve_contract(A, rhs, trans, label="slu")


def splu(A, **k):
    import scipy.sparse.linalg as spsla
    if not _sym(A):
        return spsla.splu(A, **k)
    return _SuperLU(A)


def spilu(A, **k):
    import scipy.sparse.linalg as spsla
    if not _sym(A):
        return spsla.spilu(A, **k)
    raise _nps.EncodingGap("scipy.sparse.linalg.spilu on symbolic data")


class LinearOperator:
    def __init__(self, shape, matvec, rmatvec=None, **k):
        self.shape = shape
        self.matvec = matvec
        self.rmatvec = rmatvec


def eigsh(A, k=6, M=None, sigma=None, which='LM', OPinv=None, mode='normal', **kw):
    import scipy.sparse.linalg as spsla
    if not _sym(A, M):
        return spsla.eigsh(A, k=k, M=M, sigma=sigma, which=which, OPinv=OPinv, mode=mode, **kw)
    return _arpack(A, k, M, sigma, OPinv, "eigsh", mode, which=which, extra=kw)


def eigs(A, k=6, M=None, sigma=None, which='LM', OPinv=None, **kw):
    import scipy.sparse.linalg as spsla
    if not _sym(A, M):
        return spsla.eigs(A, k=k, M=M, sigma=sigma, which=which, OPinv=OPinv, **kw)
    return _arpack(A, k, M, sigma, OPinv, "eigs", "normal", which=which, extra=kw)


def _arpack(A, k, M, sigma, OPinv, kind, mode, which='LM', extra=None):
    c = _ctx.current()
    regs = _reg(c).get("eig", [])
    if not regs:
        raise _nps.EncodingGap("scipy.sparse.linalg.%s without registered oracle eigenpairs" % kind)
    W, Q = regs[-1]
    if kind == "eigsh":
        _hermitian_precondition(c, A, "A")
        if M is not None:
            _hermitian_precondition(c, M, "M")
    c.stubs.add("scipy.sparse.linalg.%s (contract oracle: k arbitrary eigenpairs)" % kind)
    c.arpack_calls = getattr(c, "arpack_calls", []) + [dict(kind=kind, A=A, k=k, M=M, sigma=sigma, OPinv=OPinv, mode=mode, which=which,
                                                          extra=dict(extra or {}))]
    W = _np.asarray(W)[:k]
    Q = _np.asarray(Q)[:, :k]
    return wrap(_np.array(W, dtype=object)), wrap(_np.array(Q, dtype=object))


def _with_overwrite(fn, *pairs):
    """pairs: (positional index / keyword name of the array, flag name)."""
    import functools

    @functools.wraps(fn)
    def wrapped(*a, **k):
        res = fn(*a, **k)
        for (pos, name, flag) in pairs:
            arr = a[pos] if len(a) > pos else k.get(name)
            if arr is not None and _sym(arr):
                _clobber(arr, k, flag)
        return res
    return wrapped


lu = _with_overwrite(lu, (0, "a", "overwrite_a"))
cholesky = _with_overwrite(cholesky, (0, "a", "overwrite_a"))
ldl = _with_overwrite(ldl, (0, "a", "overwrite_a"))
qr = _with_overwrite(qr, (0, "a", "overwrite_a"))
solve_triangular = _with_overwrite(solve_triangular, (1, "b", "overwrite_b"))
eigh = _with_overwrite(eigh, (0, "a", "overwrite_a"), (1, "b", "overwrite_b"))
eig = _with_overwrite(eig, (0, "a", "overwrite_a"), (1, "b", "overwrite_b"))
