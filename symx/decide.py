"""Decision pipeline: staged discharge of obligations (DESIGN.md 3.7).

stage 0  simplify      z3's simplifier normalises  lhs*den(rhs) - rhs*den(lhs)  to the numeral 0
stage 1  solver-free   negated goal + axiom instances only (an identity needs no assumption)
stage 2  solver-full   assumptions + definedness + path condition + axiom instances + negated goal
`sat` answers carry a model; `unknown`/timeouts are inconclusive and never counted as discharged.
"""
from fractions import Fraction
import time
import numpy as np
import z3

from . import ctx as _ctx
from . import axioms as _ax
from .scalars import R, C, SB

_SIMP = dict(som=True, arith_lhs=True, hoist_mul=False)


import os as _os
_DUMP = _os.environ.get("SYMX_DUMP_QUERY")
_SIMP_TACTIC = None
SIMP_TIMEOUT_MS = 4000


def _simp_zero(N):
    """True iff z3's simplifier normalises N (sum-of-monomials) to the numeral 0.  Runs as a tactic under
    try-for, because the monomial expansion of a large product has no other time limit."""
    global _SIMP_TACTIC
    if _SIMP_TACTIC is None:
        _SIMP_TACTIC = z3.TryFor(z3.With("simplify", som=True), SIMP_TIMEOUT_MS)
    try:
        g = z3.Goal()
        g.add(N != 0)
        res = _SIMP_TACTIC(g)
    except z3.Z3Exception:
        return False
    return len(res) == 1 and res[0].inconsistent()


def _diff_num(a, b):
    a, b = R.of(a), R.of(b)
    N, S, flip = a._cmp_terms(b)
    return N


def quick_equal(a, b, timeout_ms=800):
    """True only if a == b is *proved* (used by the oracles to match pre-image candidates)."""
    if isinstance(a, C) or isinstance(b, C):
        a, b = C.of(a), C.of(b)
        return quick_equal(a.re, b.re, timeout_ms) and quick_equal(a.im, b.im, timeout_ms)
    a, b = R.of(a), R.of(b)
    if a is None or b is None:
        return False
    if a.q is not None and b.q is not None:
        return a.q == b.q
    if a._n is not None and b._n is not None and a.d == b.d and a.n.get_id() == b.n.get_id():
        return True
    N = _diff_num(a, b)
    if _simp_zero(N):
        return True
    c = _ctx.current()
    s = _ctx.mk_solver(timeout_ms)
    bc = c.base_constraints()
    for x in bc:
        s.add(x)
    for x in _ax.instances(bc + [N], c):
        s.add(x)
    s.add(N != 0)
    t0 = time.time()
    r = s.check()
    c.stats["solver_time"] += time.time() - t0
    return r == z3.unsat


def _val(v):
    if z3.is_int_value(v):            # IntNumRef has no as_fraction()
        return [v.as_long(), 1]
    if z3.is_rational_value(v):
        f = v.as_fraction()
        return [f.numerator, f.denominator]
    if z3.is_algebraic_value(v):
        f = v.approx(20).as_fraction()
        return [f.numerator, f.denominator]
    if z3.is_true(v) or z3.is_false(v):
        return bool(z3.is_true(v))
    if z3.is_bv_value(v):             # unsigned bit-vector integers of symx.zint
        return [v.as_long(), 1]
    if z3.is_string_value(v):         # symx.symstr
        return {"str": v.as_string()}
    return None


def model_env(m, c):
    """Values for every registered symbol of the context (model completion for unconstrained ones)."""
    out = {}
    for name, t in c.symbols.items():
        v = _val(m.eval(t, model_completion=True))
        if v is not None:
            out[name] = v
    for d in m.decls():
        if d.arity() == 0 and d.name() not in out:
            v = _val(m[d])
            if v is not None:
                out[d.name()] = v
    return out


def model_to_dict(m):
    out = {}
    for d in m.decls():
        if d.arity() != 0:
            continue
        v = m[d]
        try:
            if z3.is_rational_value(v):
                f = v.as_fraction()
                out[d.name()] = [f.numerator, f.denominator]
            elif z3.is_algebraic_value(v):
                f = v.approx(20).as_fraction()
                out[d.name()] = [f.numerator, f.denominator]
            elif z3.is_true(v) or z3.is_false(v):
                out[d.name()] = bool(z3.is_true(v))
            elif z3.is_int_value(v):
                out[d.name()] = [v.as_long(), 1]
        except Exception:
            pass
    return out


class Obligation:
    __slots__ = ("label", "status", "stage", "time", "model", "nontrivial", "key", "smt", "kind")

    def as_dict(self):
        return dict(label=self.label, status=self.status, stage=self.stage, time=round(self.time, 4),
                    model=self.model, nontrivial=self.nontrivial, kind=self.kind)


class Prover:
    """Collects and decides obligations for one path of one configuration."""

    def __init__(self, c, timeout_ms=10000, free_timeout_ms=1500, keep_smt=2):
        self.c = c
        self.timeout_ms = timeout_ms
        self.free_timeout_ms = free_timeout_ms
        self.obls = []
        self.keep_smt = keep_smt
        self.samples = []
        self.solver_time = 0.0
        self.n_solver = 0

    # -------------------------------------------------------------------------------- goals
    def _new(self, label, kind):
        o = Obligation()
        o.label, o.kind = label, kind
        o.status, o.stage, o.time, o.model, o.nontrivial, o.key, o.smt = None, None, 0.0, None, True, None, None
        self.obls.append(o)
        return o

    def holds(self, label, goal, kind="pred"):
        """goal: SB / bool / z3 BoolRef that must be valid under the current path."""
        o = self._new(label, kind)
        if isinstance(goal, np.ndarray) and goal.ndim == 0:
            goal = goal[()]
        if isinstance(goal, (bool, np.bool_)):
            o.nontrivial = False
            o.status = "unsat" if goal else "sat"
            o.stage = "concrete"
            o.model = self._path_model() if not goal else None
            return o
        g = goal.t if isinstance(goal, SB) else goal
        t0 = time.time()
        gs = z3.simplify(g)
        if z3.is_true(gs):
            o.status, o.stage = "unsat", "simplify"
            o.time = time.time() - t0
            return o
        self._solve(o, z3.Not(g), try_free=False)
        o.time = time.time() - t0
        return o

    def eq(self, label, a, b, kind="eq"):
        """a == b for scalars (R / C / numbers)."""
        if isinstance(a, C) or isinstance(b, C) or isinstance(a, complex) or isinstance(b, complex):
            a, b = C.of(a), C.of(b)
            o1 = self.eq(label + ".re", a.re, b.re, kind)
            o2 = self.eq(label + ".im", a.im, b.im, kind)
            return (o1, o2)
        o = self._new(label, kind)
        a2, b2 = R.of(a), R.of(b)
        if a2 is None or b2 is None:
            o.status, o.stage, o.model = "sat", "type", {}
            o.model = {"_note": "non-numeric value %r vs %r" % (type(a).__name__, type(b).__name__)}
            return o
        a, b = a2, b2
        t0 = time.time()
        if a.q is not None and b.q is not None:
            o.nontrivial = False
            ok = a.q == b.q
            o.status, o.stage = ("unsat" if ok else "sat"), "concrete"
            o.model = None if ok else self._path_model()
            return o
        if a._n is not None and b._n is not None and a.d == b.d and a.n.get_id() == b.n.get_id():
            o.nontrivial = False
            o.status, o.stage = "unsat", "identical"
            return o
        N = _diff_num(a, b)
        o.key = N.hash()
        if _simp_zero(N):
            o.status, o.stage = "unsat", "simplify"
            o.time = time.time() - t0
            return o
        # witness preference: |a - b| >= 1/8 (on the values, i.e. numerator against the common denominator)
        from .scalars import _dmerge_max, _dprod_term
        D = _dprod_term(_dmerge_max(a.d, b.d))
        lim = z3.RatVal(1, 64) if D is None else z3.RatVal(1, 64) * D * D
        self._solve(o, N != 0, try_free=True, pref=(N * N >= lim))
        o.time = time.time() - t0
        return o

    def arrays_eq(self, label, A, B, kind="eq"):
        """Entry-wise equality of two arrays (shape mismatch is itself a failed obligation)."""
        A = _dense(A)
        B = _dense(B)
        if A.shape != B.shape:
            o = self._new(label + ".shape", kind)
            o.status, o.stage, o.nontrivial = "sat", "concrete", False
            o.model = {"_note": "shape %s vs %s" % (A.shape, B.shape)}
            return [o]
        res = []
        for i in np.ndindex(*A.shape):
            r = self.eq("%s[%s]" % (label, ",".join(map(str, i))), A[i], B[i], kind)
            res.extend(r if isinstance(r, tuple) else [r])
        return res

    def no_division_by_zero(self, label, since, until=None, kind="definedness"):
        """Opt-in definedness obligation: the divisors the code under test used between two marks of `c.defined`
        (`since = len(c.defined)` taken before the calls) are non-zero for EVERY input the assumptions and the path
        admit.  Without it a division only restricts the path to where it is defined."""
        c = self.c
        guards = list(c.defined[since:until])
        if not guards:
            return self.holds(label, True, kind)
        saved = c.defined
        c.defined = list(saved[:since]) + (list(saved[until:]) if until is not None else [])
        try:
            return self.holds(label, SB(z3.And(*guards)) if len(guards) > 1 else SB(guards[0]), kind)
        finally:
            c.defined = saved

    # -------------------------------------------------------------------------------- solving
    def _solve(self, o, negated_goal, try_free, pref=None):
        c = self.c
        if _ctx.soft_deadline_passed():
            o.status, o.stage = "unknown", "not attempted: the item's soft deadline had passed"
            return
        bc = c.base_constraints()
        axs_free = list(_ax.instances([negated_goal], c))
        axs = list(_ax.instances(bc + [negated_goal], c))
        if try_free:
            s = _ctx.mk_solver(self.free_timeout_ms)
            for a in axs_free:
                s.add(a)
            s.add(negated_goal)
            t0 = time.time()
            r = s.check()
            self.solver_time += time.time() - t0
            self.n_solver += 1
            if r == z3.unsat:
                o.status, o.stage = "unsat", "solver-free"
                self._sample(o, s)
                return
        if c.pc and (c.assumptions or c.defined):
            # the path condition alone often implies the goal (e.g. an ordering decided by argsort): fewer
            # constraints being unsat implies the full query is unsat
            s = _ctx.mk_solver(min(self.timeout_ms, 1500))
            for a in c.pc:
                s.add(a)
            s.add(negated_goal)
            t0 = time.time()
            r = s.check()
            self.solver_time += time.time() - t0
            self.n_solver += 1
            if r == z3.unsat:
                o.status, o.stage = "unsat", "solver-pc"
                self._sample(o, s)
                return
        s = _ctx.mk_solver(self.timeout_ms)
        for a in bc:
            s.add(a)
        for a in axs:
            s.add(a)
        s.add(negated_goal)
        if _DUMP:
            with open(_DUMP, "w") as f:
                f.write(s.to_smt2())
        t0 = time.time()
        r = s.check()
        self.solver_time += time.time() - t0
        self.n_solver += 1
        if r == z3.unsat:
            o.status, o.stage = "unsat", "solver-full"
        elif r == z3.sat:
            o.status, o.stage = "sat", "solver-full"
            o.model = model_env(s.model(), c)
            # prefer a well-conditioned witness (|v| <= 8) for the replay in floating point; fresh solver
            # (an incremental push/pop would leave z3's QF_NRA procedure and ignore the timeout)
            # (with `pref`: a witness whose violation is large enough to survive floating point)
            for use_pref in ((True, False) if pref is not None else (False,)):
                s2 = _ctx.mk_solver(3000)
                for a in bc:
                    s2.add(a)
                for a in axs:
                    s2.add(a)
                s2.add(negated_goal)
                if use_pref:
                    s2.add(pref)
                for name, t in c.symbols.items():
                    if z3.is_real(t):
                        s2.add(t <= 8, t >= -8)
                for w in getattr(c, "witness_prefs", []):
                    s2.add(w)
                if s2.check() == z3.sat:
                    o.model = model_env(s2.model(), c)
                    break
        else:
            o.status, o.stage = "unknown", "solver-full:" + str(s.reason_unknown())[:60]
        self._sample(o, s)

    def _sample(self, o, s):
        if len(self.samples) < self.keep_smt:
            txt = s.to_smt2()
            if len(txt) > 4000:
                txt = txt[:4000] + "\n; ... truncated"
            self.samples.append(dict(label=o.label, status=o.status, stage=o.stage, smt2=txt))

    def _path_model(self):
        """A (boxed, if possible) model of assumptions + path condition, for concrete failures."""
        c = self.c
        bc = c.base_constraints()
        axs = list(_ax.instances(bc, c))
        for boxed in (True, False):
            s = _ctx.mk_solver(3000)
            for a in bc:
                s.add(a)
            for a in axs:
                s.add(a)
            if boxed:
                for name, t in c.symbols.items():
                    if z3.is_real(t):
                        s.add(t <= 8, t >= -8)
                for w in getattr(c, "witness_prefs", []):
                    s.add(w)
            if s.check() == z3.sat:
                return model_env(s.model(), c)
        return {}

    # -------------------------------------------------------------------------------- vacuity
    def path_feasible(self):
        r, _ = self.c.check(timeout_ms=self.timeout_ms)
        return str(r)


def _dense(A):
    if hasattr(A, "_dense"):
        return np.asarray(A._dense)
    if hasattr(A, "todense") and not isinstance(A, np.ndarray):
        return np.asarray(A.todense())
    return np.asarray(A)
