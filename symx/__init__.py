"""symx - bounded symbolic execution of the real pyMOTO source over z3 terms.

See /verif/DESIGN.md section 3.  The public surface used by the harnesses:

    from symx import R, C, SB, Ctx, explore, sym, syms, shim
"""
from .ctx import Ctx, current, PathAbort, explore, PathRecord  # noqa: F401
from .scalars import R, C, SB, sym, syms, csym, csyms, toR, const, is_symbolic  # noqa: F401
