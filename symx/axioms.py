"""Transcendental / algebraic functions as uninterpreted functions plus ground axiom instances.

POW, EXP, LOG, SQRT, SIN, COS are z3 functions Real -> Real.  Every application is created through
the constructors below, which register *ground instances* of true axioms for that application in
the current context (path scoped).  An `unsat` obtained with these holds for the real functions
(they are one interpretation); a `sat` may be spurious and must go through replay.
"""
from fractions import Fraction
import math
import numpy as np
import z3

from . import ctx as _ctx
from .scalars import R, C, SB, _qterm, _frac_of, ite

_RS = z3.RealSort()
POW = z3.Function("POW", _RS, _RS, _RS)
EXP = z3.Function("EXP", _RS, _RS)
LOG = z3.Function("LOG", _RS, _RS)
SQRT = z3.Function("SQRT", _RS, _RS)
SIN = z3.Function("SIN", _RS, _RS)
COS = z3.Function("COS", _RS, _RS)

MAX_INT_POW = 12   # integer exponents up to this are expanded by multiplication


def _axstore(c):
    if not hasattr(c, "axioms"):
        c.axioms = []          # ground instances valid on every path (keyed once per term)
        c._ax_seen = set()
        c._pow_by_base = {}
        c._alg = {}
        c._uf_apps = {}
        c._ax_by_trigger = {}
        c._ax_always = []
        c._ax_count = 0
        c._occ_memo = {}
    return c


_UF_NAMES = ("POW", "EXP", "LOG", "SQRT", "SIN", "COS")


def _triggers_in(t, c):
    """ids of UF applications / definitional symbols occurring in term t (memoised per context)."""
    memo = c._occ_memo
    k0 = t.get_id()
    if k0 in memo:
        return memo[k0][1]
    stack = [(t, False)]
    while stack:
        u, done = stack.pop()
        k = u.get_id()
        if k in memo:
            continue
        if not done:
            stack.append((u, True))
            for ch in u.children():
                if ch.get_id() not in memo:
                    stack.append((ch, False))
        else:
            acc = set()
            for ch in u.children():
                acc |= memo[ch.get_id()][1]
            if k in c._ax_by_trigger:
                acc.add(k)
            memo[k] = (u, frozenset(acc))      # keep the term alive: ids are only unique while it lives
    return memo[k0][1]


def instances(constraints, c):
    """Ground axiom instances relevant to a solver query: those about UF applications and definitional
    symbols that occur in the constraints (transitively through the axioms themselves)."""
    _axstore(c)
    if constraints is None or len(c.axioms) != c._ax_count:
        return c.axioms             # unknown query / list replaced by a harness: everything
    todo = set()
    for x in constraints:
        todo |= _triggers_in(x, c)
    seen = set()
    out = []
    while todo:
        k = todo.pop()
        if k in seen:
            continue
        seen.add(k)
        for ax in c._ax_by_trigger.get(k, ()):
            out.append(ax)
            todo |= (_triggers_in(ax, c) - seen)
    out.extend(c._ax_always)
    return out


def _add_axiom(c, key, ax, trigger=None):
    """Register a ground axiom; `trigger` is the application / symbol it is about (None: always used)."""
    _axstore(c)
    if key in c._ax_seen:
        return
    c._ax_seen.add(key)
    c.axioms.append(ax)
    c._ax_count = len(c.axioms)
    if trigger is None:
        c._ax_always.append(ax)
    else:
        for t in (trigger if isinstance(trigger, (list, tuple)) else [trigger]):
            c._keep.append(t)
            c._ax_by_trigger.setdefault(t.get_id(), []).append(ax)


def as_term(r):
    """A single z3 term equal to the scalar r (introduces a definitional symbol for fractions)."""
    r = R.of(r)
    if r.q is not None:
        return _qterm(r.q)
    if not r.d:
        # sort_sums: a+b+c and c+a+b become the same term, so that POW / root / q! symbols are hash-consed
        # modulo commutativity of + (z3's default simplifier keeps the order of the summands)
        return z3.simplify(r.n, sort_sums=True)
    c = _axstore(_ctx.current())
    sn = z3.simplify(r.n, sort_sums=True)
    key = ("frac", sn.get_id(), r.d)
    if key in c._uf_apps:
        return c._uf_apps[key]
    v = z3.Real(c.fresh_name("q"))
    dt = r.den_term()
    c._keep.append(r.n)
    c._keep.append(sn)      # the key is the id of the simplified numerator: ids are only stable while the term is alive
    _add_axiom(c, key, v * dt == r.n, trigger=v)
    c._uf_apps[key] = v
    if not hasattr(c, "_uf_defs"):
        c._uf_defs = {}
    c._uf_defs[v.get_id()] = r      # definition, used by diffz3
    c._keep.append(v)
    return v


def _is_int_exponent(e):
    if isinstance(e, (bool, np.bool_)):
        return None
    if isinstance(e, (int, np.integer)):
        return int(e)
    if isinstance(e, (float, np.floating)) and float(e) == int(e):
        return int(e)
    if isinstance(e, Fraction) and e.denominator == 1:
        return int(e)
    if isinstance(e, R) and e.q is not None and e.q.denominator == 1:
        return int(e.q)
    return None


def power(b, e):
    b = R.of(b) if not isinstance(b, C) else b
    k = _is_int_exponent(e)
    if k is not None and abs(k) <= MAX_INT_POW:
        if k == 0:
            return R(q=Fraction(1))
        res = b
        for _ in range(abs(k) - 1):
            res = res * b
        return res if k > 0 else (R(q=Fraction(1)) / res)
    e = R.of(e)
    if e is None:
        return NotImplemented
    if b.q is not None and e.q is not None:
        # concrete: exact when possible
        if e.q.denominator == 1:
            return R(q=b.q ** int(e.q))
        if e.q == Fraction(1, 2):
            return sqrt(b)
        return R(q=_frac_of(float(b.q) ** float(e.q)))
    if e.q is not None and 2 <= e.q.denominator <= MAX_INT_POW and abs(e.q.numerator) <= MAX_INT_POW:
        # b^(m/k) = (b^(1/k))^m : one root application (with  root^k = b) and an integer power
        k, mnum = e.q.denominator, e.q.numerator
        rt = sqrt(b) if k == 2 else root(b, k)
        return power(rt, mnum)
    return mkpow(b, e)


def mkpow(b, e):
    """POW(b, e) for b > 0 with canonicalisation:  (b0^e0)^e -> b0^(e0*e),  e == 1 -> b."""
    c = _axstore(_ctx.current())
    bt = as_term(b)
    et = as_term(e)
    # flatten nested powers
    if z3.is_app(bt) and bt.decl().eq(POW):
        b0, e0 = bt.arg(0), bt.arg(1)
        et = z3.simplify(e0 * et)
        bt = b0
    if z3.is_rational_value(et):
        q = et.as_fraction()
        if q == 1:
            return R(n=bt, d=())
        if q == 0:
            return R(q=Fraction(1))
    else:
        # exponent provably one / zero under the assumptions?
        if _proved(c, et == 1):
            return R(n=bt, d=())
    _guard_pos(c, bt)
    bucket = c._pow_by_base.setdefault(bt.get_id(), [])
    for (e2, app2) in bucket:
        if e2.get_id() == et.get_id():
            return R(n=app2, d=())
    for (e2, app2) in bucket:
        if _proved(c, e2 == et):
            return R(n=app2, d=())
    app = POW(bt, et)
    c._keep.append(app)
    c.mark_positive(app)
    _add_axiom(c, ("powpos", app.get_id()), z3.Implies(bt > 0, app > 0), trigger=app)
    _add_axiom(c, ("pow1", app.get_id()), z3.Implies(et == 1, app == bt), trigger=app)
    _add_axiom(c, ("pow0", app.get_id()), z3.Implies(et == 0, app == 1), trigger=app)
    if z3.is_rational_value(et):
        q = et.as_fraction()
        if abs(q.numerator) == 1 and 2 <= q.denominator <= MAX_INT_POW:
            pk = app
            for _ in range(q.denominator - 1):
                pk = pk * app
            # (b^(1/k))^k = b   and   (b^(-1/k))^k * b = 1   for b > 0
            _add_axiom(c, ("powroot", app.get_id()),
                       z3.Implies(bt > 0, (pk == bt) if q.numerator == 1 else (pk * bt == 1)), trigger=app)
    for (e2, app2) in bucket:
        _add_axiom(c, ("powstep", app.get_id(), app2.get_id()),
                   z3.And(z3.Implies(et == e2 + 1, app == bt * app2),
                          z3.Implies(e2 == et + 1, app2 == bt * app),
                          z3.Implies(et == e2, app == app2)), trigger=[app, app2])
    bucket.append((et, app))
    return R(n=app, d=())


def _guard_pos(c, t):
    """Path-scoped definedness: t > 0 (argument of LOG / base of POW)."""
    if z3.is_rational_value(t):
        if t.as_fraction() <= 0:
            raise ValueError("symx: non-positive constant base/argument")
        return
    i = t.get_id()
    if i in c.known_pos or i in c.defined_ids:
        return
    c.defined_ids.add(i)
    c._keep.append(t)
    c.defined.append(t > 0)


def _proved(c, claim, timeout_ms=1000):
    """True iff `claim` follows from the harness assumptions (quick query)."""
    s = z3.Solver()
    s.set("timeout", timeout_ms)
    for a in c.assumptions:
        s.add(a)
    for a in instances(list(c.assumptions) + [claim], c):
        s.add(a)
    s.add(z3.Not(claim))
    return s.check() == z3.unsat


def algebraic_sqrt(q):
    """Positive algebraic constant s with s*s == q (q a positive Fraction, not a perfect square)."""
    c = _axstore(_ctx.current())
    if q in c._alg:
        return c._alg[q]
    s = z3.Real("sqrt_%d_%d" % (q.numerator, q.denominator))
    c.mark_positive(s)
    c.assume(z3.And(s > 0, s * s == _qterm(q)))
    # numeric enclosure helps nlsat and the evaluator
    f = math.sqrt(q)
    lo, hi = Fraction(repr(f)) * Fraction(999999, 1000000), Fraction(repr(f)) * Fraction(1000001, 1000000)
    c.assume(z3.And(s > _qterm(lo), s < _qterm(hi)))
    r = R(n=s, d=())
    c._alg[q] = r
    return r


def _perfect_sqrt(q):
    if q < 0:
        return None
    n, d = q.numerator, q.denominator
    rn, rd = math.isqrt(n), math.isqrt(d)
    if rn * rn == n and rd * rd == d:
        return Fraction(rn, rd)
    return None


def root(r, k):
    """Positive k-th root of r >= 0 as a definitional symbol s with  s >= 0, s^k = r  (pure arithmetic: keeps
    the queries in QF_NRA instead of mixing an uninterpreted SQRT with non-linear arithmetic)."""
    c = _axstore(_ctx.current())
    t = as_term(r)
    key = ("root", k, t.get_id())
    if key in c._uf_apps:
        return R(n=c._uf_apps[key], d=())
    s = z3.Real(c.fresh_name("rt%d" % k))
    c._keep.append(t)
    pk = s
    for _ in range(k - 1):
        pk = pk * s
    _add_axiom(c, key, z3.Implies(t >= 0, z3.And(s >= 0, pk == t)), trigger=s)
    _add_axiom(c, ("rootpos",) + key, z3.Implies(t > 0, s > 0), trigger=s)
    c._uf_apps[key] = s
    if not hasattr(c, "_root_defs"):
        c._root_defs = {}
    c._root_defs[s.get_id()] = (t, k)
    c._keep.append(s)
    return R(n=s, d=())


def csqrt(z):
    """Principal square root of a complex value a + ib as two definitional real symbols (u, v):
    u^2 - v^2 = a, 2uv = b, u >= 0 (and v >= 0 on the negative real axis).  A solution exists for every (a, b), so the
    axioms cannot make a path infeasible; signed zeros are not modelled."""
    c = _axstore(_ctx.current())
    ta, tb = as_term(z.re), as_term(z.im)
    key = ("csqrt", ta.get_id(), tb.get_id())
    if key in c._uf_apps:
        u, v = c._uf_apps[key]
        return C(R(n=u, d=()), R(n=v, d=()))
    u = z3.Real(c.fresh_name("csr"))
    v = z3.Real(c.fresh_name("csi"))
    c._keep.extend([ta, tb, u, v])
    ax = z3.And(u * u - v * v == ta, 2 * u * v == tb, u >= 0, z3.Implies(u == 0, v >= 0))
    _add_axiom(c, key, ax, trigger=[u, v])
    c._uf_apps[key] = (u, v)
    if not hasattr(c, "_csqrt_defs"):
        c._csqrt_defs = {}
    c._csqrt_defs[u.get_id()] = (ta, tb, 0, u, v)
    c._csqrt_defs[v.get_id()] = (ta, tb, 1, u, v)
    return C(R(n=u, d=()), R(n=v, d=()))


def sqrt(r):
    if isinstance(r, C):
        return r.sqrt()
    r = R.of(r)
    if r.q is not None:
        p = _perfect_sqrt(r.q)
        if p is not None:
            return R(q=p)
        if r.q < 0:
            raise ValueError("symx: sqrt of negative constant")
        return algebraic_sqrt(r.q)
    return root(r, 2)


def exp(r):
    r = R.of(r)
    if r.q is not None and r.q == 0:
        return R(q=Fraction(1))
    c = _axstore(_ctx.current())
    t = as_term(r)
    app = EXP(t)
    c._keep.append(app)
    c.mark_positive(app)
    _add_axiom(c, ("exp", app.get_id()), app > 0, trigger=app)
    return R(n=app, d=())


def log(r):
    r = R.of(r)
    if r.q is not None and r.q == 1:
        return R(q=Fraction(0))
    c = _axstore(_ctx.current())
    t = as_term(r)
    if z3.is_app(t) and t.decl().eq(EXP):
        return R(n=t.arg(0), d=())
    app = LOG(t)
    c._keep.append(app)
    _guard_pos(c, t)
    return R(n=app, d=())


def sin(r):
    r = R.of(r)
    if r.q is not None and r.q == 0:
        return R(q=Fraction(0))
    c = _axstore(_ctx.current())
    app = SIN(as_term(r))
    c._keep.append(app)
    return R(n=app, d=())


def cos(r):
    r = R.of(r)
    if r.q is not None and r.q == 0:
        return R(q=Fraction(1))
    c = _axstore(_ctx.current())
    app = COS(as_term(r))
    c._keep.append(app)
    return R(n=app, d=())
