"""Execution context and path explorer (re-execution DFS).

A harness body is an ordinary Python callable that runs real pyMOTO code on symbolic scalars.
Whenever Python needs a concrete truth value (``bool(SB)``) or a concrete integer (``int(R)``)
the current context decides: it follows the recorded prefix of the decision trace, or - at a
new decision point - asks z3 which sides are feasible under ``assumptions + path condition``,
takes one and remembers that the other is still open.  ``explore`` re-runs the body until no
open alternative is left (or a stated path budget is hit).
"""
import math
import os
import time
import traceback
import z3

_current = None


def current():
    if _current is None:
        raise RuntimeError("symx: no active context (symbolic value used outside explore())")
    return _current


def has_current():
    return _current is not None


class PathAbort(BaseException):
    """Raised to abandon a path (infeasible, excluded by definedness, or budget)."""
    def __init__(self, reason=""):
        super().__init__(reason)
        self.reason = reason


class _Entry:
    __slots__ = ("value", "alt", "payload")

    def __init__(self, value, alt, payload=None):
        self.value = value
        self.alt = alt        # the other side is feasible and not yet explored
        self.payload = payload


class PathRecord:
    def __init__(self):
        self.pc = []
        self.defined = []
        self.result = None
        self.exception = None
        self.traceback = None
        self.aborted = None
        self.decisions = 0


def mk_solver(timeout_ms):
    """Fresh (non-incremental) solver with a soft timeout and a resource limit: z3's timeout alone is not
    honoured in every phase of its non-linear procedure (measured: a 3 s query running > 70 s)."""
    s = z3.Solver()
    s.set("timeout", int(timeout_ms))
    s.set("rlimit", int(timeout_ms) * 6000)      # ~3e6 units/s measured -> about twice the soft timeout
    return s


class Ctx:
    """Holds assumptions, the path condition, the decision trace and statistics."""

    def __init__(self, feas_timeout_ms=3000, name=""):
        self.name = name
        self.assumptions = []       # z3 BoolRefs: harness assumptions (domain of the quantifier)
        self.assumption_notes = []  # human readable
        self.pc = []                # path condition of the current path
        self.defined = []           # definedness constraints (divisors != 0) of the current path
        self.trace = []
        self.pos = 0
        self.feas_timeout_ms = feas_timeout_ms
        self.stats = dict(feas_queries=0, feas_unknown=0, decisions=0, solver_time=0.0, div_guard=0)
        self.known_pos = set()      # z3 ast ids of terms known > 0 under the assumptions
        self.known_neg = set()
        self.known_nonzero = set()
        self.notes = []
        self.stubs = set()
        self._fresh = 0
        self._keep = []             # keep z3 asts alive so that ids stay unique
        self.defined_ids = set()
        self.symbols = {}           # name -> z3 constant (for model extraction)
        self._assumed = set()
        self._assumed_simpl = set() # ids of the simplified assumptions (syntactic fast path in decide)
        self.witness_sampling = 0   # opt-in: number of pseudo-random rational points tried before z3 in check()
        self._wit, self._wit_key = [], None

    # ---------------------------------------------------------------- symbols / assumptions
    def fresh_name(self, base):
        self._fresh += 1
        return f"{base}!{self._fresh}"

    def assume(self, cond, note=None):
        from .scalars import SB
        if isinstance(cond, SB):
            cond = cond.t
        if cond is True:
            return
        if cond is False:
            raise RuntimeError("assume(False)")
        if cond.get_id() in self._assumed:
            return
        self._assumed.add(cond.get_id())
        self.assumptions.append(cond)
        # simplified form, for the syntactic fast path of decide()
        try:
            sc = z3.simplify(cond)
            self._keep.append(sc)
            self._assumed_simpl.add(sc.get_id())
        except z3.Z3Exception:
            pass
        if note:
            self.assumption_notes.append(note)

    def mark_positive(self, term):
        self._keep.append(term)
        self.known_pos.add(term.get_id())
        self.known_nonzero.add(term.get_id())

    def mark_negative(self, term):
        self._keep.append(term)
        self.known_neg.add(term.get_id())
        self.known_nonzero.add(term.get_id())

    def mark_nonzero(self, term):
        self._keep.append(term)
        self.known_nonzero.add(term.get_id())

    def sign_hint(self, term):
        """+1 / -1 / None: sign of a denominator factor if cheaply known."""
        if z3.is_rational_value(term):
            f = term.as_fraction()
            return 1 if f > 0 else (-1 if f < 0 else 0)
        i = term.get_id()
        if i in self.known_pos:
            return 1
        if i in self.known_neg:
            return -1
        return None

    def guard_nonzero(self, term):
        """Record that `term` is used as a divisor on this path."""
        i = term.get_id()
        if i in self.known_nonzero or ("nz", i) in self.defined_ids:
            return
        self.defined_ids.add(("nz", i))
        self.stats["div_guard"] += 1
        self._keep.append(term)
        self.defined.append(term != 0)

    # ---------------------------------------------------------------- solver helpers
    def base_constraints(self):
        return list(self.assumptions) + list(self.defined) + list(self.pc)

    def check(self, extra=(), timeout_ms=None):
        """(sat/unsat/unknown, solver) for assumptions + definedness + pc + extra."""
        from . import axioms
        cs = self.base_constraints() + list(extra)
        axs = list(axioms.instances(cs, self))
        if self.witness_sampling:
            # a pseudo-random rational point that satisfies every constraint is a model; found without
            # a solver search (generic-position constraints are satisfied by almost every point)
            for ws, wm in self._witnesses():
                if all(z3.is_true(wm.eval(c, model_completion=True)) for c in cs + axs):
                    self.stats["witness_hits"] = self.stats.get("witness_hits", 0) + 1
                    return z3.sat, ws
        s = mk_solver(timeout_ms or self.feas_timeout_ms)
        for c in cs:
            s.add(c)
        for a in axs:
            s.add(a)
        t0 = time.time()
        r = s.check()
        self.stats["solver_time"] += time.time() - t0
        self.stats["feas_queries"] += 1
        if r == z3.unknown:
            self.stats["feas_unknown"] += 1
        return r, s

    def check_pinned(self, tries=4, timeout_ms=4000):
        """Feasibility by a solver-verified witness: the base (input) symbols are pinned to pseudo-random dyadic
        rationals, z3 only has to extend the point to the definitional symbols (roots, POW applications, fractions) and
        check the constraints.  sat => the path is feasible (a model exists); anything else says nothing."""
        from . import axioms
        import zlib
        cs = self.base_constraints()
        axs = list(axioms.instances(cs, self))
        deff = set(getattr(self, "_root_defs", {})) | set(getattr(self, "_uf_defs", {})) | set(getattr(self, "_csqrt_defs", {}))
        for j in range(tries):
            s = mk_solver(timeout_ms)
            for c in cs:
                s.add(c)
            for a in axs:
                s.add(a)
            for name, t in self.symbols.items():
                if not z3.is_real(t) or t.get_id() in deff:
                    continue
                h = zlib.crc32(("%s|pin%d" % (name, j)).encode())
                k = (h % 31) + 1
                if t.get_id() in self.known_neg or (t.get_id() not in self.known_pos and (h >> 9) & 1):
                    k = -k
                s.add(t == z3.RatVal(k, 8))
            t0 = time.time()
            r = s.check()
            self.stats["solver_time"] += time.time() - t0
            if r == z3.sat:
                self.stats["pinned_witness"] = self.stats.get("pinned_witness", 0) + 1
                return z3.sat, s
        return z3.unknown, None

    def _witnesses(self):
        """[(solver, model)]: models of `symbol == pseudo-random dyadic rational` for every real symbol."""
        import zlib
        key = len(self.symbols)
        if self._wit_key != key:
            self._wit = []
            for j in range(int(self.witness_sampling)):
                s = z3.Solver()
                for name, t in self.symbols.items():
                    if not z3.is_real(t):
                        continue
                    h = zlib.crc32(("%s|%d" % (name, j)).encode())
                    k = (h % 47) + 1
                    if t.get_id() in self.known_neg or (t.get_id() not in self.known_pos and (h >> 9) & 1):
                        k = -k
                    s.add(t == z3.RatVal(k, 8))
                if s.check() == z3.sat:
                    self._wit.append((s, s.model()))
            self._wit_key = key
        return self._wit

    # ---------------------------------------------------------------- decisions
    def begin_path(self):
        self.pc = []
        self.defined = []
        self.defined_ids = set()
        self.pos = 0
        self.lib_preconditions = []
        o = getattr(self, "oracle", None)
        if o is not None:       # per-path oracle state: names of fresh unknowns must not depend on the path number
            o.update(candidates=[], calls=0, fresh=0, log=[])

    def decide(self, cond, payload=None):
        """Concrete truth value for z3 BoolRef `cond` on this path."""
        cond = z3.simplify(cond)
        if z3.is_true(cond):
            return True
        if z3.is_false(cond):
            return False
        if self.pos < len(self.trace):
            e = self.trace[self.pos]
            self.pos += 1
            self.pc.append(cond if e.value else z3.Not(cond))
            return e.value
        # new decision point
        # decided by an assumption that is syntactically this condition / its negation: no solver call;
        # recorded in the trace (without alternative) so that re-executions stay aligned
        fast = None
        if cond.get_id() in self._assumed_simpl:
            fast = True
        elif self._assumed_simpl and z3.simplify(z3.Not(cond)).get_id() in self._assumed_simpl:
            fast = False
        if fast is not None:
            self.trace.append(_Entry(fast, False, payload))
            self.pos += 1
            self.pc.append(cond if fast else z3.Not(cond))
            return fast
        rt, _ = self.check([cond])
        rf, _ = self.check([z3.Not(cond)])
        ft = rt != z3.unsat
        ff = rf != z3.unsat
        if not ft and not ff:
            raise PathAbort("path condition infeasible")
        value = True if ft else False
        both = ft and ff
        if both:
            self.stats["decisions"] += 1
        self.trace.append(_Entry(value, both, payload))
        self.pos += 1
        self.pc.append(cond if value else z3.Not(cond))
        return value

    def decide_int(self, rterm, mode="trunc"):
        """Concrete integer for the real-valued z3 term (fork over the feasible values)."""
        def region(k):
            if mode == "floor":
                return z3.And(rterm >= k, rterm < k + 1)
            if mode == "ceil":
                return z3.And(rterm > k - 1, rterm <= k)
            if k > 0:
                return z3.And(rterm >= k, rterm < k + 1)
            if k < 0:
                return z3.And(rterm > k - 1, rterm <= k)
            return z3.And(rterm > -1, rterm < 1)

        rterm = z3.simplify(rterm)
        if z3.is_rational_value(rterm):
            f = rterm.as_fraction()
            return {"floor": math.floor, "ceil": math.ceil}.get(mode, math.trunc)(f)
        for _ in range(64):
            if self.pos < len(self.trace):
                k = self.trace[self.pos].payload
            else:
                r, s = self.check()
                if r != z3.sat:
                    raise PathAbort("int(): no model for the path condition (%s)" % r)
                v = s.model().eval(rterm, model_completion=True)
                try:
                    f = v.as_fraction()
                except Exception:
                    f = v.approx(12).as_fraction()
                k = {"floor": math.floor, "ceil": math.ceil}.get(mode, math.trunc)(f)
            if self.decide(region(k), payload=k):
                return k
        raise PathAbort("int(): more than 64 candidate values")

    def _backtrack(self):
        """Move to the next unexplored alternative; False when the tree is exhausted."""
        while self.trace:
            e = self.trace[-1]
            if e.alt:
                e.value = not e.value
                e.alt = False
                return True
            self.trace.pop()
        return False


def soft_deadline_passed():
    """True when the runner's soft deadline for this work item (epoch seconds in SYMX_SOFT_DEADLINE) has passed."""
    d = os.environ.get("SYMX_SOFT_DEADLINE")
    return bool(d) and time.time() > float(d)


def explore(body, ctx, max_paths=2000, on_path=None):
    """Run `body(ctx)` once per feasible path. Returns the list of PathRecord."""
    global _current
    records = []
    prev = _current
    _current = ctx
    try:
        while True:
            ctx.begin_path()
            rec = PathRecord()
            try:
                rec.result = body(ctx)
            except PathAbort as pa:
                rec.aborted = pa.reason or "aborted"
            except Exception as e:   # a real exception raised by the code under test
                rec.exception = e
                rec.traceback = traceback.format_exc()
            rec.pc = list(ctx.pc)
            rec.defined = list(ctx.defined)
            rec.decisions = len(ctx.trace)
            records.append(rec)
            if on_path is not None:
                on_path(rec, ctx)
            if len(records) >= max_paths:
                ctx.notes.append(f"path budget {max_paths} reached; remaining paths unexplored")
                ctx.budget_hit = True
                break
            if soft_deadline_passed():
                # the item's wall-clock budget is nearly used up: hand back what has been decided so far (a changed
                # implementation can have many more paths; counterexamples of the explored ones must not be lost)
                ctx.notes.append(f"soft deadline reached after {len(records)} paths; remaining paths unexplored")
                ctx.budget_hit = True
                ctx.deadline_hit = True
                break
            if not ctx._backtrack():
                break
    finally:
        _current = prev
    return records
