"""Contract stubs for C/Fortran kernels (DESIGN.md 3.5).

A linear solve is answered from *pre-image candidates* registered by the harness (x such that the
right-hand side was defined as op(A) @ x); if no candidate fits, fresh symbols constrained by the
contract op(A) @ x' == rhs are returned.  No inverse is ever built.
"""
from fractions import Fraction
import numpy as _np
import z3

from . import ctx as _ctx
from .scalars import R, C, SB, sym, csym
from .array import SymArray, wrap, is_complex_content


def _store(c):
    if not hasattr(c, "oracle"):
        c.oracle = dict(candidates=[], calls=0, fresh=0, log=[])
    return c.oracle


def add_candidate(x):
    """Register a pre-image candidate (array of unknowns the harness used to define a rhs)."""
    c = _ctx.current()
    _store(c)["candidates"].append(_np.asarray(x))


def configure(**kw):
    """Opt-in switches of the oracles for the current context (e.g. inv_exact_1x1=True)."""
    c = _ctx.current()
    _store(c).setdefault("cfg", {}).update(kw)


def clear_candidates():
    c = _ctx.current()
    _store(c)["candidates"] = []


def _entry_eq_valid(a, b):
    """Cheap validity check of a == b for scalars: syntactic / simplify, then a quick solver call."""
    from .decide import quick_equal
    return quick_equal(a, b)


def _arrays_equal_valid(lhs, rhs):
    lhs = _np.asarray(lhs)
    rhs = _np.asarray(rhs)
    if lhs.shape != rhs.shape:
        return False
    for i in _np.ndindex(*lhs.shape):
        if not _entry_eq_valid(lhs[i], rhs[i]):
            return False
    return True


def _dense(A):
    if hasattr(A, "_dense"):
        return A._dense
    return _np.asarray(A)


def _op(A, trans):
    A = _dense(A)
    if trans == 'N':
        return A
    if trans == 'T':
        return A.T
    if trans in ('H', 'C'):
        return wrap(A.T).conj() if A.dtype == object else A.T.conj()
    raise TypeError("Only N, T, or H transposition is possible")


def fresh_like(shape, cplx, base):
    c = _ctx.current()
    st = _store(c)
    st["fresh"] += 1
    name = "%s%d" % (base, st["fresh"])
    out = _np.empty(shape, dtype=object)
    for i in _np.ndindex(*shape):
        nm = name + "_" + "_".join(map(str, i))
        out[i] = csym(nm) if cplx else sym(nm)
    return out.view(SymArray)


def add_constraint_eq(lhs, rhs):
    """Append entry-wise equalities to the path-scoped constraints."""
    c = _ctx.current()
    lhs = _np.asarray(lhs)
    rhs = _np.asarray(rhs)
    for i in _np.ndindex(*lhs.shape):
        e = (lhs[i] == rhs[i])
        if isinstance(e, SB):
            c.defined.append(e.t)
        elif e is False:
            raise _ctx.PathAbort("oracle contract unsatisfiable")


def solve_contract(A, rhs, trans='N', count=True, label="x"):
    """Return x with op(A) @ x == rhs (candidate if one fits, else constrained fresh symbols)."""
    c = _ctx.current()
    st = _store(c)
    if count:
        st["calls"] += 1
    M = _op(A, trans)
    rhs = _np.asarray(rhs)
    for cand in st["candidates"]:
        for shaped in _reshapes(cand, rhs.shape):
            if _arrays_equal_valid(M @ shaped, rhs):
                st["log"].append(("candidate", trans))
                return wrap(_np.array(shaped, dtype=object, copy=True))
    n = M.shape[0]
    if M.shape[0] == M.shape[1] and n <= CRAMER_MAX_N:
        # the solution of a non-singular system is unique: write it down (adjugate / determinant).  With
        # the fraction scalars this keeps every later obligation a rational identity (no solver search).
        c.stubs.add("linear solve without matching pre-image: explicit adjugate/determinant solution (n <= %d)" % CRAMER_MAX_N)
        st["log"].append(("cramer", trans))
        return _cramer(M, rhs)
    cplx = is_complex_content(M) or is_complex_content(rhs)
    x = fresh_like(rhs.shape, cplx, label)
    add_constraint_eq(M @ x, rhs)
    st["log"].append(("fresh", trans))
    return x


CRAMER_MAX_N = 3


def _det(M):
    n = M.shape[0]
    if n == 1:
        return M[0, 0]
    if n == 2:
        return M[0, 0] * M[1, 1] - M[0, 1] * M[1, 0]
    tot = 0
    for j in range(n):
        if not isinstance(M[0, j], (R, C)) and M[0, j] == 0:
            continue
        minor = _np.delete(_np.delete(M, 0, axis=0), j, axis=1)
        tot = tot + ((-1) ** j) * M[0, j] * _det(minor)
    return tot


def _cramer(M, rhs):
    M = _np.asarray(M)
    n = M.shape[0]
    d = _det(M)
    adj = _np.empty((n, n), dtype=object)
    for i in range(n):
        for j in range(n):
            minor = _np.delete(_np.delete(M, j, axis=0), i, axis=1)
            adj[i, j] = ((-1) ** (i + j)) * (_det(minor) if n > 1 else 1)
    num = adj @ _np.asarray(rhs)
    out = _np.empty(num.shape, dtype=object)
    for i in _np.ndindex(*num.shape):
        out[i] = num[i] / d
    return out.view(SymArray)


def _reshapes(cand, shape):
    cand = _np.asarray(cand)
    if cand.shape == shape:
        yield cand
    elif cand.size == int(_np.prod(shape)) and (cand.ndim == 1 or len(shape) == 1):
        yield cand.reshape(shape)
    elif cand.ndim == 2 and len(shape) == 2 and cand.shape[0] == shape[0] and shape[1] == 1:
        for j in range(cand.shape[1]):
            yield cand[:, j:j + 1]
    elif cand.ndim == 2 and len(shape) == 1 and cand.shape[0] == shape[0]:
        for j in range(cand.shape[1]):
            yield cand[:, j]


def linalg_solve(a, b):
    c = _ctx.current()
    c.stubs.add("numpy.linalg.solve (contract oracle: returns x with A x = b)")
    return solve_contract(a, b, 'N', label="ls")


def linalg_inv(a):
    c = _ctx.current()
    c.stubs.add("numpy.linalg.inv (contract oracle: returns B with A B = I = B A)")
    a = _np.asarray(a)
    n = a.shape[0]
    st = _store(c)
    if a.shape == (1, 1) and st.get("cfg", {}).get("inv_exact_1x1"):
        # opt-in (configure(inv_exact_1x1=True)): the inverse of a 1x1 matrix is the exact reciprocal of its entry
        # (division guarded non-zero like every division) - no fresh symbols, no side constraints
        c.stubs.add("numpy.linalg.inv of a 1x1 matrix (exact reciprocal)")
        out = _np.empty((1, 1), dtype=object)
        out[0, 0] = 1 / a[0, 0]
        return wrap(out)
    I = _np.empty((n, n), dtype=object)
    for i in range(n):
        for j in range(n):
            I[i, j] = 1 if i == j else 0
    for cand in st["candidates"]:
        cand = _np.asarray(cand)
        if cand.shape == a.shape and _arrays_equal_valid(a @ cand, I):
            return wrap(_np.array(cand, dtype=object, copy=True))
    B = fresh_like((n, n), is_complex_content(a), "inv")
    add_constraint_eq(a @ B, I)
    add_constraint_eq(B @ a, I)
    return B


def random_rand(*shape):
    c = _ctx.current()
    c.stubs.add("numpy.random.rand (arbitrary values in [0,1))")
    st = _store(c)
    st["fresh"] += 1
    name = "rnd%d" % st["fresh"]
    if len(shape) == 0:
        s = sym(name)
        c.defined.append(z3.And(s.n >= 0, s.n < 1))
        return s
    out = _np.empty(shape, dtype=object)
    for i in _np.ndindex(*shape):
        s = sym(name + "_" + "_".join(map(str, i)))
        c.defined.append(z3.And(s.n >= 0, s.n < 1))
        out[i] = s
    return out.view(SymArray)


class ContractSolver:
    """LinearSolver stand-in constrained only by its contract; counts the calls that reach it.

    Used as the `solver=` override of LinSolve & co and as the inner solver of LDAWrapper.
    """
    defined = True

    def __init__(self, A=None):
        self.A = None
        self.n_solve = 0
        self.n_update = 0
        self.solve_log = []
        if A is not None:
            self.update(A)

    def update(self, A):
        self.A = A
        self.n_update += 1
        return self

    def solve(self, rhs, x0=None, trans='N'):
        if trans not in ('N', 'T', 'H'):
            raise TypeError("Only N, T, or H transposition is possible")
        self.n_solve += 1
        self.solve_log.append(trans)
        _ctx.current().stubs.add("inner LinearSolver (contract oracle: op(A) x = b)")
        return solve_contract(self.A, rhs, trans, label="sol")
