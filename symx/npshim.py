"""Namespace shim: a proxy for the `numpy` module that forwards to the real library except for
the entry points that cannot work on object arrays or would silently do the wrong thing.

`install(modules)` rebinds the module-level names (np, einsum, ...) of imported pymoto modules in
this process only; `uninstall()` restores them.  Nothing on disk is touched.
"""
from fractions import Fraction
import math
import types
import numpy as _np
import z3

from .scalars import R, C, SB, ite, _frac_of
from .array import SymArray, wrap, is_complex_content
from . import ctx as _ctx


class EncodingGap(Exception):
    """The code under test used a library entry point the shim cannot represent."""


# ------------------------------------------------------------------------------------------------
def _is_sym_scalar(x):
    return isinstance(x, (R, C, SB))


def _is_obj(x):
    return isinstance(x, _np.ndarray) and x.dtype == object


def has_sym(*args):
    for a in args:
        if _is_sym_scalar(a) or _is_obj(a):
            return True
        if isinstance(a, (list, tuple)):
            if has_sym(*a):
                return True
    return False


def _float_like_dtype(dtype):
    if dtype is None:
        return True
    if dtype is object:
        return True
    try:
        dt = _np.dtype(dtype)
    except TypeError:
        return False
    return dt.kind in "fcO"


def _is_complex_dtype(dtype):
    if dtype is None or dtype is object:
        return False
    if isinstance(dtype, _np.dtype) and dtype.metadata and dtype.metadata.get("symx") == "c":
        return True     # object dtype tagged by SymArray.dtype in logical-dtype mode (array.py)
    try:
        return _np.dtype(dtype).kind == "c"
    except TypeError:
        return False


def _fill(shape, value):
    if isinstance(shape, (int, _np.integer)):
        shape = (int(shape),)
    a = _np.empty(tuple(int(s) for s in shape), dtype=object)
    a.fill(value)
    return a.view(SymArray)


_CZERO = None


def _zero_for(dtype):
    return C(0, 0) if _is_complex_dtype(dtype) else 0


def _one_for(dtype):
    return C(1, 0) if _is_complex_dtype(dtype) else 1


# ------------------------------------------------------------------------------------------------
# creation
def zeros(shape, dtype=None, order='C', **k):
    if not _float_like_dtype(dtype):
        return _np.zeros(shape, dtype=dtype, order=order)
    return _fill(shape, _zero_for(dtype))


def ones(shape, dtype=None, order='C', **k):
    if not _float_like_dtype(dtype):
        return _np.ones(shape, dtype=dtype, order=order)
    return _fill(shape, _one_for(dtype))


def empty(shape, dtype=None, order='C', **k):
    if not _float_like_dtype(dtype):
        return _np.empty(shape, dtype=dtype, order=order)
    return _fill(shape, _zero_for(dtype))


def full(shape, fill_value, dtype=None, order='C', **k):
    if not _float_like_dtype(dtype) or (dtype is None and isinstance(fill_value, (int, bool, _np.integer))):
        return _np.full(shape, fill_value, dtype=dtype, order=order)
    if _is_complex_dtype(dtype):
        fill_value = C.of(fill_value)
    return _fill(shape, fill_value)


def eye(N, M=None, k=0, dtype=None, **kw):
    if not _float_like_dtype(dtype):
        return _np.eye(N, M, k, dtype=dtype)
    M = N if M is None else M
    a = _fill((N, M), _zero_for(dtype))
    for i in range(N):
        j = i + k
        if 0 <= j < M:
            a[i, j] = _one_for(dtype)
    return a


def identity(n, dtype=None, **kw):
    return eye(n, dtype=dtype)


def _like_complex(a, dtype):
    if dtype is not None:
        return _is_complex_dtype(dtype)
    return is_complex_content(a)


def zeros_like(a, dtype=None, order='K', subok=True, shape=None):
    if dtype is not None and not _float_like_dtype(dtype):
        return _np.zeros_like(_np.asarray(a) if not _is_obj(a) else _np.zeros(_np.shape(a)), dtype=dtype, shape=shape)
    if isinstance(a, _np.ndarray) and a.dtype != object and a.dtype.kind not in "fc" and dtype is None:
        return _np.zeros_like(a, shape=shape)
    shp = _np.shape(a) if shape is None else shape
    return _fill(shp, C(0, 0) if _like_complex(a, dtype) else 0)


def ones_like(a, dtype=None, order='K', subok=True, shape=None):
    if dtype is not None and not _float_like_dtype(dtype):
        return _np.ones_like(_np.asarray(a) if not _is_obj(a) else _np.zeros(_np.shape(a)), dtype=dtype, shape=shape)
    if isinstance(a, _np.ndarray) and a.dtype != object and a.dtype.kind not in "fc" and dtype is None:
        return _np.ones_like(a, shape=shape)
    shp = _np.shape(a) if shape is None else shape
    return _fill(shp, C(1, 0) if _like_complex(a, dtype) else 1)


def empty_like(a, dtype=None, **k):
    return zeros_like(a, dtype=dtype)


def array(obj, dtype=None, *a, **k):
    if has_sym(obj) or _deep_has_sym(obj):
        if dtype is not None and not _float_like_dtype(dtype):
            raise EncodingGap("np.array(symbolic, dtype=%s)" % dtype)
        k.pop("copy", None)
        res = _np.array(obj, dtype=object)
        if _is_complex_dtype(dtype):
            res = wrap(res).astype(complex)
        return wrap(res)
    return _np.array(obj, dtype, *a, **k)


def asarray(obj, dtype=None, *a, **k):
    if isinstance(obj, _np.ndarray) and obj.dtype == object:
        if _is_complex_dtype(dtype):
            return wrap(obj).astype(complex)
        return wrap(obj)
    if has_sym(obj) or _deep_has_sym(obj):
        return array(obj, dtype=dtype)
    return _np.asarray(obj, dtype, *a, **k)


def _deep_has_sym(obj, depth=0):
    if depth > 4:
        return False
    if isinstance(obj, (list, tuple)):
        return any(_is_sym_scalar(o) or _is_obj(o) or _deep_has_sym(o, depth + 1) for o in obj)
    return False


# ------------------------------------------------------------------------------------------------
# element-wise helpers
def _ew1(fn, concrete):
    """Element-wise unary function valid for symbolic scalars, object arrays and native input."""
    def elem(e):
        if isinstance(e, (R, C)):
            return fn(e)
        if isinstance(e, SB):
            return fn(e.as_R())
        return concrete(e)
    v = _np.frompyfunc(elem, 1, 1)

    def f(x, *a, **k):
        if _is_sym_scalar(x):
            return elem(x)
        if _is_obj(x):
            return wrap(v(_np.asarray(x)))
        return None
    return f


def _cabs(e):
    return abs(e)


def _mk_unary(name, symfn, pyfn):
    real = getattr(_np, name)
    f = _ew1(symfn, pyfn)

    def g(x, *a, **k):
        r = f(x)
        if r is None:
            return real(x, *a, **k)
        if k.get("out") is not None:
            k["out"][...] = r
            return k["out"]
        return r
    g.__name__ = name
    return g


def _py_sqrt(e):
    if isinstance(e, complex):
        raise EncodingGap("sqrt of complex constant")
    if isinstance(e, (int, Fraction)) or (isinstance(e, float) and e == int(e)):
        from . import axioms
        if _ctx.has_current():
            return axioms.sqrt(R.of(e))
    return math.sqrt(e)


_sqrt_generic = _mk_unary("sqrt", lambda e: e.sqrt(), _py_sqrt)

# Opt-in (set by a harness inside its worker process, e.g. C08/C12): np.sqrt(<plain Python/NumPy integer>) such as
# the np.sqrt(3) of the Gauss loops returns the exact algebraic constant (s > 0, s*s = 3) instead of the float
# 1.7320508075688772.  Default off: native scalars keep going to the real numpy.
EXACT_SCALAR_SQRT = True


def sqrt(x, *a, **k):
    if EXACT_SCALAR_SQRT and not a and not k and isinstance(x, (int, _np.integer)) \
            and not isinstance(x, (bool, _np.bool_)) and x >= 0 and _ctx.has_current():
        from . import axioms
        return axioms.sqrt(R.of(int(x)))
    return _sqrt_generic(x, *a, **k)


exp = _mk_unary("exp", lambda e: e.exp(), lambda e: math.exp(e))
log = _mk_unary("log", lambda e: e.log(), lambda e: math.log(e))
sin = _mk_unary("sin", lambda e: e.sin(), lambda e: math.sin(e))
cos = _mk_unary("cos", lambda e: e.cos(), lambda e: math.cos(e))
absolute = _mk_unary("absolute", lambda e: abs(e), lambda e: abs(e))
abs_ = absolute
conj = _mk_unary("conj", lambda e: e.conjugate(), lambda e: e.conjugate() if isinstance(e, complex) else e)


def _sign_sym(e):
    if isinstance(e, C):
        raise EncodingGap("sign of complex")
    if e.q is not None:
        return (e.q > 0) - (e.q < 0)
    return ite(e > 0, 1, ite(e < 0, -1, 0))


sign = _mk_unary("sign", _sign_sym, lambda e: (e > 0) - (e < 0))


def real(x):
    if isinstance(x, (R, C)):
        return x.real
    if isinstance(x, SymArray):
        return x.real
    if _is_obj(x):
        return wrap(x).real
    if hasattr(x, "real") and not isinstance(x, (_np.ndarray, int, float, complex, _np.generic)):
        return x.real   # e.g. DyadCarrier
    return _np.real(x)


def imag(x):
    if isinstance(x, (R, C)):
        return x.imag
    if _is_obj(x):
        return wrap(x).imag
    if hasattr(x, "imag") and not isinstance(x, (_np.ndarray, int, float, complex, _np.generic)):
        return x.imag
    return _np.imag(x)


def iscomplexobj(x):
    if _is_sym_scalar(x) or _is_obj(x):
        return is_complex_content(x)
    if hasattr(x, "iscomplex") and callable(getattr(x, "iscomplex")) and not isinstance(x, _np.ndarray):
        try:
            return bool(x.iscomplex())
        except Exception:
            pass
    if hasattr(x, "_sym_is_complex"):
        return x._sym_is_complex()
    return _np.iscomplexobj(x)


def isrealobj(x):
    return not iscomplexobj(x)


def result_type(*args):
    symbolic = False
    cplx = False
    rest = []
    for a in args:
        if _is_sym_scalar(a) or _is_obj(a) or hasattr(a, "_sym_is_complex"):
            symbolic = True
            cplx = cplx or iscomplexobj(a)
        elif a is object or (isinstance(a, _np.dtype) and a == object):
            symbolic = True
            cplx = cplx or _is_complex_dtype(a)     # logical-dtype tag, if any
        else:
            rest.append(a)
    if not symbolic:
        return _np.result_type(*args)
    for a in rest:
        try:
            if _np.result_type(a).kind == "c":
                cplx = True
        except Exception:
            pass
    return _np.dtype(complex) if cplx else _np.dtype(float)


def finfo(dtype):
    try:
        if dtype is object or _np.dtype(dtype) == object:
            return _np.finfo(_np.float64)
    except TypeError:
        pass
    return _np.finfo(dtype)


def isfinite(x):
    if _is_sym_scalar(x):
        return True
    if _is_obj(x):
        return _np.ones(x.shape, dtype=bool)
    return _np.isfinite(x)


def isnan(x):
    if _is_sym_scalar(x):
        return False
    if _is_obj(x):
        return _np.zeros(x.shape, dtype=bool)
    return _np.isnan(x)


def _close_elem(a, b, rtol, atol):
    if isinstance(rtol, R) and rtol.q == 0 and isinstance(atol, R) and atol.q == 0:
        return a == b          # exact-arithmetic reading: a plain (polynomial) equality, no |.| terms
    d = a - b
    if isinstance(d, C) or isinstance(b, C):
        d, b = C.of(d), C.of(b)
        # |d| <= atol + rtol*|b|  modelled on squares:  |d|^2 <= (atol + rtol*|b|)^2 needs |b|;
        # use the exact-arithmetic reading: component-wise closeness is implied by / implies closeness
        # up to sqrt(2); symbolic matrix-class tests use it only with exact equality in mind.
        t1 = abs(d.re) <= atol + rtol * abs(b.re)
        t2 = abs(d.im) <= atol + rtol * abs(b.im)
        return _and(t1, t2)
    return abs(d) <= atol + rtol * abs(b)


def _and(a, b):
    if isinstance(a, (bool, _np.bool_)) and isinstance(b, (bool, _np.bool_)):
        return bool(a) and bool(b)
    return SB(z3.And(SB._t(a), SB._t(b)))


def _or(a, b):
    if isinstance(a, (bool, _np.bool_)) and isinstance(b, (bool, _np.bool_)):
        return bool(a) or bool(b)
    return SB(z3.Or(SB._t(a), SB._t(b)))


def _not(a):
    if isinstance(a, (bool, _np.bool_)):
        return not a
    if isinstance(a, SB):
        return ~a
    if isinstance(a, (R, C)):
        return a == 0
    return not a


_v_close = _np.frompyfunc(_close_elem, 4, 1)
# exact-arithmetic model: tolerances of the classification routines are read as "exactly equal"
EXACT_CLOSE = True


def isclose(a, b, rtol=1e-05, atol=1e-08, equal_nan=False):
    if not has_sym(a, b):
        return _np.isclose(a, b, rtol, atol, equal_nan)
    if EXACT_CLOSE:
        rtol, atol = 0, 0
    r = _v_close(a, b, R.of(rtol), R.of(atol))
    return wrap(r) if isinstance(r, _np.ndarray) else r


def allclose(a, b, rtol=1e-05, atol=1e-08, equal_nan=False):
    if not has_sym(a, b):
        return _np.allclose(a, b, rtol, atol, equal_nan)
    return all_(isclose(a, b, rtol, atol))


def all_(a, axis=None, **k):
    if _is_obj(a) and axis is None:
        ts = []
        for e in a.flat:
            if isinstance(e, SB):
                ts.append(e.t)
            elif isinstance(e, (R, C)):
                ts.append((e != 0).t if isinstance(e != 0, SB) else z3.BoolVal(bool(e != 0)))
            elif not e:
                return False
        if not ts:
            return True
        return SB(z3.And(*ts)) if len(ts) > 1 else SB(ts[0])
    if isinstance(a, SB):
        return a
    return _np.all(a, axis=axis, **k)


def any_(a, axis=None, **k):
    if _is_obj(a) and axis is None:
        ts = []
        for e in a.flat:
            if isinstance(e, SB):
                ts.append(e.t)
            elif isinstance(e, (R, C)):
                ne = e != 0
                ts.append(ne.t if isinstance(ne, SB) else z3.BoolVal(bool(ne)))
            elif e:
                return True
        if not ts:
            return False
        return SB(z3.Or(*ts)) if len(ts) > 1 else SB(ts[0])
    if isinstance(a, SB):
        return a
    return _np.any(a, axis=axis, **k)


_v_and = _np.frompyfunc(_and, 2, 1)
_v_or = _np.frompyfunc(_or, 2, 1)
_v_not = _np.frompyfunc(_not, 1, 1)


def logical_and(a, b, out=None, **k):
    if not has_sym(a, b):
        return _np.logical_and(a, b, out=out, **k) if out is not None else _np.logical_and(a, b, **k)
    r = _v_and(a, b)
    r = wrap(r) if isinstance(r, _np.ndarray) else r
    if out is not None:
        # numpy semantics: third positional argument is the output array
        out[...] = r
        return out
    return r


def logical_or(a, b, out=None, **k):
    if not has_sym(a, b):
        return _np.logical_or(a, b, out=out, **k) if out is not None else _np.logical_or(a, b, **k)
    r = _v_or(a, b)
    r = wrap(r) if isinstance(r, _np.ndarray) else r
    if out is not None:
        out[...] = r
        return out
    return r


def logical_not(a, **k):
    if not has_sym(a):
        return _np.logical_not(a, **k)
    r = _v_not(a)
    return wrap(r) if isinstance(r, _np.ndarray) else r


# ------------------------------------------------------------------------------------------------
def _max2(a, b):
    if not isinstance(a, (R, SB)) and not isinstance(b, (R, SB)):
        return a if a >= b else b
    a, b = R.of(a), R.of(b)
    c = a >= b
    if isinstance(c, bool):
        return a if c else b
    return ite(c, a, b)


def _min2(a, b):
    if not isinstance(a, (R, SB)) and not isinstance(b, (R, SB)):
        return a if a <= b else b
    a, b = R.of(a), R.of(b)
    c = a <= b
    if isinstance(c, bool):
        return a if c else b
    return ite(c, a, b)


_v_max2 = _np.frompyfunc(_max2, 2, 1)
_v_min2 = _np.frompyfunc(_min2, 2, 1)


class _MinMaxUfunc:
    def __init__(self, realuf, v2, f2):
        self._real = realuf
        self._v2 = v2
        self._f2 = f2
        self.__name__ = realuf.__name__

    def __call__(self, a, b, *args, **k):
        if not has_sym(a, b):
            return self._real(a, b, *args, **k)
        r = self._v2(a, b)
        return wrap(r) if isinstance(r, _np.ndarray) else r

    def reduce(self, a, axis=0, **k):
        if isinstance(a, (list, tuple)):
            if not has_sym(*a):
                return self._real.reduce(a, axis=axis, **k)
            assert axis == 0
            r = a[0]
            for x in a[1:]:
                r = self(r, x)
            return r
        if not has_sym(a):
            return self._real.reduce(a, axis=axis, **k)
        return _reduce_axis(a, axis, self._f2)

    def __getattr__(self, name):
        return getattr(self._real, name)


def _reduce_axis(a, axis, f2):
    a = _np.asarray(a)
    if axis is None:
        it = list(a.flat)
        if not it:
            raise ValueError("zero-size array to reduction operation which has no identity")
        r = it[0]
        for e in it[1:]:
            r = f2(r, e)
        return r
    a2 = _np.moveaxis(a, axis, 0)
    r = a2[0]
    v = _np.frompyfunc(f2, 2, 1)
    for i in range(1, a2.shape[0]):
        r = v(r, a2[i])
    return wrap(r) if isinstance(r, _np.ndarray) else r


maximum = _MinMaxUfunc(_np.maximum, _v_max2, _max2)
minimum = _MinMaxUfunc(_np.minimum, _v_min2, _min2)


def sym_max(a, axis=None):
    return _reduce_axis(a, axis, _max2)


def sym_min(a, axis=None):
    return _reduce_axis(a, axis, _min2)


def max_(a, axis=None, **k):
    if _is_sym_scalar(a):
        return a
    if not _is_obj(a):
        return _np.max(a, axis=axis, **k)
    return sym_max(a, axis)


def min_(a, axis=None, **k):
    if _is_sym_scalar(a):
        return a
    if not _is_obj(a):
        return _np.min(a, axis=axis, **k)
    return sym_min(a, axis)


def clip(a, a_min=None, a_max=None, out=None, **k):
    if not has_sym(a, a_min, a_max):
        return _np.clip(a, a_min, a_max, out=out, **k)
    r = a
    if a_min is not None:
        r = maximum(r, a_min)
    if a_max is not None:
        r = minimum(r, a_max)
    return r


def _nonneg_square(v):
    """square of a value known to be >= 0 (a norm, or a concrete non-negative number), else None"""
    from .scalars import NormVal
    if isinstance(v, NormVal):
        return v.sq
    if isinstance(v, (int, float, Fraction, _np.integer, _np.floating)) and not isinstance(v, (bool, _np.bool_)) and v >= 0:
        q = _frac_of(v)
        return R(q=q * q)
    if isinstance(v, R) and v.q is not None and v.q >= 0:
        return R(q=v.q * v.q)
    return None


def _where3(c, a, b):
    if isinstance(c, SB):
        from .scalars import NormVal
        if isinstance(a, NormVal) or isinstance(b, NormVal):
            # where(cond, 1.0, |b|) and the like stay norms that remember their square (compared on squares, no SQRT)
            sa, sb = _nonneg_square(a), _nonneg_square(b)
            if sa is not None and sb is not None:
                return NormVal.make(ite(c, sa, sb))
        return ite(c, a, b)
    return a if c else b


_v_where3 = _np.frompyfunc(_where3, 3, 1)


def where(cond, *args):
    if len(args) == 0:
        if _is_obj(cond):
            m = wrap(cond).astype(bool)
            return _np.where(m)
        return _np.where(cond)
    if not has_sym(cond, *args):
        return _np.where(cond, *args)
    r = _v_where3(cond, args[0], args[1])
    return wrap(r) if isinstance(r, _np.ndarray) else r


def power(a, b, *args, **k):
    if not has_sym(a, b):
        return _np.power(a, b, *args, **k)
    r = _np.frompyfunc(lambda x, y: _pow_elem(x, y), 2, 1)(a, b)
    return wrap(r) if isinstance(r, _np.ndarray) else r


def _pow_elem(x, y):
    if isinstance(x, (R, C)):
        return x ** y
    if isinstance(y, R):
        return R.of(x) ** y
    return x ** y


def count_nonzero(a, axis=None, **k):
    if not _is_obj(a):
        return _np.count_nonzero(a, axis=axis, **k)
    m = _np.empty(a.shape, dtype=bool)
    for i in _np.ndindex(*a.shape):
        e = a[i]
        m[i] = bool(e != 0) if isinstance(e, (R, C, SB)) else bool(e)
    return _np.count_nonzero(m, axis=axis, **k)


def argwhere(a):
    if _is_obj(a):
        return _np.argwhere(wrap(a).astype(bool))
    return _np.argwhere(a)


def isscalar(x):
    return _is_sym_scalar(x) or _np.isscalar(x)


def size(a, axis=None):
    if _is_sym_scalar(a):
        return 1
    return _np.size(a, axis)


def ndim(a):
    if _is_sym_scalar(a):
        return 0
    return _np.ndim(a)


def shape(a):
    if _is_sym_scalar(a):
        return ()
    return _np.shape(a)


def average(a, axis=None, weights=None, **k):
    if not has_sym(a, weights):
        return _np.average(a, axis=axis, weights=weights, **k)
    a = _np.asarray(a)
    if weights is None:
        n = a.size if axis is None else a.shape[axis]
        return a.sum(axis=axis) / n
    w = _np.asarray(weights)
    return (a * w).sum(axis=axis) / w.sum(axis=axis)


def mean(a, axis=None, **k):
    return average(a, axis=axis)


# ------------------------------------------------------------------------------------------------
class SymNditer:
    """Pure-Python stand-in for np.nditer with the members finite_difference uses."""

    def __init__(self, arr, flags=(), op_flags=()):
        if not isinstance(arr, _np.ndarray):
            raise TypeError("SymNditer needs an ndarray")
        self._a = arr
        # NumPy's default iteration order is 'K' (memory order): ask the real iterator on a float array of the same
        # layout (a transposed view is walked column by column)
        self._idx = None
        for mk in (lambda: _np.nditer(arr, flags=["multi_index", "refs_ok"]),            # the array's own strides
                   lambda: _np.nditer(_np.empty_like(arr, dtype=float, order="K"), flags=["multi_index"])):
            try:
                it = mk()
                idx = []
                while not it.finished:
                    idx.append(tuple(it.multi_index))
                    it.iternext()
                self._idx = idx
                break
            except Exception:
                continue
        if self._idx is None:
            self._idx = list(_np.ndindex(*arr.shape))
        self._i = 0

    @property
    def finished(self):
        return self._i >= len(self._idx)

    @property
    def multi_index(self):
        return self._idx[self._i]

    @property
    def iterindex(self):
        # position in the iteration (equals the C-order flat index only for C-contiguous operands)
        return self._i

    @property
    def index(self):
        # 'c_index': the C-order flat index of the current entry (not the position in the iteration)
        mi = self._idx[self._i]
        return int(_np.ravel_multi_index(mi, self._a.shape)) if mi else 0

    @property
    def value(self):
        return self._a[self._idx[self._i]]

    def __getitem__(self, k):
        assert k == 0
        return _Cell(self._a, self._idx[self._i])

    def __setitem__(self, k, v):
        assert k == 0
        self._a[self._idx[self._i]] = v

    def iternext(self):
        self._i += 1
        return not self.finished

    def __iter__(self):
        # `for v in np.nditer(a)`: the entries in iteration (memory) order
        for idx in self._idx:
            yield self._a[idx]

    def __len__(self):
        return len(self._idx)


class _Cell:
    """What `it[0]` returns: a 0-d view supporting .copy(), +=, comparison."""

    def __init__(self, arr, idx):
        self._a = arr
        self._idx = idx

    def copy(self):
        return self._a[self._idx]

    def item(self):
        return self._a[self._idx]

    def __iadd__(self, v):
        self._a[self._idx] = self._a[self._idx] + v
        return self._a[self._idx]


def nditer(op, flags=(), op_flags=(), **k):
    if isinstance(op, _np.ndarray) and op.dtype == object:
        return SymNditer(op, flags, op_flags)
    if _is_sym_scalar(op):
        raise TypeError("symbolic scalar is not iterable by nditer")
    return _np.nditer(op, flags=list(flags), op_flags=list(op_flags), **k)


# ------------------------------------------------------------------------------------------------
class _UfuncProxy:
    def __init__(self, uf):
        self._uf = uf

    def __call__(self, *a, **k):
        return wrap(self._uf(*a, **k))

    def reduce(self, *a, **k):
        return wrap(self._uf.reduce(*a, **k))

    def at(self, *a, **k):
        return self._uf.at(*a, **k)

    def outer(self, *a, **k):
        return wrap(self._uf.outer(*a, **k))

    def __getattr__(self, n):
        return getattr(self._uf, n)


def _wrap_result(r):
    if isinstance(r, _np.ndarray):
        return wrap(r)
    if isinstance(r, tuple):
        return tuple(_wrap_result(x) for x in r)
    if isinstance(r, list):
        return [_wrap_result(x) for x in r]
    return r


def _wrapfn(f):
    def g(*a, **k):
        return _wrap_result(f(*a, **k))
    g.__name__ = getattr(f, "__name__", "wrapped")
    g.__wrapped__ = f
    return g


class _Sub:
    """Proxy for a numpy sub-module (linalg, random)."""

    def __init__(self, realmod, overrides):
        self._real = realmod
        self._ov = overrides

    def __getattr__(self, name):
        if name in self._ov:
            return self._ov[name]
        v = getattr(self._real, name)
        if isinstance(v, (types.FunctionType, types.BuiltinFunctionType)) or callable(v) and not isinstance(v, type):
            return _wrapfn(v)
        return v


def _norm(x, ord=None, axis=None, keepdims=False):
    if not has_sym(x):
        return _np.linalg.norm(x, ord=ord, axis=axis, keepdims=keepdims)
    if ord not in (None, 2, 'fro'):
        raise EncodingGap("linalg.norm ord=%r" % (ord,))
    a = _np.asarray(x) if not _is_sym_scalar(x) else _np.array([x], dtype=object)

    def sq(e):
        if isinstance(e, C):
            return e.re * e.re + e.im * e.im
        if isinstance(e, complex):
            return e.real ** 2 + e.imag ** 2
        return e * e
    from .scalars import NormVal
    s = _np.frompyfunc(sq, 1, 1)(a)
    tot = s.sum(axis=axis)
    if isinstance(tot, _np.ndarray):
        out = _np.empty(tot.shape, dtype=object)
        a2 = _np.moveaxis(a, axis, 0) if isinstance(axis, int) else None
        for i in _np.ndindex(*tot.shape):
            elems = list(a2[(slice(None),) + i].flat) if a2 is not None else None
            out[i] = NormVal.make(tot[i], elems)
        return wrap(out)
    return NormVal.make(tot, list(a.flat) if axis is None else None)


from . import oracles as _oracles  # noqa: E402


def _linalg_solve(a, b):
    if not has_sym(a, b):
        return _np.linalg.solve(a, b)
    return _oracles.linalg_solve(a, b)


def _linalg_inv(a):
    if not has_sym(a):
        return _np.linalg.inv(a)
    return _oracles.linalg_inv(a)


def _rand(*shape):
    if not _ctx.has_current():
        return _np.random.rand(*shape)
    return _oracles.random_rand(*shape)


_linalg = _Sub(_np.linalg, dict(norm=_norm, solve=_linalg_solve, inv=_linalg_inv))
_random = _Sub(_np.random, dict(rand=_rand))

OVERRIDES = dict(
    zeros=zeros, ones=ones, empty=empty, full=full, eye=eye, identity=identity,
    zeros_like=zeros_like, ones_like=ones_like, empty_like=empty_like, array=array, asarray=asarray,
    sqrt=sqrt, exp=exp, log=log, sin=sin, cos=cos, absolute=absolute, abs=absolute, conj=conj, conjugate=conj,
    sign=sign, real=real, imag=imag, iscomplexobj=iscomplexobj, isrealobj=isrealobj,
    result_type=result_type, finfo=finfo, isfinite=isfinite, isnan=isnan, isclose=isclose,
    allclose=allclose, all=all_, any=any_, logical_and=logical_and, logical_or=logical_or,
    logical_not=logical_not, maximum=maximum, minimum=minimum, max=max_, min=min_, amax=max_,
    amin=min_, clip=clip, where=where, power=power, count_nonzero=count_nonzero, argwhere=argwhere,
    isscalar=isscalar, size=size, ndim=ndim, shape=shape, average=average, mean=mean,
    nditer=nditer, linalg=_linalg, random=_random,
)

# numpy names that are known to behave correctly on object arrays (validated by the concretised
# twin on every run) or that are only used on native index/bool arrays.
NATIVE_OK = set("""
ndarray arange dot sum prod meshgrid concatenate pad newaxis append outer diag stack
ascontiguousarray add tile repeat isin argmax uint uint32 int32 int64 float64 float32 complex128
kron inf einsum dtype diff broadcast_to block argsort vstack hstack triu tril trace squeeze ix_
indices fill_diagonal expand_dims cumsum copy ceil bitwise_or bitwise_not setdiff1d moveaxis
flatten reshape tensordot linspace pi e nan floor round log10 nextafter number integer floating
complexfloating bool_ generic errstate seterr matmul transpose swapaxes ravel unique sort take
searchsorted bincount iscomplex isreal float complex int setdiff bool
""".split())


class NPProxy:
    """Stand-in for the numpy module inside pymoto modules."""

    def __init__(self):
        self._used = set()

    def __getattr__(self, name):
        if name.startswith("__"):
            return getattr(_np, name)
        self._used.add(name)
        if name in OVERRIDES:
            return OVERRIDES[name]
        v = getattr(_np, name)
        if isinstance(v, _np.ufunc):
            return _UfuncProxy(v)
        if isinstance(v, (types.FunctionType, types.BuiltinFunctionType)) or \
                (callable(v) and not isinstance(v, type) and not isinstance(v, types.ModuleType)):
            return _wrapfn(v)
        return v


NP = NPProxy()


def einsum(*a, **k):
    return wrap(_np.einsum(*a, **k))


# ------------------------------------------------------------------------------------------------
_installed = []


def install(extra=None):
    """Rebind library names inside the already imported pymoto modules (this process only)."""
    import sys
    from . import spshim
    if _installed:
        return
    names = {
        "np": NP, "einsum": einsum,
    }
    names.update(spshim.module_names())
    if extra:
        names.update(extra)
    for mname, mod in list(sys.modules.items()):
        if mod is None or not (mname == "pymoto" or mname.startswith("pymoto.")):
            continue
        for k, v in names.items():
            if k in mod.__dict__:
                _installed.append((mod, k, mod.__dict__[k]))
                mod.__dict__[k] = v
    spshim.patch_defaults(_installed)


def uninstall():
    from . import spshim
    while _installed:
        mod, k, old = _installed.pop()
        if isinstance(mod, types.ModuleType):
            mod.__dict__[k] = old
        else:
            # (function object, attribute) pairs for patched defaults
            setattr(mod, k, old)
