"""scipy stand-ins: SymSparse (dense object array behind the scipy.sparse surface pyMOTO uses),
n-D convolution/correlation, softmax, and proxies for scipy.linalg / scipy.sparse(.linalg)."""
import types
import numpy as _np
import scipy.sparse as _sps
import scipy.linalg as _spla
import scipy.sparse.linalg as _spsla
import scipy.special as _spsp
import scipy.signal as _sig

from .scalars import R, C, SB
from .array import SymArray, wrap, is_complex_content
from . import npshim as _nps
from . import ctx as _ctx


def _obj(a):
    a = _np.asarray(a)
    if a.dtype != object:
        a = a.astype(object)
    return a.view(SymArray)


class SymSparse:
    """Dense SymArray with the scipy.sparse surface used by pyMOTO."""
    __array_ufunc__ = None
    __array_priority__ = 20.0
    ndim = 2

    def __init__(self, arg, shape=None, dtype=None, fmt="csc", copy=False):
        if isinstance(arg, SymSparse):
            self._dense = _obj(arg._dense.copy())
        elif isinstance(arg, tuple) and len(arg) == 2 and isinstance(arg[1], tuple):
            vals, (rows, cols) = arg
            vals = _np.asarray(vals)
            rows = _np.asarray(rows).astype(int)
            cols = _np.asarray(cols).astype(int)
            if shape is None:
                shape = (int(rows.max()) + 1, int(cols.max()) + 1)
            d = _np.empty(shape, dtype=object)
            d.fill(0)
            _np.add.at(d, (rows, cols), vals.astype(object) if vals.dtype != object else vals)
            self._dense = d.view(SymArray)
        elif isinstance(arg, tuple) and len(arg) == 2 and all(isinstance(i, (int, _np.integer)) for i in arg):
            d = _np.empty(arg, dtype=object)
            d.fill(0)
            self._dense = d.view(SymArray)
        elif _sps.issparse(arg):
            self._dense = _obj(arg.toarray())
        else:
            a = _np.asarray(arg)
            if a.ndim != 2:
                raise ValueError("SymSparse needs a 2-D array")
            self._dense = _obj(a.copy())
        self.format = fmt

    # ------------------------------------------------------------------ basic attributes
    @property
    def shape(self):
        return self._dense.shape

    @property
    def dtype(self):
        return _np.dtype(complex) if is_complex_content(self._dense) else _np.dtype(float)

    @property
    def size(self):
        return self._dense.size

    @property
    def nnz(self):
        return self._dense.size

    def _sym_is_complex(self):
        return is_complex_content(self._dense)

    def _new(self, d, fmt=None):
        r = SymSparse.__new__(type(self))
        r._dense = _obj(d)
        r.format = fmt or self.format
        return r

    @property
    def T(self):
        return self._new(self._dense.T.copy())

    def transpose(self):
        return self.T

    def conj(self):
        return self._new(self._dense.conj())

    conjugate = conj

    def copy(self):
        return self._new(self._dense.copy())

    def diagonal(self, k=0):
        return wrap(_np.asarray(self._dense).diagonal(k).copy())

    def tocsc(self, copy=False):
        return self._new(self._dense, "csc")

    def tocsr(self, copy=False):
        return self._new(self._dense, "csr")

    def tocoo(self, copy=False):
        return self._new(self._dense, "coo")

    def asformat(self, fmt, copy=False):
        return self._new(self._dense, fmt)

    def toarray(self):
        return self._dense.copy()

    def todense(self):
        return self._dense.copy()

    @property
    def A(self):
        return self._dense.copy()

    # coo surface: every entry is reported (explicit zeros are harmless for sums)
    @property
    def row(self):
        return _np.repeat(_np.arange(self.shape[0]), self.shape[1])

    @property
    def col(self):
        return _np.tile(_np.arange(self.shape[1]), self.shape[0])

    @property
    def data(self):
        return wrap(_np.asarray(self._dense).reshape(-1).copy())

    def sum(self, axis=None):
        d = _np.asarray(self._dense)
        if axis is None:
            return d.sum()
        s = d.sum(axis=axis)
        return wrap(s.reshape((1, -1)) if axis == 0 else s.reshape((-1, 1)))

    @property
    def real(self):
        return self._new(self._dense.real)

    @property
    def imag(self):
        return self._new(self._dense.imag)

    def astype(self, dt):
        return self._new(self._dense.astype(dt))

    # ------------------------------------------------------------------ arithmetic
    @staticmethod
    def _d(o):
        if isinstance(o, SymSparse):
            return o._dense
        if _sps.issparse(o):
            return _obj(o.toarray())
        return o

    def __matmul__(self, o):
        od = self._d(o)
        if _np.ndim(od) == 0:
            raise ValueError("Scalar operands are not allowed, use '*' instead")
        r = wrap(_np.asarray(self._dense) @ _np.asarray(od))
        if isinstance(o, SymSparse) or _sps.issparse(o):
            return self._new(r)
        return r

    def __rmatmul__(self, o):
        od = self._d(o)
        r = wrap(_np.asarray(od) @ _np.asarray(self._dense))
        if isinstance(o, SymSparse) or _sps.issparse(o):
            return self._new(r)
        return r

    def dot(self, o):
        return self.__matmul__(o)

    def __mul__(self, o):
        if isinstance(o, (R, C)) or _np.isscalar(o) or (isinstance(o, _np.ndarray) and o.ndim == 0):
            return self._new(self._dense * o)
        return self.__matmul__(o)

    def __rmul__(self, o):
        if isinstance(o, (R, C)) or _np.isscalar(o) or (isinstance(o, _np.ndarray) and o.ndim == 0):
            return self._new(o * self._dense)
        return self.__rmatmul__(o)

    def multiply(self, o):
        return self._new(self._dense * self._d(o))

    def __truediv__(self, o):
        return self._new(self._dense / o)

    def __neg__(self):
        return self._new(-self._dense)

    def __add__(self, o):
        od = self._d(o)
        r = self._dense + od
        if isinstance(o, SymSparse) or _sps.issparse(o):
            return self._new(r)
        if _np.ndim(od) == 0:
            if isinstance(od, (R, C)) or od != 0:
                raise NotImplementedError("adding a nonzero scalar to a sparse array is not supported")
            return self.copy()
        return wrap(r)      # scipy: sparse + dense -> dense

    __radd__ = __add__

    def __sub__(self, o):
        od = self._d(o)
        r = self._dense - od
        if isinstance(o, SymSparse) or _sps.issparse(o):
            return self._new(r)
        return wrap(r)

    def __rsub__(self, o):
        od = self._d(o)
        r = od - self._dense
        if isinstance(o, SymSparse) or _sps.issparse(o):
            return self._new(r)
        return wrap(r)

    def __ne__(self, o):
        if isinstance(o, SymSparse):
            o = o._dense
        return self._new(wrap(_np.asarray(self._dense) != o))

    def __eq__(self, o):
        if isinstance(o, SymSparse):
            o = o._dense
        return self._new(wrap(_np.asarray(self._dense) == o))

    __hash__ = None

    def __getitem__(self, idx):
        if not isinstance(idx, tuple):
            idx = (idx, slice(None))
        # scipy semantics: A[rows, :] with an index array keeps 2-D; integer index gives 1 x n / n x 1
        d = _np.asarray(self._dense)
        if len(idx) == 2 and idx[0] is Ellipsis:
            idx = (slice(None), idx[1])
        if len(idx) == 2 and idx[1] is Ellipsis:
            idx = (idx[0], slice(None))
        i0, i1 = idx
        int0 = isinstance(i0, (int, _np.integer))
        int1 = isinstance(i1, (int, _np.integer))
        if int0 and int1:
            return d[i0, i1]
        arr0 = isinstance(i0, (list, _np.ndarray))
        arr1 = isinstance(i1, (list, _np.ndarray))
        if arr0 and arr1:
            a0, a1 = _np.asarray(i0), _np.asarray(i1)
            if a0.dtype == bool:
                a0 = _np.flatnonzero(a0)
            if a1.dtype == bool:
                a1 = _np.flatnonzero(a1)
            if a0.ndim == 1 and a1.ndim == 1:
                r = d[a0, a1]          # pairwise, like scipy
                return self._new(r.reshape(1, -1))
            r = d[a0, a1]
            return self._new(r if r.ndim == 2 else r.reshape(1, -1))
        if int0:
            r = d[i0:i0 + 1 if i0 != -1 else None, i1]
            return self._new(r if r.ndim == 2 else r.reshape(1, -1))
        if int1:
            r = d[i0, i1:i1 + 1 if i1 != -1 else None]
            return self._new(r if r.ndim == 2 else r.reshape(-1, 1))
        r = d[i0, :][:, i1] if (arr0 or arr1) else d[i0, i1]
        return self._new(r)

    def __setitem__(self, idx, val):
        self._dense[idx] = self._d(val)

    def __repr__(self):
        return "<SymSparse %s %s>" % (self.shape, self.format)

    def __len__(self):
        raise TypeError("sparse array length is ambiguous; use getnnz() or shape[0]")


class _Ctor:
    """csc_matrix / csr_matrix / coo_matrix stand-in (callable, usable with isinstance)."""

    def __init__(self, fmt, realcls):
        self.fmt = fmt
        self.real = realcls
        self.__name__ = realcls.__name__

    def __call__(self, arg, shape=None, dtype=None, copy=False):
        return SymSparse(arg, shape=shape, dtype=dtype, fmt=self.fmt)

    def __instancecheck__(self, inst):
        return isinstance(inst, SymSparse) and inst.format == self.fmt


class _CtorMeta(type):
    def __instancecheck__(cls, inst):
        return isinstance(inst, SymSparse) and (cls._fmt is None or inst.format == cls._fmt)


def _make_ctor(fmt, name):
    class K(metaclass=_CtorMeta):
        _fmt = fmt

        def __new__(cls, arg, shape=None, dtype=None, copy=False):
            return SymSparse(arg, shape=shape, dtype=dtype, fmt=fmt or "csc")
    K.__name__ = name
    K.__qualname__ = name
    return K


csc_matrix = _make_ctor("csc", "csc_matrix")
csr_matrix = _make_ctor("csr", "csr_matrix")
coo_matrix = _make_ctor("coo", "coo_matrix")
dia_matrix = _make_ctor("dia", "dia_matrix")
spmatrix = _make_ctor(None, "spmatrix")


def issparse(x):
    return isinstance(x, SymSparse) or _sps.issparse(x)


def sp_eye(m, n=None, k=0, dtype=float, format=None):
    n = m if n is None else n
    return SymSparse(_nps.eye(m, n, k))


def sp_diags(diagonals, offsets=0, shape=None, format=None, dtype=None):
    d = _np.asarray(diagonals)
    if d.ndim != 1 or offsets != 0:
        raise _nps.EncodingGap("sps.diags with several diagonals")
    n = d.shape[0]
    a = _nps.zeros((n, n))
    for i in range(n):
        a[i, i] = d[i]
    return SymSparse(a)


def sp_spdiags(data, diags, m, n, format=None):
    d = _np.asarray(data)
    if d.ndim != 1 or diags != 0:
        raise _nps.EncodingGap("sps.spdiags with several diagonals")
    a = _nps.zeros((m, n))
    for i in range(min(m, n)):
        a[i, i] = d[i]
    return SymSparse(a)


def sp_tril(A, k=0, format=None):
    d = _np.asarray(SymSparse._d(A))
    return SymSparse(_np.tril(d, k))


def sp_triu(A, k=0, format=None):
    d = _np.asarray(SymSparse._d(A))
    return SymSparse(_np.triu(d, k))


# ------------------------------------------------------------------------------------------------
def convolve(in1, in2, mode="full", method="auto"):
    if not _nps.has_sym(in1, in2):
        return _sig.convolve(in1, in2, mode=mode, method=method)
    a = _np.asarray(in1)
    w = _np.asarray(in2)
    if a.ndim != w.ndim:
        raise ValueError("in1 and in2 should have the same dimensionality")
    if mode == "full":
        pw = [(s - 1, s - 1) for s in w.shape]
        a = _pad_zero(a, pw)
    elif mode != "valid":
        raise _nps.EncodingGap("convolve mode %r" % mode)
    oshape = tuple(sa - sw + 1 for sa, sw in zip(a.shape, w.shape))
    if any(s <= 0 for s in oshape):
        raise ValueError("For 'valid' mode, one must be at least as large as the other in every dimension")
    out = _np.empty(oshape, dtype=object)
    out.fill(0)
    for k in _np.ndindex(*w.shape):
        wk = w[k]
        if not isinstance(wk, (R, C)) and wk == 0:
            continue
        sl = tuple(slice(sw - 1 - ki, sw - 1 - ki + so) for ki, sw, so in zip(k, w.shape, oshape))
        out = out + wk * a[sl]
    return wrap(out)


def _pad_zero(a, pw):
    shp = tuple(s + p0 + p1 for s, (p0, p1) in zip(a.shape, pw))
    out = _np.empty(shp, dtype=object)
    out.fill(0)
    sl = tuple(slice(p0, p0 + s) for s, (p0, p1) in zip(a.shape, pw))
    out[sl] = a
    return out


def correlate(in1, in2, mode="full", method="auto"):
    if not _nps.has_sym(in1, in2):
        return _sig.correlate(in1, in2, mode=mode, method=method)
    w = _np.asarray(in2)
    rev = w[tuple(slice(None, None, -1) for _ in range(w.ndim))]
    if w.dtype == object:
        rev = wrap(rev).conj()
    else:
        rev = rev.conj()
    return convolve(in1, rev, mode=mode)


def softmax(x, axis=None):
    if not _nps.has_sym(x):
        return _spsp.softmax(x, axis=axis)
    e = _nps.exp(x)
    return e / e.sum(axis=axis)


# ------------------------------------------------------------------------------------------------
class _ModProxy:
    def __init__(self, real, overrides, name):
        self._real = real
        self._ov = overrides
        self._name = name
        self._used = set()

    def __getattr__(self, n):
        if n.startswith("__"):
            return getattr(self._real, n)
        self._used.add(n)
        if n in self._ov:
            return self._ov[n]
        return getattr(self._real, n)


def _gap(name):
    def f(*a, **k):
        if _nps.has_sym(*a) or any(isinstance(x, SymSparse) for x in a):
            raise _nps.EncodingGap(name + " on symbolic data (no contract stub registered)")
        mod, fn = name.rsplit(".", 1)
        return getattr({"spla": _spla, "spsla": _spsla}[mod], fn)(*a, **k)
    return f


SPS = _ModProxy(_sps, dict(
    issparse=issparse, eye=sp_eye, diags=sp_diags, spdiags=sp_spdiags, tril=sp_tril, triu=sp_triu,
    coo_matrix=coo_matrix, csc_matrix=csc_matrix, csr_matrix=csr_matrix, dia_matrix=dia_matrix,
    spmatrix=spmatrix, isspmatrix_csr=lambda x: isinstance(x, SymSparse) and x.format == "csr",
), "sps")

from . import factor as _factor  # noqa: E402

SPLA = _ModProxy(_spla, dict(
    lu=_factor.lu, qr=_factor.qr, cholesky=_factor.cholesky, ldl=_factor.ldl,
    solve_triangular=_factor.solve_triangular, eigh=_factor.eigh, eig=_factor.eig,
), "spla")

SPSLA = _ModProxy(_spsla, dict(
    splu=_factor.splu, spilu=_factor.spilu, eigsh=_factor.eigsh, eigs=_factor.eigs,
    LinearOperator=_factor.LinearOperator,
), "spsla")

SPSP = _ModProxy(_spsp, dict(softmax=softmax), "spsp")


def module_names():
    return dict(csc_matrix=csc_matrix, csr_matrix=csr_matrix, coo_matrix=coo_matrix, spmatrix=spmatrix,
                issparse=issparse, convolve=convolve, correlate=correlate,
                sps=SPS, spla=SPLA, spsla=SPSLA, spsp=SPSP, splu=_factor.splu, spilu=_factor.spilu)


def patch_defaults(installed):
    """Library classes captured as default argument values keep the real class: patch them too."""
    import sys
    real_to_shim = {_sps.csc_matrix: csc_matrix, _sps.csr_matrix: csr_matrix, _sps.coo_matrix: coo_matrix}
    for mname, mod in list(sys.modules.items()):
        if mod is None or not (mname == "pymoto" or mname.startswith("pymoto.")):
            continue
        for obj in list(mod.__dict__.values()):
            fns = []
            if isinstance(obj, types.FunctionType):
                fns.append(obj)
            elif isinstance(obj, type) and obj.__module__ == mname:
                for v in obj.__dict__.values():
                    if isinstance(v, types.FunctionType):
                        fns.append(v)
                    elif isinstance(v, (staticmethod, classmethod)):
                        fns.append(v.__func__)
            for fn in fns:
                d = fn.__defaults__
                if d and any(x in real_to_shim for x in d if isinstance(x, type)):
                    installed.append((fn, "__defaults__", d))
                    fn.__defaults__ = tuple(real_to_shim.get(x, x) if isinstance(x, type) else x for x in d)
