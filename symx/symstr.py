"""Symbolic str for parsers that only ask *membership* questions (`'x' in s.lower()`, `'-' in s`).

SymStr is a real `str` subclass (so `isinstance(direction, str)` holds) that carries a z3 String term of UNBOUNDED
length; `sub in s` becomes `Contains(term, sub)` (for a lower-cased view: the disjunction over every spelling whose
`.lower()` is `sub`, computed from Python's own Unicode tables), decided per path by z3's string theory.  Every other
str operation raises EncodingGap: nothing is silently concretised to the placeholder text.
"""
import itertools
import sys
import z3

from . import ctx as _ctx
from .scalars import SB


class EncodingGapStr(Exception):
    pass


_LOWER_PRE = {}


def _preimages_of_lower(ch):
    """All single code points whose str.lower() equals `ch` (plus `ch` itself)."""
    if ch not in _LOWER_PRE:
        out = {ch}
        for cp in range(sys.maxunicode + 1):
            c = chr(cp)
            try:
                if c.lower() == ch:
                    out.add(c)
            except Exception:
                pass
        _LOWER_PRE[ch] = sorted(out)
    return _LOWER_PRE[ch]


def contains_term(t, sub, lowered):
    if not lowered:
        return z3.Contains(t, z3.StringVal(sub))
    if sub != sub.lower():
        return z3.BoolVal(False)
    if len(sub) != 1:
        raise EncodingGapStr("membership of a multi-character pattern in a lower-cased symbolic string")
    # (code points whose lower() has SEVERAL characters, one of them `sub`, cannot produce a cased ASCII letter)
    return z3.Or(*[z3.Contains(t, z3.StringVal(v)) for v in _preimages_of_lower(sub)])


class SymStr(str):
    def __new__(cls, term, lowered=False):
        o = str.__new__(cls, "<symbolic str %s>" % term)
        o.t = term
        o.lowered = lowered
        return o

    def lower(self):
        return SymStr(self.t, True)

    def __contains__(self, sub):
        if isinstance(sub, SymStr):
            raise EncodingGapStr("symbolic pattern")
        return bool(SB(contains_term(self.t, str(sub), self.lowered)))

    def _gap(self, *a, **k):
        raise EncodingGapStr("str operation outside the membership fragment on a symbolic string")

    upper = strip = lstrip = rstrip = split = startswith = endswith = find = index = replace = count = _gap
    __iter__ = __len__ = __getitem__ = __add__ = __radd__ = __mul__ = _gap
    __eq__ = _gap
    __hash__ = str.__hash__


def symstr(name):
    c = _ctx.current()
    t = z3.String(name)
    c.symbols[name] = t
    return SymStr(t)
