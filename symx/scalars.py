"""Symbolic scalar classes.

R  - real scalar: a fraction  numerator-term / product of denominator factor terms.  Concrete
     rationals are carried as Python Fractions (fast path, exact).
C  - complex scalar: pair of R.
SB - symbolic boolean (z3 BoolRef); bool(SB) asks the path explorer.

Float constants meeting a symbolic value are read by their shortest round-tripping decimal
(DESIGN.md section 1).
"""
from fractions import Fraction
import math
import numbers
import numpy as np
import z3

from . import ctx as _ctx

_RS = z3.RealSort()


def _frac_of(x):
    """Exact Fraction for a concrete Python/NumPy real number (shortest decimal for floats)."""
    if isinstance(x, Fraction):
        return x
    if isinstance(x, str):
        return Fraction(x)
    if isinstance(x, (bool, np.bool_)):
        return Fraction(int(x))
    if isinstance(x, (int, np.integer)):
        return Fraction(int(x))
    if isinstance(x, (float, np.floating)):
        f = float(x)
        if f != f or f in (math.inf, -math.inf):
            raise ValueError("symx: non-finite float constant %r" % (x,))
        if f == int(f) and abs(f) < 1e15:
            return Fraction(int(f))
        return Fraction(repr(f))
    raise TypeError(type(x))


def _qterm(q):
    return z3.RatVal(q.numerator, q.denominator)


# ------------------------------------------------------------------------------------------------
# Denominator factor table: factors are keyed by the id of their simplified z3 term.
_factor_terms = {}


def _factor_key(t):
    k = t.get_id()
    if k not in _factor_terms:
        _factor_terms[k] = t
    return k


def _split_factors(t):
    """Split a (simplified) term into (rational coefficient, [(factor term, mult)...])."""
    coef = Fraction(1)
    out = []
    stack = [(t, 1)]
    while stack:
        u, m = stack.pop()
        if z3.is_rational_value(u):
            coef *= u.as_fraction() ** m
        elif z3.is_app_of(u, z3.Z3_OP_MUL):
            for c in u.children():
                stack.append((c, m))
        elif z3.is_app_of(u, z3.Z3_OP_POWER) and z3.is_rational_value(u.arg(1)) and \
                u.arg(1).as_fraction().denominator == 1 and u.arg(1).as_fraction() > 0:
            stack.append((u.arg(0), m * int(u.arg(1).as_fraction())))
        elif z3.is_app_of(u, z3.Z3_OP_UMINUS):
            coef = -coef
            stack.append((u.arg(0), m))
        else:
            out.append((u, m))
    return coef, out


def _reduce_root_squares(dd):
    """Denominator factor s^2 for a square-root symbol s (s*s == t) is replaced by its radicand t."""
    if not _ctx.has_current():
        return dd
    roots = getattr(_ctx.current(), "_root_defs", None)
    if not roots:
        return dd
    out = dict(dd)
    for k, m in dd.items():
        if m >= 2 and k in roots and roots[k][1] == 2:
            t = roots[k][0]
            pairs = m // 2
            if m % 2:
                out[k] = 1
            else:
                del out[k]
            coef, facs = _split_factors(t)
            if coef != 1:
                continue_ok = False
                # keep it simple: a numeric coefficient in the radicand is rare; fall back to no reduction
                out[k] = m
                continue
            for ft, fm in facs:
                fk = _factor_key(ft)
                out[fk] = out.get(fk, 0) + fm * pairs
    return out


def _dmerge_max(a, b):
    if a is b or not b:
        return a
    if not a:
        return b
    d = dict(a)
    for k, m in b:
        if d.get(k, 0) < m:
            d[k] = m
    return tuple(sorted(d.items()))


def _dprod_term(d, minus=None):
    """Product of factor terms in d (tuple of (key, mult)), divided by those in `minus`."""
    sub = dict(minus) if minus else {}
    ts = []
    for k, m in d:
        r = m - sub.get(k, 0)
        if r > 0:
            t = _factor_terms[k]
            ts.extend([t] * r)
    if not ts:
        return None
    p = ts[0]
    for t in ts[1:]:
        p = p * t
    return p


class R:
    """Real scalar."""
    __slots__ = ("q", "_n", "d")

    def __init__(self, q=None, n=None, d=()):
        self.q = q      # Fraction when concrete
        self._n = n     # z3 numerator term (lazy for concrete)
        self.d = d      # tuple of (factor key, multiplicity), sorted

    # ------------------------------------------------------------ construction helpers
    @property
    def n(self):
        if self._n is None:
            self._n = _qterm(self.q)
        return self._n

    @staticmethod
    def of(x):
        """Convert a concrete number / R to R; return None if not convertible."""
        if isinstance(x, R):
            return x
        if isinstance(x, SB):
            return x.as_R()
        if isinstance(x, (bool, int, float, Fraction, np.integer, np.floating, np.bool_)):
            return R(q=_frac_of(x))
        if isinstance(x, str):
            try:
                return R(q=Fraction(x))
            except ValueError:
                return None
        return None

    @property
    def is_concrete(self):
        return self.q is not None

    def den_term(self):
        return _dprod_term(self.d)

    def term(self):
        """A z3 term with explicit division (for evaluation / display only)."""
        dt = self.den_term()
        return self.n if dt is None else self.n / dt

    # ------------------------------------------------------------ arithmetic
    def __add__(self, o):
        o2 = R.of(o)
        if o2 is None:
            if isinstance(o, C):
                return C(self, R(q=Fraction(0))) + o
            if isinstance(o, (complex, np.complexfloating)):
                return C(self, R(q=Fraction(0))) + C.of(o)
            return NotImplemented
        a, b = self, o2
        if a.q is not None and b.q is not None:
            return R(q=a.q + b.q)
        if a.q is not None and a.q == 0:
            return b
        if b.q is not None and b.q == 0:
            return a
        if a.d == b.d:
            return R(n=a.n + b.n, d=a.d)
        L = _dmerge_max(a.d, b.d)
        fa = _dprod_term(L, a.d)
        fb = _dprod_term(L, b.d)
        na = a.n if fa is None else a.n * fa
        nb = b.n if fb is None else b.n * fb
        return R(n=na + nb, d=L)

    __radd__ = __add__

    def __neg__(self):
        if self.q is not None:
            return R(q=-self.q)
        return R(n=-self.n, d=self.d)

    def __pos__(self):
        return self

    def __sub__(self, o):
        o2 = R.of(o)
        if o2 is None:
            if isinstance(o, (C, complex, np.complexfloating)):
                return C(self, R(q=Fraction(0))) - C.of(o)
            return NotImplemented
        return self + (-o2)

    def __rsub__(self, o):
        o2 = R.of(o)
        if o2 is None:
            if isinstance(o, (C, complex, np.complexfloating)):
                return C.of(o) - C(self, R(q=Fraction(0)))
            return NotImplemented
        return o2 + (-self)

    def __mul__(self, o):
        o2 = R.of(o)
        if o2 is None:
            if isinstance(o, (C, complex, np.complexfloating)):
                return C.of(o) * self
            return NotImplemented
        a, b = self, o2
        if a.q is not None:
            if b.q is not None:
                return R(q=a.q * b.q)
            if a.q == 0:
                return a
            if a.q == 1:
                return b
            return R(n=_qterm(a.q) * b.n, d=b.d)
        if b.q is not None:
            if b.q == 0:
                return b
            if b.q == 1:
                return a
            return R(n=_qterm(b.q) * a.n, d=a.d)
        if not a.d and not b.d:
            return R(n=a.n * b.n, d=())
        dd = dict(a.d)
        sq = False
        for k, m in b.d:
            dd[k] = dd.get(k, 0) + m
            sq = sq or dd[k] >= 2
        if sq:
            dd = _reduce_root_squares(dd)
        return R(n=a.n * b.n, d=tuple(sorted(dd.items())))

    __rmul__ = __mul__

    def reciprocal(self):
        if self.q is not None:
            if self.q == 0:
                raise ZeroDivisionError("symx: division by concrete zero")
            return R(q=1 / self.q)
        c = _ctx.current()
        nt = z3.simplify(self.n)
        if z3.is_rational_value(nt):
            q = nt.as_fraction()
            if q == 0:
                raise ZeroDivisionError("symx: division by zero term")
            num = _dprod_term(self.d)
            base = R(n=num, d=()) if num is not None else R(q=Fraction(1))
            return base * R(q=1 / q)
        coef, facs = _split_factors(nt)
        dd = {}
        for t, m in facs:
            c.guard_nonzero(t)
            k = _factor_key(t)
            dd[k] = dd.get(k, 0) + m
        num = _dprod_term(self.d)
        res = R(n=(num if num is not None else _qterm(Fraction(1))), d=tuple(sorted(dd.items())))
        if coef != 1:
            res = res * R(q=1 / coef)
        return res

    def __truediv__(self, o):
        o2 = R.of(o)
        if o2 is None:
            if isinstance(o, (C, complex, np.complexfloating)):
                return C(self, R(q=Fraction(0))) / C.of(o)
            return NotImplemented
        if o2.q is not None:
            if o2.q == 0:
                if self.q is not None and self.q == 0:
                    return NormOverZero(R(q=Fraction(0)))     # 0/0 = nan (numpy semantics; comparisons are False)
                raise ZeroDivisionError("symx: division by concrete zero")
            return self * R(q=1 / o2.q)
        if self.q is None and type(self) is R and type(o2) is R and self.d == o2.d \
                and self._n is not None and o2._n is not None and self._n.get_id() == o2._n.get_id():
            o2.reciprocal()             # x / x with the very same term: 1 wherever defined (divisor guarded non-zero as usual)
            return R(q=Fraction(1))
        return _cancel(self * o2.reciprocal())

    def __rtruediv__(self, o):
        o2 = R.of(o)
        if o2 is None:
            if isinstance(o, (C, complex, np.complexfloating)):
                return C.of(o) / C(self, R(q=Fraction(0)))
            return NotImplemented
        return _cancel(o2 * self.reciprocal())

    def __pow__(self, e):
        from . import axioms
        return axioms.power(self, e)

    def __rpow__(self, b):
        from . import axioms
        b2 = R.of(b)
        if b2 is None:
            return NotImplemented
        return axioms.power(b2, self)

    def __abs__(self):
        if self.q is not None:
            return R(q=abs(self.q))
        return ite(self >= 0, self, -self)

    def __floordiv__(self, o):
        o2 = R.of(o)
        if o2 is None:
            return NotImplemented
        if self.q is not None and o2.q is not None:
            return R(q=Fraction(self.q // o2.q))
        return R(q=Fraction((self / o2).__floor__()))

    # ------------------------------------------------------------ numpy element protocol
    def sqrt(self):
        from . import axioms
        return axioms.sqrt(self)

    def exp(self):
        from . import axioms
        return axioms.exp(self)

    def log(self):
        from . import axioms
        return axioms.log(self)

    def sin(self):
        from . import axioms
        return axioms.sin(self)

    def cos(self):
        from . import axioms
        return axioms.cos(self)

    def conjugate(self):
        return self

    conj = conjugate

    @property
    def real(self):
        return self

    @property
    def imag(self):
        return R(q=Fraction(0))

    def copy(self):
        return self

    def item(self):
        return self

    def __copy__(self):
        return self

    def __deepcopy__(self, memo):
        return self

    # ------------------------------------------------------------ comparisons
    def _cmp_terms(self, o):
        """numerator difference N and sign-carrying product S with (self - o) = N / D, sign(D)=sign(S)."""
        a, b = self, o
        L = _dmerge_max(a.d, b.d)
        fa = _dprod_term(L, a.d)
        fb = _dprod_term(L, b.d)
        na = a.n if fa is None else a.n * fa
        nb = b.n if fb is None else b.n * fb
        N = na - nb
        c = _ctx.current() if _ctx.has_current() else None
        S = None
        flip = False
        for k, m in L:
            if m % 2 == 0:
                continue
            t = _factor_terms[k]
            h = c.sign_hint(t) if c is not None else None
            if h == 1:
                continue
            if h == -1:
                flip = not flip
                continue
            S = t if S is None else S * t
        return N, S, flip

    def _rel(self, o, op):
        o2 = R.of(o)
        if o2 is None:
            if isinstance(o, C) and op in ("eq", "ne"):
                return C(self, R(q=Fraction(0)))._rel(o, op)
            return NotImplemented
        a, b = self, o2
        if a.q is not None and b.q is not None:
            return {"lt": a.q < b.q, "le": a.q <= b.q, "gt": a.q > b.q, "ge": a.q >= b.q,
                    "eq": a.q == b.q, "ne": a.q != b.q}[op]
        N, S, flip = a._cmp_terms(b)
        if op == "eq":
            return SB(N == 0)
        if op == "ne":
            return SB(N != 0)
        E = N if S is None else N * S
        if flip:
            E = -E
        zero = 0
        return SB({"lt": E < zero, "le": E <= zero, "gt": E > zero, "ge": E >= zero}[op])

    def __lt__(self, o):
        return self._rel(o, "lt")

    def __le__(self, o):
        return self._rel(o, "le")

    def __gt__(self, o):
        return self._rel(o, "gt")

    def __ge__(self, o):
        return self._rel(o, "ge")

    def __eq__(self, o):
        return self._rel(o, "eq")

    def __ne__(self, o):
        return self._rel(o, "ne")

    def __hash__(self):
        if self.q is not None:
            return hash(self.q)
        return id(self)

    def __bool__(self):
        if self.q is not None:
            return self.q != 0
        return bool(self != 0)

    # ------------------------------------------------------------ concretisation
    def __float__(self):
        if self.q is not None:
            return float(self.q)
        raise TypeError("symx: float() of a symbolic value (encoding gap)")

    def __int__(self):
        if self.q is not None:
            return math.trunc(self.q)
        return self._to_int("trunc")

    def __index__(self):
        if self.q is not None and self.q.denominator == 1:
            return int(self.q)
        raise TypeError("symx: symbolic value used as an index")

    def _to_int(self, mode):
        c = _ctx.current()
        dt = self.den_term()
        if dt is None:
            return c.decide_int(self.n, mode)
        v = z3.Real(c.fresh_name("intarg"))
        c.pc.append(v * dt == self.n)
        return c.decide_int(v, mode)

    def __floor__(self):
        if self.q is not None:
            return math.floor(self.q)
        return self._to_int("floor")

    def __ceil__(self):
        if self.q is not None:
            return math.ceil(self.q)
        return self._to_int("ceil")

    def __trunc__(self):
        return self.__int__()

    def __round__(self, nd=None):
        if self.q is not None:
            return round(self.q, nd)
        return (self + Fraction(1, 2)).__floor__()

    def __repr__(self):
        if self.q is not None:
            return "R(%s)" % self.q
        s = str(z3.simplify(self.n)) if not self.d else str(self.term())
        if len(s) > 120:
            s = s[:117] + "..."
        return "R<%s>" % s

    def __format__(self, spec):
        if self.q is not None:
            return format(float(self.q), spec)
        return repr(self)


def _cancel(r):
    """Cheap cancellation of numerator factors against denominator factors (syntactic)."""
    if r.q is not None or not r.d:
        return r
    n = r.n
    if not z3.is_app_of(n, z3.Z3_OP_MUL):
        k = n.get_id()
        dd = dict(r.d)
        if k in dd:
            dd[k] -= 1
            if dd[k] == 0:
                del dd[k]
            return R(n=_qterm(Fraction(1)), d=tuple(sorted(dd.items())))
        return r
    coef, facs = _split_factors(n)
    dd = dict(r.d)
    changed = False
    rest = []
    for t, m in facs:
        k = t.get_id()
        if k in dd:
            c = min(m, dd[k])
            dd[k] -= c
            if dd[k] == 0:
                del dd[k]
            m -= c
            changed = True
        if m > 0:
            rest.append((t, m))
    if not changed:
        return r
    p = _qterm(coef)
    first = coef == 1
    for t, m in rest:
        for _ in range(m):
            p = t if first else p * t
            first = False
    return R(n=p, d=tuple(sorted(dd.items())))


def ite(cond, a, b):
    """If-then-else on scalars without forking."""
    if cond is True:
        return a
    if cond is False:
        return b
    if isinstance(a, C) or isinstance(b, C):
        a, b = C.of(a), C.of(b)
        return C(ite(cond, a.re, b.re), ite(cond, a.im, b.im))
    a, b = R.of(a), R.of(b)
    t = cond.t if isinstance(cond, SB) else cond
    if a.d == b.d:
        return R(n=z3.If(t, a.n, b.n), d=a.d)
    L = _dmerge_max(a.d, b.d)
    fa = _dprod_term(L, a.d)
    fb = _dprod_term(L, b.d)
    na = a.n if fa is None else a.n * fa
    nb = b.n if fb is None else b.n * fb
    return R(n=z3.If(t, na, nb), d=L)


# ------------------------------------------------------------------------------------------------
class SB:
    """Symbolic boolean."""
    __slots__ = ("t",)

    def __init__(self, t):
        self.t = t

    def __bool__(self):
        return _ctx.current().decide(self.t)

    @staticmethod
    def _t(o):
        if isinstance(o, SB):
            return o.t
        if isinstance(o, (bool, np.bool_)):
            return z3.BoolVal(bool(o))
        return None

    def __and__(self, o):
        t = SB._t(o)
        if t is None:
            return NotImplemented
        return SB(z3.And(self.t, t))

    __rand__ = __and__

    def __or__(self, o):
        t = SB._t(o)
        if t is None:
            return NotImplemented
        return SB(z3.Or(self.t, t))

    __ror__ = __or__

    def __xor__(self, o):
        t = SB._t(o)
        if t is None:
            return NotImplemented
        return SB(z3.Xor(self.t, t))

    __rxor__ = __xor__

    def __invert__(self):
        return SB(z3.Not(self.t))

    def logical_not(self):
        return SB(z3.Not(self.t))

    def as_R(self):
        return R(n=z3.If(self.t, z3.RealVal(1), z3.RealVal(0)), d=())

    def __add__(self, o):
        return self.as_R() + o

    __radd__ = __add__

    def __mul__(self, o):
        if isinstance(o, (SB, bool, np.bool_)):
            return self & o
        return self.as_R() * o

    __rmul__ = __mul__

    def __sub__(self, o):
        return self.as_R() - o

    def __rsub__(self, o):
        return o - self.as_R()

    def __eq__(self, o):
        t = SB._t(o)
        if t is None:
            return NotImplemented
        return SB(self.t == t)

    def __ne__(self, o):
        t = SB._t(o)
        if t is None:
            return NotImplemented
        return SB(self.t != t)

    def __le__(self, o):
        return self.as_R() <= o

    def __lt__(self, o):
        return self.as_R() < o

    def __ge__(self, o):
        return self.as_R() >= o

    def __gt__(self, o):
        return self.as_R() > o

    def __hash__(self):
        return id(self)

    def __copy__(self):
        return self

    def __deepcopy__(self, memo):
        return self

    def __repr__(self):
        return "SB<%s>" % (str(z3.simplify(self.t))[:100])


# ------------------------------------------------------------------------------------------------
_Z = None


def _zero():
    return R(q=Fraction(0))


def _same_term(a, b):
    """True if two R values are syntactically the same symbolic fraction (same numerator term, same denominators)."""
    return type(a) is R and type(b) is R and a.q is None and b.q is None and a.d == b.d \
        and a._n is not None and b._n is not None and a._n.get_id() == b._n.get_id()


class C:
    """Complex scalar (pair of R)."""
    __slots__ = ("re", "im")

    def __init__(self, re, im):
        self.re = R.of(re)
        self.im = R.of(im)

    @staticmethod
    def of(x):
        if isinstance(x, C):
            return x
        if isinstance(x, (complex, np.complexfloating)):
            return C(R(q=_frac_of(float(x.real))), R(q=_frac_of(float(x.imag))))
        r = R.of(x)
        if r is None:
            return None
        return C(r, _zero())

    @property
    def real(self):
        return self.re

    @property
    def imag(self):
        return self.im

    def conjugate(self):
        return C(self.re, -self.im)

    conj = conjugate

    def __add__(self, o):
        o = C.of(o)
        if o is None:
            return NotImplemented
        return C(self.re + o.re, self.im + o.im)

    __radd__ = __add__

    def __neg__(self):
        return C(-self.re, -self.im)

    def __pos__(self):
        return self

    def __sub__(self, o):
        o = C.of(o)
        if o is None:
            return NotImplemented
        return C(self.re - o.re, self.im - o.im)

    def __rsub__(self, o):
        o = C.of(o)
        if o is None:
            return NotImplemented
        return C(o.re - self.re, o.im - self.im)

    def __mul__(self, o):
        o = C.of(o)
        if o is None:
            return NotImplemented
        return C(self.re * o.re - self.im * o.im, self.re * o.im + self.im * o.re)

    __rmul__ = __mul__

    def reciprocal(self):
        m2 = self.re * self.re + self.im * self.im
        return C(self.re / m2, -self.im / m2)

    def __truediv__(self, o):
        o = C.of(o)
        if o is None:
            return NotImplemented
        if o.im.q is not None and o.im.q == 0:
            return C(self.re / o.re, self.im / o.re)
        if _same_term(self.re, o.re) and _same_term(self.im, o.im):
            o.reciprocal()              # z / z with the very same terms: 1 wherever defined (guards registered as usual)
            return C(R(q=Fraction(1)), R(q=Fraction(0)))
        return self * o.reciprocal()

    def __rtruediv__(self, o):
        o = C.of(o)
        if o is None:
            return NotImplemented
        return o * self.reciprocal()

    def __pow__(self, e):
        if isinstance(e, (int, np.integer)) or (isinstance(e, R) and e.q is not None and e.q.denominator == 1) \
                or (isinstance(e, float) and e == int(e)):
            k = int(e.q) if isinstance(e, R) else int(e)
            if k < 0:
                return (self ** (-k)).reciprocal()
            res = C(R(q=Fraction(1)), _zero())
            for _ in range(k):
                res = res * self
            return res
        raise TypeError("symx: non-integer power of a complex symbolic value (encoding gap)")

    def __abs__(self):
        return (self.re * self.re + self.im * self.im).sqrt()

    def sqrt(self):
        # a complex value whose imaginary part is identically zero (e.g. v @ v.conj()): principal root of the real part
        im = self.im
        if im.q is None:
            try:
                s = z3.simplify(im.n, som=True)
                if z3.is_rational_value(s) and s.as_fraction() == 0:
                    im = R(q=Fraction(0))
            except z3.Z3Exception:
                pass
        if im.q is not None and im.q == 0:
            return C(self.re.sqrt(), R(q=Fraction(0)))
        from . import axioms
        if self.re.q is not None and im.q is not None:
            import cmath
            z = cmath.sqrt(complex(self.re.q, im.q))
            if Fraction(repr(z.real)) ** 2 - Fraction(repr(z.imag)) ** 2 == self.re.q and \
                    2 * Fraction(repr(z.real)) * Fraction(repr(z.imag)) == im.q:
                return C(R(q=Fraction(repr(z.real))), R(q=Fraction(repr(z.imag))))
        return axioms.csqrt(self)

    def _rel(self, o, op):
        o = C.of(o)
        if o is None:
            return NotImplemented
        a = self.re == o.re
        b = self.im == o.im
        if isinstance(a, bool) and isinstance(b, bool):
            r = a and b
        else:
            ta = SB._t(a)
            tb = SB._t(b)
            r = SB(z3.And(ta, tb))
        if op == "eq":
            return r
        return (not r) if isinstance(r, bool) else ~r

    def __eq__(self, o):
        return self._rel(o, "eq")

    def __ne__(self, o):
        return self._rel(o, "ne")

    def _order(self, o, strict_op, op):
        """NumPy orders complex numbers lexicographically (real part first)."""
        o = C.of(o)
        if o is None:
            return NotImplemented
        a = getattr(self.re, strict_op)(o.re)
        e = self.re == o.re
        b = getattr(self.im, op)(o.im)
        if all(isinstance(v, bool) for v in (a, e, b)):
            return a or (e and b)
        return SB(z3.Or(SB._t(a), z3.And(SB._t(e), SB._t(b))))

    def __lt__(self, o):
        return self._order(o, "__lt__", "__lt__")

    def __le__(self, o):
        return self._order(o, "__lt__", "__le__")

    def __gt__(self, o):
        return self._order(o, "__gt__", "__gt__")

    def __ge__(self, o):
        return self._order(o, "__gt__", "__ge__")

    def __hash__(self):
        return id(self)

    def __bool__(self):
        return bool(self != 0)

    def copy(self):
        return self

    def item(self):
        return self

    def __copy__(self):
        return self

    def __deepcopy__(self, memo):
        return self

    def __complex__(self):
        if self.re.q is not None and self.im.q is not None:
            return complex(float(self.re.q), float(self.im.q))
        raise TypeError("symx: complex() of a symbolic value")

    def __repr__(self):
        return "C(%r, %r)" % (self.re, self.im)


class NormVal(R):
    """Result of a vector norm: a non-negative real that remembers its square, so that comparisons
    and ratios of norms are decided on squares (polynomial) and the SQRT term is built only on demand."""
    __slots__ = ("sq", "elems")

    def __init__(self, sq, elems=None):
        R.__init__(self, q=None, n=None, d=())
        self.sq = sq
        self.elems = elems      # entries of the vector, if known: |x| == 0  <=>  every entry is 0 (linear)

    @staticmethod
    def make(sq, elems=None):
        sq = R.of(sq)
        if sq.q is not None:
            from . import axioms
            return axioms.sqrt(sq)
        return NormVal(sq, elems)

    def _zero_test(self, op):
        ts = []
        kn = _ctx.current().known_nonzero if _ctx.has_current() else ()
        for e in self.elems:
            for part in ((e.re, e.im) if isinstance(e, C) else (e,)):
                if isinstance(part, R) and part.q is None and not part.d and part.n.get_id() in kn:
                    return op in ("ne", "gt")
            z = (e == 0)
            if isinstance(z, (bool, np.bool_)):
                if not z:
                    return op in ("ne", "gt")
                continue
            ts.append(z.t)
        if not ts:
            return op in ("eq", "le")
        allzero = z3.And(*ts) if len(ts) > 1 else ts[0]
        return SB(allzero if op in ("eq", "le") else z3.Not(allzero))

    @property
    def n(self):
        if self._n is None:
            from . import axioms
            r = axioms.sqrt(self.sq)
            self._n = r.n
            self.d = r.d
        return self._n

    def __truediv__(self, o):
        if isinstance(o, NormVal):
            return NormVal.make(self.sq / o.sq)
        o2 = R.of(o)
        if o2 is not None and o2.q is not None and o2.q > 0:
            return NormVal.make(self.sq / (o2.q * o2.q))
        if o2 is not None and o2.q is not None and o2.q == 0:
            return NormOverZero(self.sq)
        return R.__truediv__(self, o)

    def __mul__(self, o):
        if isinstance(o, NormVal):
            return NormVal.make(self.sq * o.sq)
        o2 = R.of(o)
        if o2 is not None and o2.q is not None and o2.q >= 0:
            return NormVal.make(self.sq * (o2.q * o2.q))
        return R.__mul__(self, o)

    __rmul__ = __mul__

    def _rel(self, o, op):
        if isinstance(o, NormVal):
            return self.sq._rel(o.sq, op)
        o2 = R.of(o)
        if o2 is not None and o2.q is not None:
            if o2.q == 0 and self.elems is not None and op in ("eq", "ne", "le", "gt"):
                return self._zero_test(op)
            if o2.q == 0 and op in ("lt", "ge"):
                return op == "ge"
            if o2.q >= 0:
                return self.sq._rel(R(q=o2.q * o2.q), op)
            return {"lt": False, "le": False, "gt": True, "ge": True, "eq": False, "ne": True}[op]
        return R._rel(self, o, op)

    def __lt__(self, o):
        return self._rel(o, "lt")

    def __le__(self, o):
        return self._rel(o, "le")

    def __gt__(self, o):
        return self._rel(o, "gt")

    def __ge__(self, o):
        return self._rel(o, "ge")

    def __eq__(self, o):
        return self._rel(o, "eq")

    def __ne__(self, o):
        return self._rel(o, "ne")

    __hash__ = R.__hash__

    def __repr__(self):
        return "Norm<sq=%r>" % (self.sq,)


class NormOverZero:
    """|x| / 0 with IEEE semantics: +inf where |x| > 0, nan where |x| == 0 (all comparisons with nan are False)."""
    def __init__(self, sq):
        self.sq = R.of(sq)

    def _pos(self):
        return self.sq > 0

    def __gt__(self, o):
        return self._pos()

    def __ge__(self, o):
        return self._pos()

    def __lt__(self, o):
        return False

    def __le__(self, o):
        return False

    def __eq__(self, o):
        return False

    def __ne__(self, o):
        return True

    __hash__ = object.__hash__


numbers.Real.register(R)        # pyMOTO asks isinstance(x, numbers.Number) for padding values
numbers.Complex.register(C)


# ------------------------------------------------------------------------------------------------
def sym(name, positive=False, nonzero=False, lo=None, hi=None):
    """Fresh real symbol (as R)."""
    t = z3.Real(name)
    c = _ctx.current() if _ctx.has_current() else None
    if c is not None:
        c.symbols[name] = t
        if positive:
            c.mark_positive(t)
            c.assume(t > 0)
        elif nonzero:
            c.mark_nonzero(t)
            c.assume(t != 0)
        if lo is not None:
            c.assume(t >= _qterm(_frac_of(lo)))
        if hi is not None:
            c.assume(t <= _qterm(_frac_of(hi)))
    return R(n=t, d=())


def syms(name, shape, **kw):
    """Object array of fresh real symbols."""
    from .array import SymArray
    if isinstance(shape, int):
        shape = (shape,)
    a = np.empty(shape, dtype=object)
    for idx in np.ndindex(*shape):
        a[idx] = sym(name + "_" + "_".join(str(i) for i in idx), **kw)
    return a.view(SymArray)


def csym(name):
    return C(sym(name + "_re"), sym(name + "_im"))


def csyms(name, shape):
    from .array import SymArray
    if isinstance(shape, int):
        shape = (shape,)
    a = np.empty(shape, dtype=object)
    for idx in np.ndindex(*shape):
        a[idx] = csym(name + "_" + "_".join(str(i) for i in idx))
    return a.view(SymArray)


def toR(x):
    r = R.of(x)
    if r is None:
        raise TypeError("symx: cannot convert %r to R" % (type(x),))
    return r


def const(x):
    """Exact constant from a decimal literal / fraction / int."""
    if isinstance(x, str):
        return R(q=Fraction(x))
    return R(q=_frac_of(x))


def is_symbolic(x):
    if isinstance(x, (R, C, SB)):
        return True
    if isinstance(x, np.ndarray) and x.dtype == object:
        return True
    return False
