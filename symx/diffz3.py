"""Exact differentiation of symx scalars with respect to real symbols (calculus rules on z3 terms).

grad(expr, symbols) returns [d expr / d s for s in symbols] as R values.  `If` terms are
differentiated branch-wise (the derivative exists where the guard is strict); uninterpreted
POW/EXP/LOG/SQRT/SIN/COS follow their calculus rules and create their derivative applications
through the constructors of symx.axioms (so the ground axioms tie them together).
"""
from fractions import Fraction
import z3

from . import ctx as _ctx
from . import axioms as _ax
from .scalars import R, C, ite, _factor_terms

_ZERO = R(q=Fraction(0))
_ONE = R(q=Fraction(1))


class _Differ:
    def __init__(self, s_term):
        self.s = s_term
        self.sid = s_term.get_id()
        self.memo = {}
        self.dep = {}
        c = _ctx.current()
        self.defs = getattr(c, "_uf_defs", {})
        self.roots = getattr(c, "_root_defs", {})
        self.csqrts = getattr(c, "_csqrt_defs", {})

    def depends(self, t):
        k = t.get_id()
        r = self.dep.get(k)
        if r is not None:
            return r
        # iterative post-order DFS (children are finished before their parents, also in DAGs)
        stack = [(t, False)]
        while stack:
            u, done = stack.pop()
            uk = u.get_id()
            if uk in self.dep:
                continue
            if not done:
                if z3.is_const(u) and u.decl().kind() == z3.Z3_OP_UNINTERPRETED:
                    if uk == self.sid:
                        self.dep[uk] = True
                    elif uk in self.defs:
                        self.dep[uk] = self.depends_R(self.defs[uk])
                    elif uk in self.roots:
                        self.dep[uk] = self.depends(self.roots[uk][0])
                    elif uk in self.csqrts:
                        self.dep[uk] = self.depends(self.csqrts[uk][0]) or self.depends(self.csqrts[uk][1])
                    else:
                        self.dep[uk] = False
                    continue
                stack.append((u, True))
                for ch in u.children():
                    if ch.get_id() not in self.dep:
                        stack.append((ch, False))
            else:
                self.dep[uk] = any(self.dep[ch.get_id()] for ch in u.children())
        return self.dep[k]

    def depends_R(self, r):
        if r.q is not None:
            return False
        if self.depends(r.n):
            return True
        return any(self.depends(_factor_terms[k]) for k, m in r.d)

    def dR(self, r):
        """Derivative of a scalar R."""
        if r.q is not None:
            return _ZERO
        dn = self.dt(r.n)
        if not r.d:
            return dn
        Dr = R(n=r.den_term(), d=())
        res = dn / Dr
        for k, m in r.d:
            f = _factor_terms[k]
            if not self.depends(f):
                continue
            df = self.dt(f)
            res = res - r * (m * df / R(n=f, d=()))
        return res

    def dt(self, t):
        """Derivative of a z3 term (division free, may contain UF applications and If)."""
        k = t.get_id()
        if k in self.memo:
            return self.memo[k]
        if not self.depends(t):
            self.memo[k] = _ZERO
            return _ZERO
        kind = t.decl().kind()
        ch = t.children()
        if z3.is_const(t):
            if k == self.sid:
                res = _ONE
            elif k in self.defs:
                res = self.dR(self.defs[k])
            elif k in self.roots:
                # s^m = u  ->  ds = du / (m s^(m-1))
                u, m = self.roots[k]
                sR = R(n=t, d=())
                res = self.dt(u) / (m * (sR ** (m - 1)))
            elif k in self.csqrts:
                # (u + iv)^2 = a + ib  ->  du + i dv = (da + i db) / (2 (u + iv))
                ta, tb, part, u, v = self.csqrts[k]
                uR, vR = R(n=u, d=()), R(n=v, d=())
                da, db = self.dt(ta), self.dt(tb)
                den = 2 * (uR * uR + vR * vR)
                res = (uR * db - vR * da) / den if part else (uR * da + vR * db) / den
            else:
                res = _ZERO
        elif kind == z3.Z3_OP_ADD:
            res = _ZERO
            for c in ch:
                res = res + self.dt(c)
        elif kind == z3.Z3_OP_SUB:
            res = self.dt(ch[0])
            for c in ch[1:]:
                res = res - self.dt(c)
        elif kind == z3.Z3_OP_UMINUS:
            res = -self.dt(ch[0])
        elif kind == z3.Z3_OP_MUL:
            res = _ZERO
            for i, c in enumerate(ch):
                if not self.depends(c):
                    continue
                term = self.dt(c)
                for j, o in enumerate(ch):
                    if j != i:
                        term = term * R(n=o, d=())
                res = res + term
        elif kind == z3.Z3_OP_DIV:
            a, b = R(n=ch[0], d=()), R(n=ch[1], d=())
            res = (self.dt(ch[0]) * b - a * self.dt(ch[1])) / (b * b)
        elif kind == z3.Z3_OP_POWER:
            if not z3.is_rational_value(ch[1]):
                raise NotImplementedError("diff of symbolic z3 power")
            e = ch[1].as_fraction()
            b = R(n=ch[0], d=())
            if e.denominator != 1:
                raise NotImplementedError("diff of fractional z3 power")
            res = int(e) * (b ** (int(e) - 1)) * self.dt(ch[0])
        elif kind == z3.Z3_OP_ITE:
            res = ite(ch[0], self.dt(ch[1]), self.dt(ch[2]))
        elif kind == z3.Z3_OP_TO_REAL:
            res = _ZERO
        elif kind == z3.Z3_OP_UNINTERPRETED:
            name = t.decl().name()
            a = R(n=ch[0], d=())
            if name == "POW":
                b, e = a, R(n=ch[1], d=())
                res = _ZERO
                if self.depends(ch[0]):
                    res = res + e * _ax.mkpow(b, e - 1) * self.dt(ch[0])
                if self.depends(ch[1]):
                    res = res + R(n=t, d=()) * _ax.log(b) * self.dt(ch[1])
            elif name == "EXP":
                res = R(n=t, d=()) * self.dt(ch[0])
            elif name == "LOG":
                res = self.dt(ch[0]) / a
            elif name == "SQRT":
                res = self.dt(ch[0]) / (2 * R(n=t, d=()))
            elif name == "SIN":
                res = _ax.cos(a) * self.dt(ch[0])
            elif name == "COS":
                res = -_ax.sin(a) * self.dt(ch[0])
            else:
                raise NotImplementedError("diff of function %s" % name)
        else:
            raise NotImplementedError("diff of z3 op %s" % t.decl().name())
        self.memo[k] = res
        return res


def _sym_term(s):
    if isinstance(s, R):
        if s.q is not None or s.d or not z3.is_const(s.n):
            raise ValueError("grad: not a plain symbol: %r" % (s,))
        return s.n
    return s


def diff(expr, s):
    """d expr / d s for a real scalar expression and a real symbol."""
    e = R.of(expr)
    if e is None:
        raise TypeError("diff of %r" % type(expr))
    return _Differ(_sym_term(s)).dR(e)


def grad(expr, symbols):
    return [diff(expr, s) for s in symbols]


def real_part_inner(ws, ys):
    """Re sum_j w_j * y_j  for flat lists of (possibly complex) scalars -> R."""
    tot = _ZERO
    for w, y in zip(ws, ys):
        if isinstance(w, (C, complex)) or isinstance(y, (C, complex)):
            w2, y2 = C.of(w), C.of(y)
            tot = tot + (w2.re * y2.re - w2.im * y2.im)
        else:
            tot = tot + R.of(w) * R.of(y)
    return tot
