"""Z - symbolic integer scalar (DESIGN.md 3.2).

Two encodings, chosen per symbol:

* z3 ``Int`` (mathematical integers): + - * comparisons, ``//`` and ``%`` with Python's floor
  semantics.  Division by a *symbolic* divisor is slow in z3's integer solver, use it with
  concrete divisors (enumerated grid sizes) or not at all.
* fixed-width unsigned bit-vectors (default 24 bit) for ``//`` and ``%`` by a symbolic divisor.
  The bit-vector operations wrap around, Python integers do not: every ``+ - *`` therefore records
  a *no-wrap-around guard* (``BVAddNoOverflow`` / ``BVMulNoOverflow`` / ``BVSubNoUnderflow``) and
  every ``// %`` a non-zero-divisor guard.  ``take_guards()`` hands them to the harness, which must
  discharge them as obligations under its range assumptions; only then does the bit-vector run say
  anything about the integer program.  Negative values do not exist in this encoding.

Comparisons return ``symx.SB`` (``bool()`` of it asks the path explorer), so the builtin ``max`` /
``min`` and ``if`` statements of the code under test fork like everywhere else in symx.
``format(z, spec)`` / f-strings give a *token* ``@Z<n>:<spec>@`` that ``lookup_token`` maps back
to the value (used when the code under test prints integers into a file header).
"""
from fractions import Fraction
import re
import numpy as np
import z3

from . import ctx as _ctx
from .scalars import R, SB

DEFAULT_WIDTH = 24

_guards = []          # (description, z3 BoolRef) collected since the last take_guards()
_tokens = {}          # token number -> (Z, spec)
_TOKEN_RE = re.compile(r"@Z(\d+):([^@]*)@")


def reset():
    del _guards[:]
    _tokens.clear()


def take_guards():
    """Guards recorded since the last call (list of (description, z3 BoolRef))."""
    g = list(_guards)
    del _guards[:]
    return g


def lookup_token(s):
    """'@Z3:04d@' -> (Z, '04d'); None if `s` is not exactly one token."""
    m = _TOKEN_RE.fullmatch(s)
    if not m:
        return None
    return _tokens.get(int(m.group(1)))


def find_tokens(s):
    """All (Z, spec) tokens that occur in the string, in order."""
    return [_tokens[int(m.group(1))] for m in _TOKEN_RE.finditer(s) if int(m.group(1)) in _tokens]


def _is_int(x):
    return isinstance(x, (int, np.integer)) and not isinstance(x, (bool, np.bool_))


class Z:
    """Symbolic integer."""
    __slots__ = ("t", "w")

    def __init__(self, t, w=None):
        self.t = t
        self.w = w          # None: z3 Int; int: unsigned bit-vector of that width

    # ------------------------------------------------------------ helpers
    def _lift(self, o):
        """Operand as a z3 term of this encoding (None if not an integer)."""
        if isinstance(o, Z):
            if o.w != self.w:
                raise TypeError("symx.Z: mixing encodings (width %r vs %r)" % (self.w, o.w))
            return o.t
        if isinstance(o, (bool, np.bool_)):
            o = int(o)
        if _is_int(o):
            o = int(o)
            if self.w is None:
                return z3.IntVal(o)
            if o < 0 or o >= (1 << self.w):
                raise OverflowError("symx.Z: constant %d outside the unsigned %d-bit range" % (o, self.w))
            return z3.BitVecVal(o, self.w)
        if isinstance(o, R) and o.q is not None and o.q.denominator == 1:
            return self._lift(int(o.q))
        return None

    def _mk(self, t):
        return Z(t, self.w)

    def is_concrete(self):
        s = z3.simplify(self.t)
        return z3.is_int_value(s) or z3.is_bv_value(s)

    def value(self):
        s = z3.simplify(self.t)
        if z3.is_int_value(s) or z3.is_bv_value(s):
            return s.as_long()
        return None

    def int_term(self):
        """z3 Int term with the value of this integer."""
        return self.t if self.w is None else z3.BV2Int(self.t)

    def as_R(self):
        v = self.value()
        if v is not None:
            return R(q=Fraction(v))
        return R(n=z3.ToReal(self.int_term()), d=())

    # ------------------------------------------------------------ arithmetic
    def __add__(self, o):
        if isinstance(o, R) and not (o.q is not None and o.q.denominator == 1):
            return self.as_R() + o
        t = self._lift(o)
        if t is None:
            return NotImplemented
        if self.w is not None:
            _guards.append(("add", z3.BVAddNoOverflow(self.t, t, False)))
        return self._mk(self.t + t)

    __radd__ = __add__

    def __sub__(self, o):
        if isinstance(o, R) and not (o.q is not None and o.q.denominator == 1):
            return self.as_R() - o
        t = self._lift(o)
        if t is None:
            return NotImplemented
        if self.w is not None:
            _guards.append(("sub", z3.BVSubNoUnderflow(self.t, t, False)))
        return self._mk(self.t - t)

    def __rsub__(self, o):
        if isinstance(o, R) and not (o.q is not None and o.q.denominator == 1):
            return o - self.as_R()
        t = self._lift(o)
        if t is None:
            return NotImplemented
        if self.w is not None:
            _guards.append(("sub", z3.BVSubNoUnderflow(t, self.t, False)))
        return self._mk(t - self.t)

    def __mul__(self, o):
        if isinstance(o, R) and not (o.q is not None and o.q.denominator == 1):
            return self.as_R() * o
        if isinstance(o, (float, np.floating, Fraction)):
            return self.as_R() * o
        t = self._lift(o)
        if t is None:
            return NotImplemented
        if self.w is not None:
            _guards.append(("mul", z3.BVMulNoOverflow(self.t, t, False)))
        return self._mk(self.t * t)

    __rmul__ = __mul__

    def __neg__(self):
        if self.w is not None:
            raise TypeError("symx.Z: negation in the unsigned bit-vector encoding")
        return self._mk(-self.t)

    def __pos__(self):
        return self

    def _divmod(self, a, b):
        """(quotient, remainder) terms with Python's floor semantics; guards b != 0."""
        if self.w is not None:
            _guards.append(("divisor", b != 0))
            return z3.UDiv(a, b), z3.URem(a, b)
        bs = z3.simplify(b)
        if z3.is_int_value(bs):
            bv = bs.as_long()
            if bv == 0:
                raise ZeroDivisionError("symx.Z: integer division or modulo by zero")
            q = (a / b) if bv > 0 else ((-a) / (-b))
        else:
            _guards.append(("divisor", b != 0))
            q = z3.If(b > 0, a / b, (-a) / (-b))      # z3's div is Euclidean: floor for positive divisors
        return q, a - b * q

    def __floordiv__(self, o):
        t = self._lift(o)
        if t is None:
            return NotImplemented
        return self._mk(self._divmod(self.t, t)[0])

    def __rfloordiv__(self, o):
        t = self._lift(o)
        if t is None:
            return NotImplemented
        return self._mk(self._divmod(t, self.t)[0])

    def __mod__(self, o):
        t = self._lift(o)
        if t is None:
            return NotImplemented
        return self._mk(self._divmod(self.t, t)[1])

    def __rmod__(self, o):
        t = self._lift(o)
        if t is None:
            return NotImplemented
        return self._mk(self._divmod(t, self.t)[1])

    def __divmod__(self, o):
        return self // o, self % o

    def __truediv__(self, o):
        return self.as_R() / (o.as_R() if isinstance(o, Z) else o)

    def __rtruediv__(self, o):
        return o / self.as_R()

    # ------------------------------------------------------------ comparisons
    def _rel(self, o, op):
        if isinstance(o, R) and not (o.q is not None and o.q.denominator == 1):
            return getattr(self.as_R(), "__%s__" % op)(o)
        t = self._lift(o)
        if t is None:
            if op == "eq":
                return False
            if op == "ne":
                return True
            return NotImplemented
        a = self.t
        if self.w is None:
            r = {"lt": a < t, "le": a <= t, "gt": a > t, "ge": a >= t, "eq": a == t, "ne": a != t}[op]
        else:
            r = {"lt": z3.ULT(a, t), "le": z3.ULE(a, t), "gt": z3.UGT(a, t), "ge": z3.UGE(a, t),
                 "eq": a == t, "ne": a != t}[op]
        s = z3.simplify(r)
        if z3.is_true(s):
            return True
        if z3.is_false(s):
            return False
        return SB(r)

    def __lt__(self, o):
        return self._rel(o, "lt")

    def __le__(self, o):
        return self._rel(o, "le")

    def __gt__(self, o):
        return self._rel(o, "gt")

    def __ge__(self, o):
        return self._rel(o, "ge")

    def __eq__(self, o):
        return self._rel(o, "eq")

    def __ne__(self, o):
        return self._rel(o, "ne")

    def __hash__(self):
        return id(self)

    def __bool__(self):
        return bool(self != 0)

    # ------------------------------------------------------------ concretisation
    def __index__(self):
        v = self.value()
        if v is not None:
            return v
        # range(z), a[z], np.zeros(z): fork over the feasible values (at most 64, see Ctx.decide_int)
        if not _ctx.has_current():
            raise TypeError("symx.Z: symbolic integer used as an index outside explore()")
        return _ctx.current().decide_int(z3.ToReal(self.int_term()))

    def __int__(self):
        return self.__index__()

    def __copy__(self):
        return self

    def __deepcopy__(self, memo):
        return self

    def __format__(self, spec):
        v = self.value()
        if v is not None:
            return format(v, spec)
        k = len(_tokens) + 1
        _tokens[k] = (self, spec)
        return "@Z%d:%s@" % (k, spec)

    def __str__(self):
        return self.__format__("")

    def __repr__(self):
        s = str(z3.simplify(self.t))
        return "Z<%s>" % (s if len(s) <= 100 else s[:97] + "...")


# ------------------------------------------------------------------------------------------------
def zsym(name, lo=None, hi=None, width=None):
    """Fresh symbolic integer `name` with lo <= name <= hi (assumed in the current context).

    width=None: z3 Int; width=k: unsigned k-bit bit-vector (lo defaults to 0)."""
    c = _ctx.current() if _ctx.has_current() else None
    if width is None:
        t = z3.Int(name)
        if c is not None:
            c.symbols[name] = t
            if lo is not None:
                c.assume(t >= int(lo))
            if hi is not None:
                c.assume(t <= int(hi))
        return Z(t, None)
    t = z3.BitVec(name, width)
    if c is not None:
        c.symbols[name] = t
        if lo is not None and int(lo) > 0:
            c.assume(z3.UGE(t, z3.BitVecVal(int(lo), width)))
        if hi is not None:
            c.assume(z3.ULE(t, z3.BitVecVal(int(hi), width)))
    return Z(t, width)


def zconst(v, width=None):
    return Z(z3.IntVal(int(v)) if width is None else z3.BitVecVal(int(v), width), width)


def zint(V, name, lo=None, hi=None, width=None, default=None):
    """Integer input for a harness scenario: a fresh Z in a symbolic run, a Python int from the
    assignment in the concrete run (same calling convention as ``Vals.real``)."""
    V.requested.append(name)
    if V.symbolic:
        return zsym(name, lo=lo, hi=hi, width=width)
    if name in V.env:
        v = V.env[name]
        if isinstance(v, (list, tuple)):
            v = Fraction(v[0], v[1])
        return int(v)
    if default is not None:
        return int(default)
    return int(lo) if lo is not None else 0


def zmax(a, b):
    """max(a, b) as an If-term (no fork)."""
    if not isinstance(a, Z) and not isinstance(b, Z):
        return max(a, b)
    if not isinstance(a, Z):
        a, b = b, a
    t = a._lift(b)
    c = (a.t >= t) if a.w is None else z3.UGE(a.t, t)
    return a._mk(z3.If(c, a.t, t))


def zmin(a, b):
    if not isinstance(a, Z) and not isinstance(b, Z):
        return min(a, b)
    if not isinstance(a, Z):
        a, b = b, a
    t = a._lift(b)
    c = (a.t <= t) if a.w is None else z3.ULE(a.t, t)
    return a._mk(z3.If(c, a.t, t))


def zterm(x, like=None):
    """z3 term of an integer (Z or Python int, the latter in the encoding of `like`)."""
    if isinstance(x, Z):
        return x.t
    if like is not None:
        return like._lift(x)
    return z3.IntVal(int(x))
