"""Check runner: distributes work items over processes (hard wall-clock kill), replays `sat`
answers on the real code, matches known findings, writes the evidence file, sets the exit code.

exit 0: no reproduced violation outside known_findings.json
exit 1: reproduced violation  (prints  VIOLATION property=<id> replay=<path>)
exit 2: harness error (encoding gap / mismatch, vacuous harness, crashed worker)
"""
import argparse
import importlib
import json
import math
import multiprocessing as mp
import os
import re
import subprocess
import sys
import time
import traceback

VERIF = os.path.dirname(os.path.dirname(os.path.abspath(__file__)))


def _trace_functions(repo):
    """Record which functions of <repo>/pymoto get executed (sys.monitoring, ~zero overhead)."""
    seen = set()
    root = os.path.join(os.path.realpath(repo), "pymoto")
    try:
        mon = sys.monitoring
        tool = mon.PROFILER_ID
        mon.use_tool_id(tool, "symx-functions")

        def on_start(code, offset):
            fn = code.co_filename
            if fn.startswith(root):
                seen.add("%s:%s" % (os.path.relpath(fn, os.path.dirname(root)), code.co_qualname))
            return mon.DISABLE
        mon.register_callback(tool, mon.events.PY_START, on_start)
        mon.set_events(tool, mon.events.PY_START)
    except Exception:
        pass
    return seen


def _worker(conn, harness_name, cfg, tier, repo, seed, budget=None):
    try:
        os.environ["PYMOTO_VERIF"] = "1"
        if budget:
            # soft deadline: path exploration stops and hands back what it has before the hard kill would discard it
            os.environ["SYMX_SOFT_DEADLINE"] = repr(time.time() + budget - max(25.0, 0.15 * budget))
        sys.stdout = open(os.devnull, "w")      # pyMOTO prints (timing, finite_difference reports); results travel by pipe
        if os.environ.get("SYMX_STACK_AT"):      # debugging aid: Python stack of the worker after N seconds (to stderr)
            import faulthandler
            faulthandler.dump_traceback_later(int(os.environ["SYMX_STACK_AT"]), repeat=False, file=sys.stderr)
        seen = set() if os.environ.get("SYMX_PROFILE") else _trace_functions(repo)
        try:
            from harness.refs_merge import prime_inspect_cache
            prime_inspect_cache()      # speed only: pyMOTO's inspect.stack() in every Signal/Module constructor
        except Exception:
            pass
        h = importlib.import_module("harness." + harness_name)
        if os.environ.get("SYMX_PROFILE"):
            import cProfile
            import signal
            pr = cProfile.Profile()

            def _stop(*a):
                raise KeyboardInterrupt("profile budget")
            signal.signal(signal.SIGALRM, _stop)
            signal.alarm(int(os.environ.get("SYMX_PROFILE_SECS", "150")))
            pr.enable()
            try:
                res = h.run_item(cfg, tier)
            finally:
                pr.disable()
                pr.dump_stats(os.environ["SYMX_PROFILE"])
        else:
            res = h.run_item(cfg, tier)
        res["functions"] = sorted(seen)
        conn.send(("ok", res))
    except BaseException as e:
        conn.send(("err", "%s: %s\n%s" % (type(e).__name__, e, traceback.format_exc()[-3000:])))
    finally:
        conn.close()


def _died(code):
    """A worker that was killed by a signal (the kernel's OOM killer, an abort inside the native solver) exhausted a
    resource: the item is inconclusive, like a time-out.  A Python-level exit without a result is a harness error."""
    if code is not None and code < 0:
        return "timeout", "worker killed by signal %d (native solver ran out of memory or aborted)" % (-code)
    return "err", "worker exited with code %s without a result" % code


def run_items(harness_name, items, tier, repo, seed, jobs, item_timeout):
    """Run every item in its own forked process; kill on timeout. Returns list of (cfg, status, payload)."""
    ctx = mp.get_context("fork")
    pending = list(enumerate(items))
    running = {}
    results = [None] * len(items)
    while pending or running:
        while pending and len(running) < jobs:
            idx, cfg = pending.pop(0)
            pc, cc = ctx.Pipe(duplex=False)
            p = ctx.Process(target=_worker, args=(cc, harness_name, cfg, tier, repo, seed, cfg.get("timeout", item_timeout)),
                            daemon=True)
            p.start()
            cc.close()
            running[idx] = (p, pc, time.time(), cfg)
        done = []
        for idx, (p, pc, t0, cfg) in running.items():
            to = cfg.get("timeout", item_timeout)
            if pc.poll(0):
                try:
                    st, payload = pc.recv()
                except EOFError:
                    st, payload = None, None
                p.join(5)
                if p.is_alive():
                    p.kill()
                if st is None:
                    st, payload = _died(p.exitcode)
                results[idx] = (cfg, st, payload)
                done.append(idx)
            elif not p.is_alive():
                results[idx] = (cfg,) + _died(p.exitcode)
                done.append(idx)
            elif time.time() - t0 > to:
                p.kill()
                p.join(2)
                results[idx] = (cfg, "timeout", "killed after %.0f s" % to)
                done.append(idx)
        for idx in done:
            running.pop(idx)
        if not done:
            time.sleep(0.02)
    return results


def load_known(path):
    if not os.path.exists(path):
        return []
    with open(path) as f:
        return json.load(f).get("findings", [])


def match_known(known, prop, cfg, label, env, detail):
    for k in known:
        if k.get("property") != prop or k.get("status") != "known":
            continue
        m = k.get("match", {})
        if "kind" in m and m["kind"] != cfg.get("kind"):
            continue
        if "label_re" in m and not re.search(m["label_re"], label or ""):
            continue
        if "cfg" in m and any(cfg.get(a) != b for a, b in m["cfg"].items()):
            continue
        if "where" in m:
            try:
                # (one namespace used as globals: names must be visible inside generator expressions too)
                ok = eval(m["where"], dict(__builtins__={}, cfg=cfg, env=env or {}, label=label, detail=detail or {},
                                           floor=math.floor, abs=abs, int=int, len=len, any=any, all=all, str=str, min=min,
                                           max=max, range=range, prod=_prod))
            except Exception:
                ok = False
            if not ok:
                continue
        return k
    return None


def _prod(xs):
    r = 1
    for x in xs:
        r *= x
    return r


def do_replays(prop, harness_name, repo, cases, outdir):
    """cases: list of dict(cfg,label,env,kind). Runs them in one fresh, unshimmed subprocess."""
    if not cases:
        return []
    os.makedirs(outdir, exist_ok=True)
    inp = os.path.join(outdir, "%s-batch-%d.json" % (prop, os.getpid()))
    with open(inp, "w") as f:
        json.dump(dict(property=prop, harness=harness_name, repo=repo, cases=cases), f)
    cmd = [sys.executable, "-m", "symx.replaymain", inp]
    try:
        r = subprocess.run(cmd, cwd=VERIF, capture_output=True, text=True, timeout=1800)
        lines = [ln for ln in r.stdout.splitlines() if ln.startswith("REPLAY-RESULT ")]
        if not lines:
            return [dict(reproduced=None, detail="replay process gave no result: " + (r.stderr or "")[-500:])
                    for _ in cases]
        return json.loads(lines[-1][len("REPLAY-RESULT "):])
    except subprocess.TimeoutExpired:
        return [dict(reproduced=None, detail="replay timed out") for _ in cases]
    finally:
        try:
            os.remove(inp)
        except OSError:
            pass


def main(argv=None):
    ap = argparse.ArgumentParser()
    ap.add_argument("prop")
    ap.add_argument("--tier", default=os.environ.get("VERIF_TIER", "quick"), choices=["quick", "thorough"])
    ap.add_argument("--repo", default="/repo")
    ap.add_argument("--replay", default=None)
    ap.add_argument("--jobs", type=int, default=int(os.environ.get("VERIF_JOBS", "0")) or min(16, os.cpu_count() or 4))
    ap.add_argument("--only", default=None, help="regex on item ids (development)")
    ap.add_argument("--no-evidence", action="store_true")
    a = ap.parse_args(argv)
    prop = a.prop
    seed = int(os.environ.get("VERIF_SEED", "0") or 0)
    repo = os.path.realpath(a.repo)
    sys.path.insert(0, repo)
    sys.path.insert(0, VERIF)
    os.environ["SYMX_REPO"] = repo
    os.environ["VERIF_SEED"] = str(seed)
    t0 = time.time()

    if a.replay:
        with open(a.replay) as f:
            rp = json.load(f)
        res = do_replays(prop, prop, repo, [rp["case"]], os.path.join(VERIF, "out", "replays"))
        print(json.dumps(res[0], indent=1))
        if res[0].get("reproduced"):
            print("VIOLATION property=%s replay=%s" % (prop, a.replay))
            return 1
        return 0

    import glob
    for old in glob.glob(os.path.join(VERIF, "out", "replays", "%s-*.json" % prop)):
        try:
            os.remove(old)
        except OSError:
            pass
    import pymoto  # noqa: F401  (imported once in the parent from the tree under test; workers fork)
    h = importlib.import_module("harness." + prop)
    items = h.items(a.tier)
    sel = getattr(h, "VIEWS_LAYOUT_ITEMS", None)
    if callable(sel):
        # the same items with every input array handed over as a view that is not C-contiguous (same values)
        items = items + [dict(it, id="%s-viewsin" % it["id"], mem_layout="views") for it in items if sel(it, a.tier)]
    if a.only:
        items = [i for i in items if re.search(a.only, str(i.get("id")))]
    item_timeout = getattr(h, "ITEM_TIMEOUT", {}).get(a.tier, 120 if a.tier == "quick" else 900)
    results = run_items(prop, items, a.tier, repo, seed, a.jobs, item_timeout)

    if os.environ.get("VERIF_DUMP"):
        with open(os.environ["VERIF_DUMP"], "w") as f:
            json.dump([dict(id=c.get("id"), st=st, payload=(pl if st == "ok" else str(pl))) for c, st, pl in results],
                      f, default=str)
    known = load_known(os.path.join(VERIF, "known_findings.json"))
    harness_errors = []
    inconclusive = []
    sat_cases = []
    twin_cases = []
    obligations = discharged = evaluations = solver_checks = 0
    nontrivial_keys = set()
    nontrivial_merged = 0
    paths = validated = 0
    stubs, assumptions, functions, notes = set(), [], set(), []
    samples = []
    solver_time = 0.0
    stage_hist = {}
    vac = dict(paths_sat=0, paths_unknown=0, paths_unsat=0)
    timeouts = 0
    exc_cases = []
    item_walls = []
    for cfg, st, payload in results:
        if st == "timeout":
            timeouts += 1
            inconclusive.append(dict(item=cfg.get("id"), why=payload))
            continue
        if st == "err":
            harness_errors.append("item %s: %s" % (cfg.get("id"), payload))
            continue
        r = payload
        item_walls.append((round(r.get("wall", 0.0), 1), cfg.get("id"), r.get("paths", 0)))
        for e in r.get("errors", []):
            harness_errors.append("item %s: %s" % (cfg.get("id"), e))
        paths += r.get("paths", 0)
        validated += r.get("validated", 0)
        stubs.update(r.get("stubs", []))
        for x in r.get("assumptions", []):
            if x not in assumptions:
                assumptions.append(x)
        functions.update(r.get("functions", []))
        for n in r.get("notes", []):
            if len(notes) < 40:
                notes.append("%s: %s" % (cfg.get("id"), n))
        solver_time += r.get("solver_time", 0.0)
        for k, v in r.get("vacuity", {}).items():
            vac[k] = vac.get(k, 0) + v
        if r.get("deadline_hit"):
            timeouts += 1
            inconclusive.append(dict(item=cfg.get("id"), why="soft deadline: %d paths explored, the remaining paths unexplored"
                                                           % r.get("paths", 0)))
        vq = r.get("vacuity", {})
        if r.get("paths", 0) > 0 and vq.get("paths_sat", 0) == 0 and vq.get("paths_unknown", 0) > 0:
            inconclusive.append(dict(item=cfg.get("id"), why="vacuity guard: path feasibility unknown"))
        if r.get("paths", 0) > 0 and vq.get("paths_sat", 0) == 0 and vq.get("paths_unknown", 0) == 0 and not r.get("deadline_hit") \
                and not r.get("exceptions") and not r.get("allow_vacuous") and r.get("aborted", 0) < r.get("paths", 0):
            harness_errors.append("item %s: VACUOUS (no path with satisfiable constraints)" % cfg.get("id"))
        for o in r.get("obligations", []):
            # a harness may merge discharged obligations of one (path, stage, kind) into one record
            # carrying their number in "count" (keeps the result of items with >10^4 obligations small)
            n_o = int(o.get("count", 1) or 1)
            obligations += n_o
            stage_hist[o["stage"]] = stage_hist.get(o["stage"], 0) + n_o
            if o["stage"] and (o["stage"].startswith("solver") or o["stage"] == "simplify"):
                evaluations += n_o
            if o["stage"] and o["stage"].startswith("solver"):
                solver_checks += n_o
            if o.get("nontrivial"):
                nontrivial_keys.add(o["key"])
                nontrivial_merged += n_o - 1
            if o["status"] == "unsat":
                discharged += n_o
            elif o["status"] == "sat":
                sat_cases.append(dict(cfg=r["cfg"], label=o["label"], env=o.get("model") or {}, kind=o.get("kind"),
                                      path=o.get("path")))
            else:
                inconclusive.append(dict(item=cfg.get("id"), label=o["label"], why=o["stage"]))
        if r.get("twin_mismatch"):
            # first: ANY clause of the item, evaluated on the real library with the twin's numbers (the first obligation of a
            # kind may be one that still holds, e.g. a shape clause in front of the value clauses of the same kind)
            twin_cases.append(dict(cfg=r["cfg"], label="*", env=r["twin_mismatch"]["env"], kind="twin:any-clause", path=-1, twin=True))
            seen_kinds = set()
            for o in r.get("obligations", []):
                kd = o.get("kind")
                if kd in seen_kinds or len(seen_kinds) >= 8:
                    continue
                seen_kinds.add(kd)
                twin_cases.append(dict(cfg=r["cfg"], label=o["label"], env=r["twin_mismatch"]["env"], kind="twin:%s" % kd,
                                       path=-1, twin=True))
        for ex in r.get("exceptions", []):
            exc_cases.append(dict(cfg=r["cfg"], label="exception:" + ex["type"], env=ex.get("model") or {},
                                  kind="exception", detail=dict(msg=ex["msg"], tb=ex["tb"]), path=ex.get("path")))
        for s in r.get("samples", []):
            if len(samples) < 4:
                samples.append(s)
    # ---- replay sat answers and exceptions on the real code
    cases = sat_cases + exc_cases
    # limit replays per (item, label-kind) to keep the run bounded; the rest inherit nothing: they stay
    # "unreplayed" and are reported as inconclusive
    # at most PER_GROUP replays per (item, obligation kind): the others of a group are listed as
    # unreplayed (inconclusive), never as held
    MAXR = getattr(h, "MAX_REPLAYS", 400)
    PER_GROUP = getattr(h, "REPLAYS_PER_GROUP", 3)
    # round-robin over the groups (first one counterexample of EVERY group, then a second one, ...): a flood of
    # counterexamples in the first items must not use up the budget before later items had a single replay
    by_group = {}
    for cse in cases:
        by_group.setdefault((cse["cfg"].get("id"), cse.get("kind")), []).append(cse)
    to_replay, skipped = [], []
    # groups of concrete regression items first (definite failures of real-library runs), then in item order
    order_ = sorted(by_group, key=lambda g_: 0 if str(g_[1] or "").startswith(("concrete-regression", "rounding-regression",
                                                                              "cg-degenerate")) else 1)
    by_group = {g_: by_group[g_] for g_ in order_}
    for rnd_ in range(PER_GROUP):
        for g, lst in by_group.items():
            if rnd_ < len(lst):
                (to_replay if len(to_replay) < MAXR else skipped).append(lst[rnd_])
    for g, lst in by_group.items():
        skipped.extend(lst[PER_GROUP:])
    to_replay = to_replay + twin_cases
    rep = do_replays(prop, prop, repo, to_replay, os.path.join(VERIF, "out", "replays"))
    violations = []
    known_hits = {}
    spurious = 0
    twin_confirmed = set()
    fallback_items, fallback_cases = set(), []
    for cse, rr in zip(to_replay, rep):
        if cse.get("twin"):
            # clauses of an item whose symbolic run and real-library run disagree, evaluated with the twin's numbers
            if rr.get("reproduced") is True:
                k = match_known(known, prop, cse["cfg"], cse["label"], _envf(cse["env"]), rr)
                if k is not None:
                    known_hits.setdefault(k["id"], [k, 0])[1] += 1
                else:
                    violations.append((cse, rr))
                twin_confirmed.add(cse["cfg"].get("id"))
            continue
        if rr.get("reproduced") is True:
            k = match_known(known, prop, cse["cfg"], cse["label"], _envf(cse["env"]), rr)
            if k is not None:
                known_hits.setdefault(k["id"], [k, 0])[1] += 1
            else:
                violations.append((cse, rr))
        elif rr.get("reproduced") is False:
            spurious += 1
            inconclusive.append(dict(item=cse["cfg"].get("id"), label=cse["label"],
                                     why="sat but not reproduced on the real code: " + str(rr.get("detail"))[:160]))
            if cse.get("kind") == "exception" and cse["cfg"].get("id") not in fallback_items:
                # the symbolic run stopped at an exception the real library does not raise (a stand-in was too narrow for
                # the changed code): evaluate the clauses of the item on the real library with the same numbers
                fallback_items.add(cse["cfg"].get("id"))
                fallback_cases.append(dict(cfg=cse["cfg"], label="*", env=cse["env"], kind="fallback:all-clauses", path=-1))
        else:
            harness_errors.append("replay of %s/%s failed: %s" % (cse["cfg"].get("id"), cse["label"], rr.get("detail")))
    if fallback_cases:
        rep2 = do_replays(prop, prop, repo, fallback_cases[:40], os.path.join(VERIF, "out", "replays"))
        for cse, rr in zip(fallback_cases[:40], rep2):
            if rr.get("reproduced") is True:
                k = match_known(known, prop, cse["cfg"], cse["label"], _envf(cse["env"]), rr)
                if k is not None:
                    known_hits.setdefault(k["id"], [k, 0])[1] += 1
                else:
                    cse = dict(cse, label="(any clause) " + str((rr.get("detail") or {}).get("clause", "") if isinstance(rr.get("detail"), dict) else ""))
                    violations.append((cse, rr))
    if twin_confirmed:
        # the disagreement is explained by a clause that fails on the real library: reported as violation, not as harness error
        harness_errors = [e for e in harness_errors
                          if not ("ENCODING-MISMATCH" in e and any(e.startswith("item %s:" % i) for i in twin_confirmed))]
    verdict_by_group = {}
    for cse, rr in zip(to_replay, rep):
        if cse.get("twin"):
            continue
        g = (cse["cfg"].get("id"), cse.get("kind"))
        verdict_by_group.setdefault(g, []).append(rr.get("reproduced"))
    n_same_group = 0
    for cse in skipped:
        g = (cse["cfg"].get("id"), cse.get("kind"))
        if verdict_by_group.get(g) and all(v is True for v in verdict_by_group[g]):
            n_same_group += 1     # further counterexamples of an obligation group already reported above
        else:
            inconclusive.append(dict(item=cse["cfg"].get("id"), label=cse["label"], why="sat, not replayed (replay budget)"))

    rc = 0
    for kid, (k, n) in sorted(known_hits.items()):
        print("KNOWN-FINDING: property=%s %s: %s (%d reproduced counterexamples)" % (prop, kid, k.get("what", ""), n))
    outdir = os.path.join(VERIF, "out", "replays")
    os.makedirs(outdir, exist_ok=True)
    for i, (cse, rr) in enumerate(violations):
        path = os.path.join(outdir, "%s-%s-%d.json" % (prop, re.sub(r"[^A-Za-z0-9]+", "_", str(cse["cfg"].get("id")))[:40], i))
        with open(path, "w") as f:
            json.dump(dict(property=prop, case=cse, observed=rr), f, indent=1, default=str)
        if i < 25:
            print("VIOLATION property=%s replay=%s" % (prop, path))
            print("  item=%s obligation=%s detail=%s" % (cse["cfg"].get("id"), cse["label"], str(rr.get("detail"))[:300]))
        rc = 1
    for inc in inconclusive[:30]:
        print("INCONCLUSIVE property=%s %s" % (prop, json.dumps(inc, default=str)[:300]))
    if len(inconclusive) > 30:
        print("INCONCLUSIVE property=%s ... %d more" % (prop, len(inconclusive) - 30))
    for e in harness_errors[:20]:
        print("HARNESS-ERROR property=%s %s" % (prop, e[:1500]))
    if harness_errors and rc == 0:
        rc = 2
    wall = time.time() - t0
    print("SUMMARY property=%s tier=%s items=%d paths=%d obligations=%d discharged=%d sat=%d inconclusive=%d "
          "known=%d violations=%d spurious=%d validated=%d timeouts=%d wall=%.1fs"
          % (prop, a.tier, len(items), paths, obligations, discharged, len(sat_cases), len(inconclusive),
             sum(n for _, n in known_hits.values()), len(violations), spurious, validated, timeouts, wall))

    print("SLOWEST " + " ".join("%s:%ss/%dp" % (i, w, p) for w, i, p in sorted(item_walls, reverse=True)[:6]))
    # drift guard (informational): functions of the anchor files that the registered check executed when it was
    # registered (expected_functions.json, committed) but that this run did not reach - a refactoring that routes
    # around the encoded code would otherwise pass silently.  Never changes the verdict.
    drift = []
    try:
        with open(os.path.join(VERIF, "expected_functions.json")) as f:
            exp = json.load(f).get(prop, {}).get(a.tier, [])
        if not a.only:
            drift = sorted(set(exp) - set(functions))
            for fn in drift[:20]:
                print("DRIFT-NOTE property=%s expected function no longer executed: %s" % (prop, fn))
    except (OSError, ValueError):
        pass
    if not a.no_evidence and not a.only:
        ev = dict(
            property_id=prop, tier=a.tier, seed=seed, level="model_checking",
            coverage=dict(
                evaluations=max(evaluations, 0), distinct_nontrivial=len(nontrivial_keys) + nontrivial_merged,
                rule=("obligations = (configuration, path, goal) triples produced by executing the real pyMOTO "
                      "functions on symbolic values; evaluations = obligations handed to z3 (closed by z3's simplifier "
                      "as a polynomial identity, or decided by a z3 solver check: see solver_check_calls); the "
                      "remaining obligations compare two concrete values or the very same term; non-trivial = both "
                      "sides not the same term and not both concrete; distinct by (item id, path index, label)"),
                samples=samples or [dict(note="no solver query needed: every obligation closed by z3.simplify")],
                obligations=obligations, discharged=discharged, solver_check_calls=solver_checks, inconclusive=len(inconclusive),
                sat_answers=len(sat_cases), sat_in_already_reported_groups=n_same_group, reproduced_known=sum(n for _, n in known_hits.values()),
                spurious_sat=spurious, paths=paths, configurations=len(items),
                traces_validated_against_impl=validated, functions_encoded=sorted(functions),
                bounds=getattr(h, "BOUNDS", {}).get(a.tier, getattr(h, "BOUNDS", {})),
                outside_claim=getattr(h, "OUTSIDE", []), stubs=sorted(stubs),
                solver="z3 %s" % _z3ver(), solver_time_s=round(solver_time, 2), stage_histogram=stage_hist,
                vacuity=vac, item_timeouts=timeouts, harness_errors=harness_errors[:10],
                inconclusive_list=inconclusive[:40], notes=notes,
                known_findings_hit=sorted(known_hits.keys()), drift_expected_functions_not_executed=drift,
                exhaustive=False,
            ),
            assumptions=(getattr(h, "ASSUMPTIONS", []) + assumptions)[:60],
            wall_s=round(wall, 2), violations=len(violations),
        )
        os.makedirs(os.path.join(VERIF, "evidence"), exist_ok=True)
        with open(os.path.join(VERIF, "evidence", "%s.json" % prop), "w") as f:
            json.dump(ev, f, indent=1, default=str)
    return rc


def _envf(env):
    out = {}
    for k, v in (env or {}).items():
        if isinstance(v, (list, tuple)) and len(v) == 2:
            out[k] = v[0] / v[1]
        else:
            out[k] = v
    return out


def _z3ver():
    try:
        import z3
        return z3.get_version_string()
    except Exception:
        return "?"


if __name__ == "__main__":
    sys.exit(main())
