"""Numeric evaluation of z3 terms / symx scalars under an assignment (floats, real math for UFs).
Used by the encoding validation (concretised twin) and to sanity-check solver models."""
import math
from fractions import Fraction
import numpy as np
import z3

from .scalars import R, C, SB


class EvalError(Exception):
    pass


def _num(v):
    if isinstance(v, (list, tuple)) and len(v) == 2:
        return v[0] / v[1]
    return float(v)


_BV_OPS = {z3.Z3_OP_BADD: "add", z3.Z3_OP_BMUL: "mul", z3.Z3_OP_BSUB: "sub", z3.Z3_OP_BUDIV: "div",
           z3.Z3_OP_BUDIV_I: "div", z3.Z3_OP_BUREM: "rem", z3.Z3_OP_BUREM_I: "rem", z3.Z3_OP_BV2INT: "toint",
           z3.Z3_OP_ULEQ: "le", z3.Z3_OP_UGEQ: "ge", z3.Z3_OP_ULT: "lt", z3.Z3_OP_UGT: "gt"}


def _bv_eval(kind, u, a):
    op = _BV_OPS[kind]
    if op == "toint":
        return a[0]
    if op in ("le", "ge", "lt", "gt"):
        return {"le": a[0] <= a[1], "ge": a[0] >= a[1], "lt": a[0] < a[1], "gt": a[0] > a[1]}[op]
    m = 1 << u.size()
    if op == "add":
        return sum(a) % m
    if op == "mul":
        v = 1
        for x in a:
            v = (v * x) % m
        return v
    if op == "sub":
        return (a[0] - sum(a[1:])) % m
    if op == "div":
        return (a[0] // a[1]) if a[1] else m - 1
    return (a[0] % a[1]) if a[1] else a[0]


def _defs():
    from . import ctx as _ctx
    if _ctx.has_current():
        return getattr(_ctx.current(), "_uf_defs", {})
    return {}


def _roots():
    from . import ctx as _ctx
    if _ctx.has_current():
        return getattr(_ctx.current(), "_root_defs", {})
    return {}


def _csqrts():
    from . import ctx as _ctx
    if _ctx.has_current():
        return getattr(_ctx.current(), "_csqrt_defs", {})
    return {}


def eval_term(t, env, cache=None):
    """env: name -> float (or [num, den])."""
    if cache is None:
        cache = {}
    cache.setdefault("_keep", []).append(t)   # ids are only unique while the terms are alive
    stack = [(t, False)]
    while stack:
        u, ready = stack.pop()
        k = u.get_id()
        if k in cache:
            continue
        if not ready:
            if z3.is_int_value(u):        # IntNumRef has no as_fraction()
                cache[k] = u.as_long()
                continue
            if z3.is_rational_value(u):
                f = u.as_fraction()
                cache[k] = f.numerator / f.denominator
                continue
            if z3.is_bv_value(u):
                cache[k] = u.as_long()
                continue
            if z3.is_true(u):
                cache[k] = True
                continue
            if z3.is_false(u):
                cache[k] = False
                continue
            if z3.is_const(u) and u.decl().kind() == z3.Z3_OP_UNINTERPRETED:
                nm = u.decl().name()
                d = _defs().get(k)
                if d is not None:      # definitional symbol (symx.axioms.as_term): evaluate its definition
                    cache[k] = eval_scalar(d, env, cache)
                    continue
                rd = _roots().get(k)
                if rd is not None:     # root symbol s with s^m = u, s >= 0
                    uval = eval_term(rd[0], env, cache)
                    if uval < 0:
                        raise EvalError("root of negative value")
                    cache[k] = uval ** (1.0 / rd[1])
                    continue
                cd = _csqrts().get(k)
                if cd is not None:     # principal complex square root (u, v) of a + ib
                    import cmath
                    z = cmath.sqrt(complex(eval_term(cd[0], env, cache), eval_term(cd[1], env, cache)))
                    cache[k] = z.imag if cd[2] else z.real
                    continue
                if nm not in env:
                    raise EvalError("no value for symbol %s" % nm)
                v = env[nm]
                cache[k] = v if isinstance(v, bool) else _num(v)
                continue
            stack.append((u, True))
            for ch in u.children():
                if ch.get_id() not in cache:
                    stack.append((ch, False))
            continue
        a = [cache[ch.get_id()] for ch in u.children()]
        kind = u.decl().kind()
        name = u.decl().name()
        try:
            if kind == z3.Z3_OP_ADD:
                v = sum(a)
            elif kind == z3.Z3_OP_MUL:
                v = 1.0
                for x in a:
                    v *= x
            elif kind == z3.Z3_OP_SUB:
                v = a[0] - sum(a[1:])
            elif kind == z3.Z3_OP_UMINUS:
                v = -a[0]
            elif kind == z3.Z3_OP_DIV:
                v = a[0] / a[1]
            elif kind == z3.Z3_OP_POWER:
                v = a[0] ** a[1]
            elif kind == z3.Z3_OP_ITE:
                v = a[1] if a[0] else a[2]
            elif kind == z3.Z3_OP_LE:
                v = a[0] <= a[1]
            elif kind == z3.Z3_OP_LT:
                v = a[0] < a[1]
            elif kind == z3.Z3_OP_GE:
                v = a[0] >= a[1]
            elif kind == z3.Z3_OP_GT:
                v = a[0] > a[1]
            elif kind == z3.Z3_OP_EQ:
                v = (a[0] == a[1]) if isinstance(a[0], bool) else abs(a[0] - a[1]) <= 1e-9 * max(1.0, abs(a[0]), abs(a[1]))
            elif kind == z3.Z3_OP_DISTINCT:
                v = a[0] != a[1]
            elif kind == z3.Z3_OP_AND:
                v = all(a)
            elif kind == z3.Z3_OP_OR:
                v = any(a)
            elif kind == z3.Z3_OP_NOT:
                v = not a[0]
            elif kind == z3.Z3_OP_IMPLIES:
                v = (not a[0]) or a[1]
            elif kind == z3.Z3_OP_XOR:
                v = bool(a[0]) != bool(a[1])
            elif kind == z3.Z3_OP_TO_REAL:
                v = float(a[0])
            elif kind == z3.Z3_OP_TO_INT:
                v = math.floor(a[0])
            elif kind == z3.Z3_OP_IDIV:           # Euclidean division of integers (symx.zint)
                q = math.floor(a[0] / abs(a[1]))
                v = q if a[1] > 0 else -q
            elif kind == z3.Z3_OP_MOD:
                v = a[0] - abs(a[1]) * math.floor(a[0] / abs(a[1]))
            elif kind in _BV_OPS:                 # unsigned bit-vector integers (symx.zint)
                v = _bv_eval(kind, u, [int(x) for x in a])
            elif kind == z3.Z3_OP_UNINTERPRETED:
                if name == "POW":
                    v = a[0] ** a[1]
                elif name == "EXP":
                    v = math.exp(a[0])
                elif name == "LOG":
                    v = math.log(a[0])
                elif name == "SQRT":
                    v = math.sqrt(a[0])
                elif name == "SIN":
                    v = math.sin(a[0])
                elif name == "COS":
                    v = math.cos(a[0])
                else:
                    raise EvalError("unknown function %s" % name)
            else:
                raise EvalError("unsupported z3 op %s" % name)
        except (ZeroDivisionError, ValueError, OverflowError) as e:
            raise EvalError(str(e))
        cache[k] = v
    return cache[t.get_id()]


def eval_scalar(x, env, cache=None):
    if isinstance(x, C):
        return complex(eval_scalar(x.re, env, cache), eval_scalar(x.im, env, cache))
    if isinstance(x, SB):
        return bool(eval_term(x.t, env, cache))
    if isinstance(x, R):
        if x.q is not None:
            return float(x.q)
        n = eval_term(x.n, env, cache)
        dt = x.den_term()
        if dt is None:
            return n
        d = eval_term(dt, env, cache)
        if d == 0:
            raise EvalError("zero denominator")
        return n / d
    if isinstance(x, Fraction):
        return float(x)
    return x


def eval_array(a, env):
    cache = {}
    if hasattr(a, "_dense"):
        a = a._dense
    if not isinstance(a, np.ndarray):
        return eval_scalar(a, env, cache)
    if a.dtype != object:
        return a
    vals = [eval_scalar(e, env, cache) for e in a.flat]
    cplx = any(isinstance(v, complex) for v in vals)
    out = np.array(vals, dtype=complex if cplx else float).reshape(a.shape)
    return out
