"""Clause lists shared by the optimiser harnesses (C10, C17): one statement of the property clauses that is discharged by
the Prover on symbolic values and evaluated with tolerances on floats by the replay."""
import numpy as np


class Clauses(list):
    """Property clauses of one run, usable in both modes: discharged by the Prover on symbolic values, evaluated with
    tolerances on floats by the replay.  Entries: (label, kind, op, a, b), op in lt / le / eq / true."""

    def lt(self, label, a, b, kind):
        self.append((label, kind, "lt", a, b))

    def le(self, label, a, b, kind):
        self.append((label, kind, "le", a, b))

    def eq(self, label, a, b, kind, scale=0.0):
        """scale: magnitude of the terms that were added up to obtain a, b (floor of the relative tolerance in the replay)."""
        self.append((label, kind, "eq", a, b, scale))

    def true(self, label, cond, kind):
        self.append((label, kind, "true", bool(cond), None))

    def arr_eq(self, label, A, B, kind):
        if A is None or B is None:
            self.true(label + ".is-array", False, kind)
            return
        A, B = np.asarray(A), np.asarray(B)
        if A.shape != B.shape:
            self.true(label + ".shape", False, kind)
            return
        for i in np.ndindex(*A.shape):
            self.eq("%s[%s]" % (label, ",".join(map(str, i))), A[i], B[i], kind)

    def discharge(self, P, weak_first_kinds=()):
        """Hand every clause to the Prover.  Clauses of the kinds in `weak_first_kinds` do not depend on the branch taken:
        they are first tried WITHOUT the path condition (fewer hypotheses: a proof is a fortiori valid on the path); only
        if that does not succeed are they decided under the full path condition.  An `unknown` under the full path
        condition is likewise retried without it.  A `sat` obtained without the path condition is never used."""
        c = P.c

        def attempt(label, kind, op, a, b):
            if op == "true":
                return P.holds(label, a, kind=kind)
            if op == "eq":
                return P.eq(label, a, b, kind=kind)
            return P.holds(label, (a < b) if op == "lt" else (a <= b), kind=kind)

        def weak(label, kind, op, a, b):
            saved = c.pc
            c.pc = []
            try:
                o = attempt(label, kind, op, a, b)
            finally:
                c.pc = saved
            if isinstance(o, tuple) or o.status != "unsat":
                for x in (o if isinstance(o, tuple) else (o,)):
                    P.obls.remove(x)
                return None
            o.stage = str(o.stage) + " (without path condition)"
            return o

        for label, kind, op, a, b in (e[:5] for e in self):
            if kind in weak_first_kinds and c.pc and weak(label, kind, op, a, b) is not None:
                continue
            o = attempt(label, kind, op, a, b)
            if not isinstance(o, tuple) and o.status == "unknown" and c.pc and kind not in weak_first_kinds:
                o2 = weak(label, kind, op, a, b)
                if o2 is not None:
                    P.obls.remove(o)

    def evaluate(self, label, rtol=1e-9, eqtol=1e-9):
        """(violated?, detail) for the clause `label` on float values; None if the clause does not exist in this run."""
        for e in self:
            lab, kind, op, a, b = e[:5]
            if lab != label:
                continue
            if op == "true":
                return (not a), dict(clause=lab, value=bool(a))
            a, b = float(a), float(b)
            if a != a or b != b:        # NaN never satisfies a clause
                return True, dict(clause=lab, op=op, lhs=a, rhs=b, note="NaN")
            sc = max(1.0, abs(a), abs(b))
            if op == "eq":
                bad = abs(a - b) > eqtol * max(abs(a), abs(b), float(e[5])) + 1e-13
            elif op == "le":
                bad = a > b + rtol * sc
            else:   # strict: violated when a reaches b (up to rounding)
                bad = a >= b - rtol * sc
            return bool(bad), dict(clause=lab, op=op, lhs=a, rhs=b)
        return None, dict(clause=label, note="clause not produced by the concrete run")
