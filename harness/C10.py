"""C10 - MMA iterates respect bounds and move limits (partially decidable).

Executed for real (unmodified source, symbolic values):
  (a) kind `mmasub`       MMA.__init__, MMA.mmasub: ONE step from an arbitrary admissible state (xmin < xmax, xval inside,
                          offset inside its clip interval, xold1/xold2 None or arbitrary, all asymptote parameters
                          symbolic, both mmaversions); `subsolv` replaced by its contract (any x with alfa <= x <= beta).
  (b) kind `subsolv`      subsolv's step-length rule and line search from an ARBITRARY interior state with an ARBITRARY
                          direction: at the first statement of the step-length rule a trace function overwrites the
                          local variables (state, bounds, direction, reference norm) by fresh symbols - the source is not
                          edited; the residual norms that steer accept/halve are arbitrary non-negative numbers.
      `subsolv-first-*`   the same code from subsolv's OWN start state with the real Newton assembly on exact concrete
                          data and an arbitrary solution (dlam, dz) of the linear system (integration of the pieces).
      kind `subsolv_init` base case: the state subsolv builds for itself is interior.
      kind `residual`     residual() equals the KKT residual of the documented sub-problem (Lagrangian differentiated
                          by diffz3).
  (c) kind `response`     MMA.response on a real Network of two user modules: bound / move expansion,
                          _concatenate_to_array, sensitivity collection per response with resets, write-back to the
                          signals (observed at fn_callback); `mmasub` stubbed on the instance.
Measured and therefore NOT an item: the first Newton step with fully symbolic problem data and the real direction
(n = 1, m = 1) leaves every clause that involves dx `unknown` (10 s each); the decomposition (arbitrary direction) decides
them in milliseconds and covers the computed direction.
See OUTSIDE for what is not decided (convergence / accuracy of the Newton iteration, convergence of the outer iteration).
"""
from fractions import Fraction
import sys
import numpy as np
import z3

from symx import R, SB
from symx import ctx as _ctx
from symx import diffz3
from symx.scalars import _factor_terms, sym
from symx.array import SymArray
from .common import symbolic_run, Vals
from .refs_clauses import Clauses

PROPERTY = "C10"
BOUNDS = {
    "quick": dict(mmasub=dict(n=[2, 3], m=[1, 2], versions=["Svanberg1987", "Svanberg2007"],
                              histories=["first (xold1=xold2=None, offset=None, dx=None)", "second (xold2=None)",
                                         "general (xold1, xold2 arbitrary)"],
                              move=["scalar", "per-variable vector"], asybound=["10.0", "symbolic >= 1"]),
                  subsolv=dict(n=[1, 2, 3], m=[1, 2], newton_iterations=1, line_search_trials=4, init_n=[1, 2],
                               first_step=[(1, 1, 0), (2, 1, 1), (2, 2, 2)],
                               note="state, bounds and direction havoc'd at the start of the step-length rule"),
                  residual=dict(n=[2], m=[1, 2]),
                  response=dict(layouts=["a3", "s-a2", "a2-s-a1", "s-s", "a2-a2"],
                                bound_specs=["scalar", "per-signal list", "per-variable array"], maxit=[1, 2])),
    "thorough": dict(mmasub=dict(n=[2, 3, 4], m=[1, 2], versions=["Svanberg1987", "Svanberg2007"],
                                 histories=["first", "second", "general"], move=["scalar", "per-variable vector"],
                                 asybound=["10.0", "symbolic >= 1"]),
                     subsolv=dict(n=[1, 2, 3], m=[1, 2, 3], newton_iterations=1, line_search_trials=6, init_n=[1, 2, 3],
                                  first_step=[(1, 1, 0), (2, 1, 1), (2, 2, 2), (3, 2, 3), (3, 1, 4)],
                                  note="as quick"),
                     residual=dict(n=[2, 3], m=[1, 2]),
                     response=dict(layouts=["a3", "s-a2", "a2-s-a1", "s-s", "a2-a2", "s-a3-s", "a1-a2-a2"],
                                   bound_specs=["scalar", "per-signal list", "per-variable array"], maxit=[1, 2])),
}
OUTSIDE = [
    "that the Newton iteration of subsolv converges / reaches the requested optimality accuracy epsimin (data-dependent trip "
    "count of a floating-point iteration): NOT decided by the solver; six `subsolv-kkt-concrete-*` regression items run the "
    "real subsolv on fixed data and compare the returned point with the optimality conditions (evidence kind "
    "`concrete-regression`, not a solver verdict)",
    "convergence of the outer MMA iteration to the optimum of convex problems and final constraint satisfaction: NOT decided",
    "the Newton direction itself (assembly of AA, bb, back-substitution): the interior invariant is proved for an ARBITRARY "
    "direction, which covers the computed one; that the direction is a descent/Newton direction is not checked",
    "more than one Newton iteration / more line-search halvings than the bound in one symbolic run (the step is inductive: "
    "start state and direction are arbitrary, so any iteration count is covered as long as every step starts inside)",
    "subsolv's own initialisation (x0 clipping with 1e-10 margins) for beta - alfa <= 2e-10 (the start point is then not interior)",
    "the Newton step with the computed direction on fully symbolic problem data (measured: undecided within the time-out); "
    "the `subsolv-first-*` items run it on exact concrete data only",
    "n, m and signal layouts beyond the bounds; m = 0 (no constraints); (b) with n = 4 was tried and is not decided by z3 "
    "within the time-outs (the clauses are index-wise identical to n <= 3)",
    "the additive constant of the objective approximation (rhs[0] is not handed to the sub-solver): only its gradient is checked",
    "verbosity >= 1 printing, fn_callback side effects, complex or non-scalar responses (TypeError paths)",
    "IEEE rounding, overflow, NaN",
]
ASSUMPTIONS = [
    "float64 arithmetic modelled as exact real arithmetic; float literals read as their shortest decimal",
    "admissible MMA state: xmin < xmax, xmin <= xval <= xmax, offset in [1/asybound^2, asybound], 0 < albefa < 1, asyincr > 1, "
    "0 < asydecr < 1, move > 0, asybound >= 1, asyinit in [1/asybound^2, asybound] (first iterations use offset = asyinit)",
    "subsolv contract used in (a): returns any x with alfa <= x <= beta (b shows the open interval for every Newton step)",
    "(b) is an induction: base case (subsolv_init) + step (subsolv) => every iterate is interior, PROVIDED the Newton "
    "assembly does not raise (singular AA -> LinAlgError) - the assembly only reads the iterate (checked on the concrete run)",
    "(c): objective value non-zero (|df|/|f| is computed), tolf <= 0 and tolx = 0 so that both iterations run",
    "interior state used in (b): alfa < x < beta, y, z, lam, xsi, eta, mu, zet, s > 0; residual norms of the line search "
    "are arbitrary non-negative numbers (over-approximates the accept/halve decisions)",
]
ITEM_TIMEOUT = {"quick": 240, "thorough": 900}


# ================================================================================================ items
def items(tier):
    b = BOUNDS[tier]
    out = []
    ma = b["mmasub"]
    for n in ma["n"]:
        for m in ma["m"]:
            for ver in ma["versions"]:
                for hist in ("first", "second", "general"):
                    # rotate the two remaining option dimensions deterministically, cover all of them for n == 2
                    combos = [("scalar", False), ("vector", True)] if n > 2 else [("scalar", False), ("vector", False),
                                                                                     ("scalar", True), ("vector", True)]
                    if tier == "quick" and n == 3 and m == 2 and hist == "general":
                        combos = combos[:1] if ver.endswith("1987") else combos[1:]
                    for mv, ab in combos:
                        out.append(dict(kind="mmasub", id="mmasub-n%d-m%d-%s-%s-%s-%s" % (n, m, ver[-4:], hist, mv,
                                                                                         "absym" if ab else "ab10"),
                                        n=n, m=m, version=ver, hist=hist, move=mv, absym=ab))
    sb = b["subsolv"]
    for n in sb["n"]:
        for m in sb["m"]:
            out.append(dict(kind="subsolv", id="subsolv-n%d-m%d-K%d" % (n, m, sb["line_search_trials"]), n=n, m=m,
                            trials=sb["line_search_trials"]))
    for n, m, dv in sb["first_step"]:
        out.append(dict(kind="subsolv", id="subsolv-first-n%d-m%d-d%d" % (n, m, dv), n=n, m=m, trials=sb["line_search_trials"],
                        mode="first", data=dv))
    for n in sb["init_n"]:
        for x0 in (False, True):
            out.append(dict(kind="subsolv_init", id="subsolv-init-n%d-m%d-%s" % (n, min(n, 2), "x0" if x0 else "nox0"), n=n,
                            m=min(n, 2), x0=x0))
    for n in b["residual"]["n"]:
        for m in b["residual"]["m"]:
            out.append(dict(kind="residual", id="residual-n%d-m%d" % (n, m), n=n, m=m))
    # concrete regression items (fixed data, real subsolv): optimality conditions of the returned point
    for (n, m, dv, eps) in [(2, 1, 1, "1e-7"), (3, 2, 1, "1e-7"), (3, 2, 2, "1e-9"), (4, 2, 3, "1e-7"), (5, 3, 2, "1e-8"), (2, 2, 0, "1e-7")]:
        out.append(dict(kind="subsolv_kkt", id="subsolv-kkt-concrete-n%d-m%d-d%d-eps%s" % (n, m, dv, eps), n=n, m=m, data=dv, epsimin=eps))
    specs = ["scalar", "signal", "variable"]
    for li, lay in enumerate(b["response"]["layouts"]):
        for si in range(3):
            # all three given the same way, plus one rotated mix per layout
            out.append(dict(kind="response", id="response-%s-%s-it2" % (lay, specs[si]), layout=lay, spec=[specs[si]] * 3,
                            maxit=2))
        if li < 2:
            out.append(dict(kind="response", id="response-%s-scalar-it2-prealloc" % lay, layout=lay, spec=["scalar"] * 3, maxit=2,
                            prealloc=True))
            out.append(dict(kind="response", id="response-%s-scalar-it2-deep" % lay, layout=lay, spec=["scalar"] * 3, maxit=2, deep=True))
            out.append(dict(kind="response", id="response-%s-scalar-it2-callback-reassigns" % lay, layout=lay, spec=["scalar"] * 3,
                            maxit=2, cb_reassign=True))
        mix = [specs[(li + k) % 3] for k in range(3)]
        out.append(dict(kind="response", id="response-%s-mix-%s-it1" % (lay, "".join(x[0] for x in mix)), layout=lay,
                        spec=mix, maxit=1))
    return out


# ================================================================================================ helpers
def _constrain(cond):
    """Path-scoped contract constraint on oracle outputs (cf. symx.oracles.add_constraint_eq)."""
    c = _ctx.current()
    if isinstance(cond, SB):
        c.defined.append(cond.t)
    elif cond is False or cond is np.False_:
        raise _ctx.PathAbort("oracle contract unsatisfiable")


def _subst(r, pairs):
    """r with fresh symbols replaced: pairs = [(z3 const, z3 term)]; denominators are re-normalised by division."""
    r = R.of(r)
    if r.q is not None:
        return r
    out = R(n=z3.substitute(r.n, *pairs), d=())
    for k, mult in r.d:
        f = R(n=z3.substitute(_factor_terms[k], *pairs), d=())
        for _ in range(mult):
            out = out / f
    return out


def _arr(a):
    return np.array(a, dtype=object, copy=True) if isinstance(a, np.ndarray) and a.dtype == object else np.array(a, copy=True)


def _flt(a):
    return np.asarray(a, dtype=float)



class _NeverSmaller:
    """Tolerance for which `value < tol` is False for every value (stands for any tol <= 0 against |.|/|.|)."""
    def __gt__(self, other):
        return False

    def __lt__(self, other):
        return True


class _Dummy:
    """Stand-in for the function network where MMA only stores it."""
    def reset(self):
        pass

    def response(self):
        pass

    def sensitivity(self):
        pass


# ================================================================================================ (a) mmasub
def _mmasub_setup(V, cfg):
    """Build an MMA object with the real constructor and put it into an arbitrary admissible state."""
    import pymoto as pym
    n, m, hist = cfg["n"], cfg["m"], cfg["hist"]
    xmin = V.reals("xmin", n)
    w = V.reals("w", n, positive=True, default=1.0)
    xmax = xmin + w
    xval = V.reals("xval", n)
    if V.symbolic:
        for j in range(n):
            V.assume(xmin[j] <= xval[j])
            V.assume(xval[j] <= xmax[j])
    if cfg["absym"]:
        ab = V.real("asybound", lo=1, default=4.0)
    else:
        ab = V.const(10)
    lo_off = 1 / (ab * ab)
    if cfg["move"] == "scalar":
        move = V.real("move", positive=True, default=0.25)
        movev = [move] * n
    else:
        move = V.reals("movev", n, positive=True, default=0.25)
        movev = list(move)
    albefa = V.real("albefa", positive=True, default=0.125)
    asyinit = V.real("asyinit", positive=True, default=0.5)
    asyincr = V.real("asyincr", positive=True, default=1.25)
    asydecr = V.real("asydecr", positive=True, default=0.75)
    if V.symbolic:
        V.assume(albefa < 1)
        V.assume(asyincr > 1)
        V.assume(asydecr < 1)
        V.assume(asyinit >= lo_off)
        V.assume(asyinit <= ab)
    g = V.reals("g", m + 1)
    dg = V.reals("dg", (m + 1, n))
    var = pym.Signal("x", xval.copy())
    resp = [pym.Signal("g%d" % i) for i in range(m + 1)]
    mma = pym.MMA(_Dummy(), [var], resp, move=move, xmin=xmin, xmax=xmax, verbosity=0, albefa=albefa, asyinit=asyinit,
                  asyincr=asyincr, asydecr=asydecr, asybound=ab, mmaversion=cfg["version"])
    mma.n = n
    mma.cumlens = np.array([0, n])
    offset0 = xold1 = xold2 = None
    if hist != "first":
        offset0 = V.reals("offset", n, positive=True, default=0.5)
        if V.symbolic:
            for j in range(n):
                V.assume(offset0[j] >= lo_off)
                V.assume(offset0[j] <= ab)
        mma.offset = offset0.copy()
        mma.dx = xmax - xmin
        xold1 = V.reals("xold1", n)
        mma.xold1 = xold1.copy()
        if hist == "general":
            xold2 = V.reals("xold2", n)
            mma.xold2 = xold2.copy()
    return dict(mma=mma, xmin=xmin, xmax=xmax, w=w, xval=xval, ab=ab, lo_off=lo_off, movev=movev, g=g, dg=dg,
                offset0=offset0, xold1=xold1, xold2=xold2, asyinit=asyinit, asyincr=asyincr, asydecr=asydecr)


def _run_mmasub(V, cfg, st, use_real_subsolv=False):
    """Call the real mmasub with pymoto.common.mma.subsolv replaced by a recording contract stub."""
    from pymoto.common import mma as mm
    n, m = cfg["n"], cfg["m"]
    rec = {}
    real_subsolv = mm.subsolv

    def stub(epsimin, low, upp, alfa, beta, P, Q, a0, a, b, c, d, x0=None):
        rec.update(low=_arr(low), upp=_arr(upp), alfa=_arr(alfa), beta=_arr(beta), P=_arr(P), Q=_arr(Q), b=_arr(b),
                   x0=_arr(x0), ncalls=rec.get("ncalls", 0) + 1, a0=a0, a=_arr(a), c=_arr(c), d=_arr(d))
        if V.symbolic:
            _ctx.current().stubs.add("pymoto.common.mma.subsolv (contract stub: returns any x with alfa <= x <= beta)")
        x = V.reals("xs", n)
        if V.symbolic:
            for j in range(n):
                _constrain(alfa[j] <= x[j])
                _constrain(x[j] <= beta[j])
        else:
            x = np.minimum(np.maximum(x, _flt(alfa)), _flt(beta))    # the contract, whatever rounding did to the model
        mm_ = len(a)
        one = np.ones(mm_)
        return x, one.copy(), 1.0, one.copy(), np.ones(n), np.ones(n), one.copy(), 1.0, one.copy()

    def recorder(epsimin, low, upp, alfa, beta, P, Q, a0, a, b, c, d, x0=None):
        rec.update(low=_arr(low), upp=_arr(upp), alfa=_arr(alfa), beta=_arr(beta), P=_arr(P), Q=_arr(Q), b=_arr(b),
                   x0=_arr(x0), ncalls=rec.get("ncalls", 0) + 1, a0=a0, a=_arr(a), c=_arr(c), d=_arr(d))
        return real_subsolv(epsimin, low, upp, alfa, beta, P, Q, a0, a, b, c, d, x0=x0)

    mm.subsolv = recorder if use_real_subsolv else stub
    try:
        xnew, change = st["mma"].mmasub(st["xval"].copy(), st["g"], st["dg"])
    finally:
        mm.subsolv = real_subsolv
    rec["xnew"] = xnew
    rec["change"] = change
    return rec


def _approx(Pm, Qm, low, upp, b, i, x):
    """f_i(x) = sum_j P_ij/(upp_j - x_j) + Q_ij/(x_j - low_j) - rhs_i  (rhs_i = b_{i-1}; not available for i = 0)."""
    t = 0
    for j in range(len(x)):
        t = t + Pm[i, j] / (upp[j] - x[j]) + Qm[i, j] / (x[j] - low[j])
    return t - b[i - 1] if i >= 1 else t


def sc_mmasub(V, P, cfg):
    n, m = cfg["n"], cfg["m"]
    st = _mmasub_setup(V, cfg)
    mma = st["mma"]
    rec = _run_mmasub(V, cfg, st)
    low, upp, alfa, beta, Pm, Qm, b = (rec[k] for k in ("low", "upp", "alfa", "beta", "P", "Q", "b"))
    xnew, xval, xmin, xmax, w = rec["xnew"], st["xval"], st["xmin"], st["xmax"], st["w"]
    obs = dict(low=low, upp=upp, alfa=alfa, beta=beta, P=Pm, Q=Qm, b=b, offset=mma.offset, xnew=xnew, change=rec["change"],
               xold1=mma.xold1, xold2=mma.xold2, dx=mma.dx, gold1=mma.gold1)
    cl = Clauses()
    cl.true("subsolv-called-once", rec.get("ncalls") == 1, "plumbing")
    cl.arr_eq("x0==xval", rec["x0"], xval, "plumbing")
    cl.arr_eq("low-arg==self.low", low, mma.low, "plumbing")
    cl.arr_eq("upp-arg==self.upp", upp, mma.upp, "plumbing")
    # the constants of the sub-problem (a0 z + sum c_i y_i + d_i y_i^2 / 2) reach the solver in their own slots
    if "c" in rec:
        cl.eq("a0-arg==self.a0", rec["a0"], mma.a0, "plumbing")
        cl.arr_eq("a-arg==self.a", rec["a"], np.asarray(mma.a), "plumbing")
        cl.arr_eq("c-arg==self.c", rec["c"], np.asarray(mma.c), "plumbing")
        cl.arr_eq("d-arg==self.d", rec["d"], np.asarray(mma.d), "plumbing")
    shapes_ok = np.shape(Pm) == (m + 1, n) and np.shape(Qm) == (m + 1, n) and np.shape(b) == (m,) and np.shape(xnew) == (n,)
    cl.true("P.shape", shapes_ok, "plumbing")
    if shapes_ok:
        for j in range(n):
            cl.lt("low<alfa[%d]" % j, low[j], alfa[j], "enclosure")
            cl.le("alfa<=xval[%d]" % j, alfa[j], xval[j], "enclosure")
            cl.le("xval<=beta[%d]" % j, xval[j], beta[j], "enclosure")
            cl.lt("beta<upp[%d]" % j, beta[j], upp[j], "enclosure")
            cl.le("xmin<=alfa[%d]" % j, xmin[j], alfa[j], "bounds")
            cl.le("beta<=xmax[%d]" % j, beta[j], xmax[j], "bounds")
            cl.le("xmin<=xnew[%d]" % j, xmin[j], xnew[j], "bounds")
            cl.le("xnew<=xmax[%d]" % j, xnew[j], xmax[j], "bounds")
            lim = st["movev"][j] * (xmax[j] - xmin[j])
            cl.le("xnew-xval<=move*dx[%d]" % j, xnew[j] - xval[j], lim, "move-limit")
            cl.le("xval-xnew<=move*dx[%d]" % j, xval[j] - xnew[j], lim, "move-limit")
            cl.le("offset>=1/asybound^2[%d]" % j, st["lo_off"], mma.offset[j], "offset-clip")
            cl.le("offset<=asybound[%d]" % j, mma.offset[j], st["ab"], "offset-clip")
            # Svanberg's rule with the parameters the USER passed: widen by asyincr while a variable moves monotonically,
            # tighten by asydecr when it oscillates, keep otherwise; then clip.  First two iterations: offset = asyinit.
            if st["offset0"] is None:
                want_off = st["asyinit"]
            elif st["xold2"] is None:
                want_off = st["offset0"][j]
            else:
                zz = (xval[j] - st["xold1"][j]) * (st["xold1"][j] - st["xold2"][j])
                fac = _ite(zz > 0, st["asyincr"], _ite(zz < 0, st["asydecr"], 1))
                want_off = _clipv(st["offset0"][j] * fac, st["lo_off"], st["ab"])
            cl.eq("offset==rule(user asyincr/asydecr)[%d]" % j, mma.offset[j], want_off, "asymptote-rule")
            cl.eq("low==xval-offset*dx[%d]" % j, low[j], xval[j] - want_off * w[j], "asymptote-rule")
            cl.eq("upp==xval+offset*dx[%d]" % j, upp[j], xval[j] + want_off * w[j], "asymptote-rule")
        for i in range(m + 1):
            for j in range(n):
                cl.le("P>=0[%d,%d]" % (i, j), 0, Pm[i, j], "PQ-nonneg")
                cl.le("Q>=0[%d,%d]" % (i, j), 0, Qm[i, j], "PQ-nonneg")
        # history bookkeeping (inductive: the next step starts from an admissible state again)
        cl.arr_eq("xold1'==xval", mma.xold1, xval, "history")
        if st["xold1"] is None:
            cl.true("xold2'==None", mma.xold2 is None, "history")
        else:
            cl.arr_eq("xold2'==xold1", mma.xold2, st["xold1"], "history")
        cl.arr_eq("dx==xmax-xmin", mma.dx, w, "history")
        # the approximation handed to the sub-solver reproduces value and gradient at xval
        if V.symbolic:
            xq = [sym("xq_%d" % j) for j in range(n)]
            pairs = [(xq[j].n, R.of(xval[j]).n) for j in range(n)]
        for i in range(m + 1):
            if i >= 1:
                sc = 0.0 if V.symbolic else float(abs(b[i - 1]) + sum(abs(Pm[i, j] / (upp[j] - xval[j])) + abs(Qm[i, j] / (xval[j] - low[j]))
                                                                      for j in range(n)))
                cl.eq("f%d(xval)==g%d" % (i, i), _approx(Pm, Qm, low, upp, b, i, xval), st["g"][i], "approx-value", scale=sc)
            if V.symbolic:
                fi = _approx(Pm, Qm, low, upp, b, i, xq)
            for j in range(n):
                if V.symbolic:
                    d = _subst(diffz3.diff(fi, xq[j]), pairs)         # exact derivative of OUR f_i, then x := xval
                    sc = 0.0
                else:                                                 # replay: the derivative of OUR f_i by the calculus rules
                    tp, tq = Pm[i, j] / (upp[j] - xval[j]) ** 2, Qm[i, j] / (xval[j] - low[j]) ** 2
                    d, sc = tp - tq, abs(tp) + abs(tq)
                cl.eq("df%d/dx%d(xval)==dg" % (i, j), d, st["dg"][i, j], "approx-gradient", scale=sc)
    if P is None:
        obs["_clauses"] = cl
        return obs
    cl.discharge(P)
    return obs


def _ite(cond, a, b):
    if isinstance(cond, SB):
        from symx.scalars import ite
        return ite(cond, R.of(a), R.of(b))
    return a if cond else b


def _clipv(v, lo, hi):
    return _ite(v < lo, lo, _ite(v > hi, hi, v))


# ================================================================================================ (b) subsolv
class _Stop(BaseException):
    """Ends the exploration of one path at a stated bound (obligations collected so far are kept)."""


def _find_line(fn, marker):
    import inspect
    src, first = inspect.getsourcelines(fn)
    hits = [first + i for i, ln in enumerate(src) if marker in ln]
    if len(hits) != 1:
        raise RuntimeError("C10: marker %r found %d times in %s (source changed: adapt the harness)" % (marker, len(hits), fn.__name__))
    return hits[0]


def _atom(e):
    """Definitional symbol for a fraction (v * den == num): keeps max/min free of merged denominators."""
    from symx import axioms
    if isinstance(e, R) and e.q is None and e.d:
        return R(n=axioms.as_term(e), d=())
    return e


def _flat_extremum(vals, is_max):
    """max / min of scalars as a definitional symbol v with the flat characterisation
    (v >= every a_i  and  v == some a_i), path scoped; the nested If-term is kept as its definition for evaluation."""
    from symx.npshim import _max2, _min2
    vals = [_atom(v) for v in vals]
    if not any(isinstance(v, R) and v.q is None for v in vals):
        return max(vals) if is_max else min(vals)
    if len(vals) == 1:
        return vals[0]
    c = _ctx.current()
    tree = vals[0]
    for v in vals[1:]:
        tree = (_max2 if is_max else _min2)(tree, v)
    v = z3.Real(c.fresh_name("ext"))
    c._keep.append(v)
    ts = [R.of(a).n for a in vals]
    c.defined.append(z3.And(*[(v >= t) if is_max else (v <= t) for t in ts]))
    c.defined.append(z3.Or(*[v == t for t in ts]))
    if not hasattr(c, "_uf_defs"):
        c._uf_defs = {}
    c._uf_defs[v.get_id()] = R.of(tree)
    if is_max and any(R.of(a).q is not None and R.of(a).q > 0 for a in vals):
        c.mark_positive(v)          # v >= a positive constant (constraint above)
    return R(n=v, d=())


def _sym_max(*args):
    """Stand-in for the builtin max inside pymoto.common.mma: no forks."""
    vals = list(args[0]) if len(args) == 1 else list(args)
    return _flat_extremum(vals, True)


class _NPX:
    """numpy stand-in for pymoto.common.mma during (b): symx.npshim.NP with min/max over atomised entries and an
    unconstrained np.linalg.solve."""

    def __init__(self, base, solve):
        self._base = base
        self._solve = solve

    def __getattr__(self, name):
        base = self._base
        if name == "linalg":
            outer = self

            class _L:
                def __getattr__(self, nm):
                    if nm == "solve":
                        return outer._solve
                    return getattr(base.linalg, nm)
            return _L()
        if name in ("min", "max"):
            f = getattr(base, name)

            def g(a, *args, **kw):
                if isinstance(a, np.ndarray) and a.dtype == object and not args and not kw:
                    return _flat_extremum(list(a.flat), name == "max")
                return f(a, *args, **kw)
            return g
        return getattr(base, name)


_STATE_VEC = ("x", "y", "lam", "xsi", "eta", "mu", "s")


def _subsolv_data(n, m, exact=None, variant=0):
    """Concrete (dyadic) sub-problem data; exact=True: object arrays of exact constants so that symbolic values can be
    stored into the arrays derived from them."""
    d = dict(low=-np.ones(n), upp=2 * np.ones(n), alfa=np.zeros(n), beta=np.ones(n), P=np.ones((m + 1, n)),
             Q=np.ones((m + 1, n)), a0=1.0, a=np.zeros(m), b=np.ones(m), c=1000.0 * np.ones(m), d=np.ones(m))
    if variant:
        for i in range(m + 1):
            for j in range(n):
                d["P"][i, j] = 1 + (i + 2 * j) / 4.0
                d["Q"][i, j] = 0.5 + ((2 * i + j + variant) % 5) / 4.0
        d["alfa"] = np.array([j / 4.0 for j in range(n)])
        d["beta"] = d["alfa"] + np.array([1.0 + ((j + variant) % 2) / 2.0 for j in range(n)])
        d["low"], d["upp"] = d["alfa"] - 0.5, d["beta"] + 0.75
        d["a"] = np.array([(i % 2) / 2.0 for i in range(m)])
        d["c"] = np.array([8.0 + 4 * i for i in range(m)])
    if exact:
        for k, v in d.items():
            if isinstance(v, np.ndarray):
                o = np.empty(v.shape, dtype=object)
                for i in np.ndindex(*v.shape):
                    o[i] = R(q=Fraction(float(v[i])))
                d[k] = o.view(SymArray)
    return d


def _run_subsolv(V, cfg):
    """Real subsolv; at the first statement of the step-length rule of the first Newton iteration the local state, the
    bounds and the direction are replaced by arbitrary interior values (trace function, no source edit)."""
    from pymoto.common import mma as mm
    n, m, K = cfg["n"], cfg["m"], cfg["trials"]
    first = cfg.get("mode") == "first"     # no havoc: subsolv's own start state, real assembly, arbitrary (dlam, dz)
    code = mm.subsolv.__code__
    cut = _find_line(mm.subsolv, "stmy =")
    head = _find_line(mm.subsolv, "ittt = ittt + 1")
    st = dict(cuts=0, heads=0, calls=0, trials=[], hav=None, stop=None, ret=None, init=None, pure=None)
    real_residual = mm.residual

    def havoc(loc):
        alfa = V.reals("h_alfa", n)
        p = V.reals("h_p", n, positive=True, default=0.5)
        q = V.reals("h_q", n, positive=True, default=0.5)
        x = alfa + p
        beta = x + q
        low = alfa - V.reals("h_lgap", n, positive=True, default=1.0)
        upp = beta + V.reals("h_ugap", n, positive=True, default=1.0)
        h = dict(alfa=alfa, beta=beta, low=low, upp=upp, x=x)
        for nm in ("y", "lam", "mu", "s"):
            h[nm] = V.reals("h_" + nm, m, positive=True, default=1.0)
        for nm in ("xsi", "eta"):
            h[nm] = V.reals("h_" + nm, n, positive=True, default=1.0)
        h["z"] = V.real("h_z", positive=True, default=1.0)
        h["zet"] = V.real("h_zet", positive=True, default=1.0)
        for nm, k in (("dx", n), ("dy", m), ("dlam", m), ("dxsi", n), ("deta", n), ("dmu", m), ("ds", m)):
            h[nm] = V.reals("h_" + nm, k)
        h["dz"] = V.real("h_dz")
        h["dzet"] = V.real("h_dzet")
        rn = V.real("h_rnorm", lo=0, default=2.0)
        if V.symbolic:
            from symx.scalars import NormVal
            h["residunorm"] = NormVal.make(rn * rn, [rn])
        else:
            h["residunorm"] = rn
        st["hav"] = {k: (_arr(v) if isinstance(v, np.ndarray) else v) for k, v in h.items()}
        return h

    def local_tracer(frame, event, arg):
        if event == "line":
            if frame.f_lineno == head:
                st["heads"] += 1
                if st["heads"] == 2:
                    st["stop"] = "second Newton iteration"
                    raise _Stop()
            elif frame.f_lineno == cut and st["cuts"] == 0:
                st["cuts"] = 1
                loc = frame.f_locals
                if st["init"] is not None:      # the Newton assembly must not have touched the iterate
                    st["pure"] = all(np.array_equal(np.asarray(loc[k], dtype=float), np.asarray(st["init"][k], dtype=float))
                                     for k in _STATE_VEC + ("z", "zet"))
                if first:
                    st["hav"] = dict(alfa=_arr(loc["alfa"]), beta=_arr(loc["beta"]))
                else:
                    frame.f_locals.update(havoc(loc))
        return local_tracer

    def tracer(frame, event, arg):
        if event == "call" and frame.f_code is code:
            return local_tracer
        return None

    def residual_wrapper(x, y, z, lam, xsi, eta, mu, zet, s, *rest):
        st["calls"] += 1
        if st["cuts"] == 0:     # initial residual of subsolv's own (concrete) start state
            st["init"] = dict(x=_arr(x), y=_arr(y), z=z, lam=_arr(lam), xsi=_arr(xsi), eta=_arr(eta), mu=_arr(mu), zet=zet,
                              s=_arr(s))
            return np.asarray(real_residual(x, y, z, lam, xsi, eta, mu, zet, s, *rest), dtype=float)
        res = np.zeros(3 * len(x) + 4 * len(y) + 2)
        t = len(st["trials"]) + 1
        if t > K:
            st["stop"] = "line-search trial bound"
            raise _Stop()
        st["trials"].append(dict(x=_arr(x), y=_arr(y), z=z, lam=_arr(lam), xsi=_arr(xsi), eta=_arr(eta), mu=_arr(mu),
                                 zet=zet, s=_arr(s), alfa=_arr(rest[-2]), beta=_arr(rest[-1])))
        # arbitrary residual norm for the accept / halve decision and the loop tests (over-approximation)
        rk = V.real("h_r%d" % t, lo=0, default=1.0)
        out = np.zeros(len(res), dtype=object if V.symbolic else float)
        out[0] = rk
        return out.view(SymArray) if V.symbolic else out

    def solve(A, b):
        if first:       # arbitrary (dlam, dz): covers whatever the linear solve returns
            st["nsolve"] = st.get("nsolve", 0) + 1
            return V.reals("sol%d" % st["nsolve"], len(b))
        return np.linalg.solve(np.asarray(A, dtype=float), np.asarray(b, dtype=float))

    saved = {}
    if V.symbolic:
        c = _ctx.current()
        if first:
            c.stubs.add("numpy.linalg.solve inside subsolv ('first-step' items): arbitrary unconstrained (dlam, dz)")
        else:
            c.stubs.add("subsolv: local state / bounds / Newton direction replaced by arbitrary interior values at the "
                        "first statement of the step-length rule (trace-function havoc)")
        c.stubs.add("pymoto.common.mma.residual during the line search: executed, result replaced by an arbitrary "
                    "non-negative norm (over-approximates accept/halve)")
        c.stubs.add("builtin max inside pymoto.common.mma -> If-terms")
        saved["np"] = mm.np
        mm.np = _NPX(mm.np, solve)
        saved["max"] = mm.__dict__.get("max", _Stop)
        mm.__dict__["max"] = _sym_max
    mm.residual = residual_wrapper
    d = _subsolv_data(n, m, exact=V.symbolic if first else None, variant=cfg.get("data", 0))
    if first and not V.symbolic:
        class _L:
            def __getattr__(self, nm):
                return solve if nm == "solve" else getattr(np.linalg, nm)
        class _N:
            linalg = _L()
            def __getattr__(self, nm):
                return getattr(np, nm)
        saved["np"] = mm.np
        mm.np = _N()
    old_trace = sys.gettrace()
    sys.settrace(tracer)
    try:
        st["ret"] = mm.subsolv(0.5, d["low"], d["upp"], d["alfa"], d["beta"], d["P"], d["Q"], d["a0"], d["a"], d["b"],
                               d["c"], d["d"], x0=None)
    except _Stop:
        pass
    finally:
        sys.settrace(old_trace)
        mm.residual = real_residual
        if "np" in saved:
            mm.np = saved["np"]
        if "max" in saved:
            if saved["max"] is _Stop:
                mm.__dict__.pop("max", None)
            else:
                mm.__dict__["max"] = saved["max"]
    return st


def _interior_clauses(tr):
    """[(label, lhs, rhs)] meaning lhs < rhs, for one recorded state."""
    out = []
    for j in range(len(tr["x"])):
        out.append(("alfa<x[%d]" % j, tr["alfa"][j], tr["x"][j]))
        out.append(("x<beta[%d]" % j, tr["x"][j], tr["beta"][j]))
        out.append(("xsi>0[%d]" % j, 0, tr["xsi"][j]))
        out.append(("eta>0[%d]" % j, 0, tr["eta"][j]))
    for i in range(len(tr["y"])):
        for nm in ("y", "lam", "mu", "s"):
            out.append(("%s>0[%d]" % (nm, i), 0, tr[nm][i]))
    out.append(("z>0", 0, tr["z"]))
    out.append(("zet>0", 0, tr["zet"]))
    return out


def sc_subsolv(V, P, cfg):
    st = _run_subsolv(V, cfg)
    obs = dict(ntrials=len(st["trials"]), returned=int(st["ret"] is not None))
    for t, tr in enumerate(st["trials"]):
        for k in _STATE_VEC + ("z", "zet"):
            obs["t%d_%s" % (t, k)] = tr[k]
    cl = Clauses()
    cl.true("havoc-point-reached", st["cuts"] == 1, "reach")
    cl.true("at-least-one-trial", len(st["trials"]) >= 1, "reach")
    cl.true("newton-assembly-leaves-the-iterate-untouched", st["pure"] is True, "reach")
    hv = st["hav"]
    for t, tr in enumerate(st["trials"]):
        cl.arr_eq("t%d:alfa-unchanged" % t, tr["alfa"], hv["alfa"], "bounds-unchanged")
        cl.arr_eq("t%d:beta-unchanged" % t, tr["beta"], hv["beta"], "bounds-unchanged")
        for lab, lo, hi in _interior_clauses(tr):
            cl.lt("t%d:%s" % (t, lab), lo, hi, "interior")
    if st["ret"] is not None and st["trials"]:
        last = st["trials"][-1]
        names = ("x", "y", "z", "lam", "xsi", "eta", "mu", "zet", "s")
        cl.true("returns-9-tuple", len(st["ret"]) == 9, "return")
        for nm, val in zip(names, st["ret"]):
            if isinstance(val, np.ndarray):
                cl.arr_eq("return.%s==last-accepted" % nm, val, last[nm], "return")
            else:
                cl.eq("return.%s==last-accepted" % nm, val, last[nm], "return")
    if P is None:
        obs["_clauses"] = cl
        return obs
    if st["stop"]:
        _ctx.current().notes.append("bound reached on a path: " + st["stop"])
    cl.discharge(P)
    return obs


def sc_subsolv_init(V, P, cfg):
    """Base case of the interior invariant: the state subsolv builds for itself (x0 given / not given) is interior."""
    from pymoto.common import mma as mm
    n, m = cfg["n"], cfg["m"]
    alfa = V.reals("alfa", n)
    gap = V.reals("gap", n, positive=True, default=1.0)
    if V.symbolic:
        for j in range(n):
            V.assume(gap[j] > R.of("2e-10"), "beta - alfa > 2e-10 (the clipping margins of subsolv's start point)")
    beta = alfa + gap
    d = _subsolv_data(n, m)
    low, upp = alfa - 1, beta + 1
    c = V.reals("c", m, default=1000.0)
    x0 = V.reals("x0", n) if cfg["x0"] else None
    seen = {}
    real_residual = mm.residual

    def residual_wrapper(x, y, z, lam, xsi, eta, mu, zet, s, *rest):
        seen.update(x=_arr(x), y=_arr(y), z=z, lam=_arr(lam), xsi=_arr(xsi), eta=_arr(eta), mu=_arr(mu), zet=zet, s=_arr(s),
                    alfa=_arr(rest[-2]), beta=_arr(rest[-1]))
        raise _Stop()

    mm.residual = residual_wrapper
    try:
        mm.subsolv(0.5, low, upp, alfa, beta, d["P"], d["Q"], d["a0"], d["a"], d["b"], c, d["d"], x0=x0)
    except _Stop:
        pass
    finally:
        mm.residual = real_residual
    obs = {k: v for k, v in seen.items()}
    cl = Clauses()
    cl.true("initial-state-observed", bool(seen), "reach")
    if seen:
        cl.arr_eq("alfa-arg", seen["alfa"], alfa, "reach")
        cl.arr_eq("beta-arg", seen["beta"], beta, "reach")
        for lab, lo, hi in _interior_clauses(dict(seen, alfa=alfa, beta=beta)):
            cl.lt("init:" + lab, lo, hi, "interior-base")
    if P is None:
        obs["_clauses"] = cl
        return obs
    cl.discharge(P)
    return obs


# ================================================================================================ residual
def sc_residual(V, P, cfg):
    """residual() against the KKT conditions of the documented sub-problem, derived here by differentiating the
    Lagrangian with diffz3."""
    from pymoto.common import mma as mm
    n, m = cfg["n"], cfg["m"]
    x = V.reals("x", n)
    low = V.reals("low", n)
    upp = V.reals("upp", n)
    alfa, beta = V.reals("alfa", n), V.reals("beta", n)
    if V.symbolic:
        for j in range(n):
            V.assume(low[j] < x[j])
            V.assume(x[j] < upp[j])
    y, lam, mu, s = (V.reals(nm, m) for nm in ("y", "lam", "mu", "s"))
    xsi, eta = V.reals("xsi", n), V.reals("eta", n)
    z, zet, epsi, a0 = V.real("z"), V.real("zet"), V.real("epsi"), V.real("a0")
    a, b, c, d = (V.reals(nm, m) for nm in ("a", "b", "c", "d"))
    Pm, Qm = V.reals("P", (m + 1, n)), V.reals("Q", (m + 1, n))
    res = mm.residual(x.copy(), y.copy(), z, lam.copy(), xsi.copy(), eta.copy(), mu.copy(), zet, s.copy(), upp, low,
                      Pm[0, :], Pm[1:, :], Qm[0, :], Qm[1:, :], epsi, a0, a, b, c, d, alfa, beta)
    obs = dict(res=res)
    cl = Clauses()
    cl.true("residual-length", np.shape(res) == (3 * n + 4 * m + 2,), "kkt-residual")

    def f(i, xv):
        t = 0
        for j in range(n):
            t = t + Pm[i, j] / (upp[j] - xv[j]) + Qm[i, j] / (xv[j] - low[j])
        return t

    def lagr(xv, yv, zv):
        L = f(0, xv) + a0 * zv
        for i in range(m):
            L = L + c[i] * yv[i] + d[i] * yv[i] * yv[i] / 2 + lam[i] * (f(i + 1, xv) - a[i] * zv - yv[i] - b[i]) - mu[i] * yv[i]
        for j in range(n):
            L = L + xsi[j] * (alfa[j] - xv[j]) + eta[j] * (xv[j] - beta[j])
        return L - zet * zv

    if V.symbolic:
        L = lagr(x, y, z)
        ref = [diffz3.diff(L, x[j]) for j in range(n)] + [diffz3.diff(L, y[i]) for i in range(m)] + [diffz3.diff(L, z)]
    else:       # replay: central differences of the same Lagrangian
        ref = []
        for j in range(n):
            h = 1e-5 * min(float(upp[j] - x[j]), float(x[j] - low[j]))
            xp, xm = np.array(x, dtype=float), np.array(x, dtype=float)
            xp[j] += h
            xm[j] -= h
            ref.append((lagr(xp, y, z) - lagr(xm, y, z)) / (2 * h))
        for i in range(m):
            yp, ym = np.array(y, dtype=float), np.array(y, dtype=float)
            yp[i] += 1e-4
            ym[i] -= 1e-4
            ref.append((lagr(x, yp, z) - lagr(x, ym, z)) / 2e-4)
        ref.append((lagr(x, y, z + 1e-4) - lagr(x, y, z - 1e-4)) / 2e-4)
    ref += [f(i + 1, x) - a[i] * z - y[i] + s[i] - b[i] for i in range(m)]
    ref += [xsi[j] * (x[j] - alfa[j]) - epsi for j in range(n)]
    ref += [eta[j] * (beta[j] - x[j]) - epsi for j in range(n)]
    ref += [mu[i] * y[i] - epsi for i in range(m)]
    ref += [zet * z - epsi]
    ref += [lam[i] * s[i] - epsi for i in range(m)]
    if np.shape(res) == (len(ref),):
        for k in range(len(ref)):
            cl.eq("residual[%d]" % k, res[k], ref[k], "kkt-residual", scale=0.0 if V.symbolic else 1e3 * (1.0 + abs(float(ref[k]))))
    if P is None:
        obs["_clauses"] = cl
        return obs
    cl.discharge(P)
    return obs


# ================================================================================================ (c) response plumbing
_MODS = {}


def _user_modules():
    import pymoto as pym
    if "quad" in _MODS:
        return _MODS

    def flat(v):
        return list(v.reshape(-1)) if isinstance(v, np.ndarray) else [v]

    class C10Quad(pym.Module):
        """g = sum_k sum_i coef[k][i] * x_k[i]^2 (hand-written adjoint)."""

        def _prepare(self, coef=None):
            self.coef = coef

        def _response(self, *xs):
            self.xs = xs
            tot = 0
            for ck, xk in zip(self.coef, xs):
                for cc, xx in zip(flat(ck), flat(xk)):
                    tot = tot + cc * xx * xx
            return tot

        def _sensitivity(self, dg):
            return [2 * ck * xk * dg for ck, xk in zip(self.coef, self.xs)]

    class C10Lin(pym.Module):
        """g = sum_k sum_i coef[k][i] * x_k[i] - 1 (hand-written adjoint)."""

        def _prepare(self, coef=None):
            self.coef = coef

        def _response(self, *xs):
            tot = -1
            for ck, xk in zip(self.coef, xs):
                for cc, xx in zip(flat(ck), flat(xk)):
                    tot = tot + cc * xx
            return tot

        def _sensitivity(self, dg):
            return [ck * dg for ck in self.coef]

    _MODS.update(quad=C10Quad, lin=C10Lin)
    return _MODS


LAYOUTS = {           # sizes per variable signal; 0 = scalar state, k >= 1 = array of length k
    "a3": [3], "s-a2": [0, 2], "a2-s-a1": [2, 0, 1], "s-s": [0, 0], "a2-a2": [2, 2], "s-a3-s": [0, 3, 0],
    "a1-a2-a2": [1, 2, 2],
}


def _expand_ref(spec, vals, sizes):
    """Reference expansion written from the documentation: scalar -> every variable; one entry per signal -> repeated
    over that signal's variables; one entry per variable -> as given."""
    lens = [max(1, k) for k in sizes]
    n = sum(lens)
    if spec == "scalar":
        return [vals] * n
    if spec == "signal":
        out = []
        for k, ln in enumerate(lens):
            out += [vals[k]] * ln
        return out
    return list(vals)


def sc_response(V, P, cfg):
    import pymoto as pym
    mods = _user_modules()
    sizes, maxit = LAYOUTS[cfg["layout"]], cfg["maxit"]
    lens = [max(1, k) for k in sizes]
    nsig, n = len(sizes), sum(lens)
    cum = [0]
    for ln in lens:
        cum.append(cum[-1] + ln)
    x0 = []
    for k, sz in enumerate(sizes):
        x0.append(V.real("x%d" % k, default=0.5 + k) if sz == 0 else V.reals("x%d" % k, sz, default=0.5 + k))
    flat0 = []
    for v in x0:
        flat0 += list(v) if isinstance(v, np.ndarray) else [v]
    coefq = [(V.real("cq%d" % k, default=1.0) if sz == 0 else V.reals("cq%d" % k, sz, default=1.0)) for k, sz in enumerate(sizes)]
    coefl = [(V.real("cl%d" % k, default=1.0) if sz == 0 else V.reals("cl%d" % k, sz, default=1.0)) for k, sz in enumerate(sizes)]
    if cfg.get("prealloc"):
        # design signals with a pre-allocated sensitivity buffer (reset() zeroes it in place instead of dropping it)
        sx = [pym.Signal("x%d" % k, (v.copy() if isinstance(v, np.ndarray) else v),
                         sensitivity=(np.zeros(np.shape(v), dtype=object if V.symbolic else float) if isinstance(v, np.ndarray) else None))
              for k, v in enumerate(x0)]
    else:
        sx = [pym.Signal("x%d" % k, (v.copy() if isinstance(v, np.ndarray) else v)) for k, v in enumerate(x0)]
    # the constraint does not depend on the second signal (sensitivity None -> zero block)
    lin_idx = [k for k in range(nsig) if not (nsig >= 2 and k == 1)]
    g0, g1 = pym.Signal("g0"), pym.Signal("g1")
    cmid = None
    if cfg.get("deep") and sizes[0] >= 2:
        # an intermediate signal between the design and BOTH responses (filter -> objective and constraint): its
        # sensitivity has to be cleared between the per-response back-propagations
        cmid = V.reals("cmid", sizes[0], default=1.25)
        smid = pym.Signal("cmid", cmid.copy())
        mmid = pym.EinSum([sx[0], smid], expression="i,i->i")
        src = [mmid.sig_out[0]] + list(sx[1:])
        net = pym.Network(mmid, mods["quad"](src, g0, coef=coefq),
                          mods["lin"]([src[k] for k in lin_idx], g1, coef=[coefl[k] for k in lin_idx]))
    else:
        net = pym.Network(mods["quad"](sx, g0, coef=coefq),
                          mods["lin"]([sx[k] for k in lin_idx], g1, coef=[coefl[k] for k in lin_idx]))

    def mk(spec, name, **kw):
        if spec == "scalar":
            v = V.real(name, **kw)
            return v, v
        if spec == "signal":
            vals = [V.real("%s_s%d" % (name, k), **kw) for k in range(nsig)]
            return list(vals), vals
        vals = V.reals(name + "_v", n, **kw)
        return vals.copy(), list(vals)
    xmin_in, xmin_vals = mk(cfg["spec"][0], "xmin", default=-1.0)
    xmax_in, xmax_vals = mk(cfg["spec"][1], "xmax", default=3.0)
    move_in, move_vals = mk(cfg["spec"][2], "move", positive=True, default=0.25)
    if cfg["spec"][2] == "signal":
        move_in = np.array(move_in, dtype=object if V.symbolic else float)
        if V.symbolic:
            move_in = move_in.view(SymArray)
    calls, cb, cbnew = [], [], []

    def callback():
        if cfg.get("cb_reassign") and not cb:
            # a user callback that installs another design (projection, passive region, restart): a NEW state object
            new = V.real("xcb", default=0.75) if sizes[0] == 0 else V.reals("xcb", sizes[0], default=0.75)
            sx[0].state = new
            cbnew.append(new)
        cb.append([s.state for s in sx])

    # tolf: |df|/|f| < tolf can never hold for tolf <= 0; symbolically an object that answers "not smaller" without a
    # solver query (the concrete twin and the replay use tolf = 0.0)
    mma = pym.MMA(net, sx, [g0, g1], tolx=0, tolf=(_NeverSmaller() if V.symbolic else 0.0), maxit=maxit, move=move_in, xmin=xmin_in, xmax=xmax_in,
                  fn_callback=callback, verbosity=0)

    def mmasub_stub(xval, g, dg):
        k = len(calls)
        calls.append(dict(xval=_arr(xval), g=_arr(g), dg=_arr(dg)))
        if mma.dx is None:
            mma.dx = mma.xmax - mma.xmin
        xnew = V.reals("xnew%d" % k, n, default=1.5 + k)
        calls[-1]["xnew"] = _arr(xnew)
        return xnew, 0.0

    mma.mmasub = mmasub_stub
    if V.symbolic:
        _ctx.current().stubs.add("MMA.mmasub in the response-plumbing items (records xval, g, dg; returns arbitrary xnew)")
    mma.response()
    obs = dict(ncalls=len(calls), ncb=len(cb), xmin=np.asarray(mma.xmin), xmax=np.asarray(mma.xmax),
               move=np.asarray(mma.move) if cfg["spec"][2] != "scalar" else mma.move, cumlens=np.asarray(mma.cumlens, dtype=float))
    for k, cl in enumerate(calls):
        obs["xval%d" % k], obs["g%d" % k], obs["dg%d" % k] = cl["xval"], cl["g"], cl["dg"]
    for it, sts in enumerate(cb):
        for k, v in enumerate(sts):
            obs["cb%d_x%d" % (it, k)] = v
    cl = Clauses()
    cl.true("mmasub-calls==maxit", len(calls) == maxit, "plumbing")
    cl.true("callbacks==maxit", len(cb) == maxit, "plumbing")
    cl.true("cumlens", list(mma.cumlens) == cum, "expansion")
    cl.true("n", mma.n == n, "expansion")
    cl.arr_eq("xmin-expanded", np.asarray(mma.xmin), np.array(_expand_ref(cfg["spec"][0], xmin_vals, sizes), dtype=object),
              "expansion")
    cl.arr_eq("xmax-expanded", np.asarray(mma.xmax), np.array(_expand_ref(cfg["spec"][1], xmax_vals, sizes), dtype=object),
              "expansion")
    if cfg["spec"][2] == "scalar":
        cl.true("move-stays-scalar", np.ndim(mma.move) == 0, "expansion")
        if np.ndim(mma.move) == 0:
            cl.eq("move-scalar", mma.move, move_vals, "expansion")
    else:
        cl.arr_eq("move-expanded", np.asarray(mma.move), np.array(_expand_ref(cfg["spec"][2], move_vals, sizes), dtype=object),
                  "expansion")
    fq, fl = [], []
    for kk, sz in enumerate(sizes):
        fq += list(coefq[kk]) if sz else [coefq[kk]]
        fl += (list(coefl[kk]) if sz else [coefl[kk]]) if kk in lin_idx else [0] * lens[kk]

    def ref(i, xv):
        """the two responses, from the definition of the user modules"""
        t = 0 if i == 0 else -1
        for j in range(n):
            xj = xv[j] * cmid[j] if (cmid is not None and j < lens[0]) else xv[j]
            t = t + (fq[j] * xj * xj if i == 0 else fl[j] * xj)
        return t

    prev_new = None
    for k, call in enumerate(calls[:len(cb)]):
        cur = flat0 if k == 0 else prev_new
        if cbnew and k == 0:
            cur = (list(cbnew[0]) if isinstance(cbnew[0], np.ndarray) else [cbnew[0]]) + list(cur[lens[0]:])
        cl.arr_eq("it%d:xval==concat(states)" % k, call["xval"], np.array(cur, dtype=object), "concatenate")
        shp = np.shape(call["g"]) == (2,) and np.shape(call["dg"]) == (2, n)
        cl.true("it%d:g.shape" % k, shp, "responses")
        if shp:
            for i in range(2):
                ri = ref(i, cur)
                cl.eq("it%d:g%d" % (k, i), call["g"][i], ri, "responses")
                for j in range(n):
                    if V.symbolic:
                        d = diffz3.diff(ri, cur[j])
                    else:
                        xp, xm = list(cur), list(cur)
                        xp[j] = cur[j] + 1e-3
                        xm[j] = cur[j] - 1e-3
                        d = (ref(i, xp) - ref(i, xm)) / 2e-3
                    cl.eq("it%d:dg[%d,%d]" % (k, i, j), call["dg"][i, j], d, "sensitivities", scale=0.0 if V.symbolic else 1e3)
        # what is written to the signals for this iteration (observed at fn_callback)
        for kk, sz in enumerate(sizes):
            got = cb[k][kk]
            want = cur[cum[kk]:cum[kk + 1]]
            if sz == 0:
                cl.true("it%d:x%d-written-as-scalar" % (k, kk), np.ndim(got) == 0, "write-back")
                if np.ndim(got) == 0:
                    cl.eq("it%d:x%d-value" % (k, kk), got, want[0], "write-back")
            elif sz >= 2:
                cl.true("it%d:x%d-shape" % (k, kk), np.shape(got) == (sz,), "write-back")
                if np.shape(got) == (sz,):
                    cl.arr_eq("it%d:x%d-value" % (k, kk), got, np.array(want, dtype=object), "write-back")
            else:
                # length-1 array: the value must arrive (the code hands it over as a scalar: see the report)
                one = np.asarray(got).reshape(-1)
                cl.true("it%d:x%d-one-value" % (k, kk), one.size == 1, "write-back")
                if one.size == 1:
                    cl.eq("it%d:x%d-value" % (k, kk), one[0], want[0], "write-back")
        prev_new = list(call["xnew"])
    if P is None:
        obs["_clauses"] = cl
        return obs
    cl.discharge(P)
    return obs


# ================================================================================================ dispatch
def sc_subsolv_kkt(V, P, cfg):
    """Concrete regression items (NOT a solver verdict: fixed data, the real subsolv with the real NumPy, stated as such in
    the evidence kind `concrete-regression`): the point subsolv returns satisfies the optimality conditions of the
    sub-problem to the requested accuracy.  subsolv leaves its loop at a barrier parameter in (epsimin, 10 epsimin] with
    every residual of the perturbed conditions below 0.9 times that parameter, so every residual of the unperturbed
    conditions is below 20 epsimin; the reference residuals are computed here from the definition of the sub-problem."""
    import pymoto.common.mma as mm
    n, m, eps = cfg["n"], cfg["m"], float(cfg["epsimin"])
    d = _subsolv_data(n, m, exact=None, variant=cfg.get("data", 1))
    if V.symbolic:
        from symx import npshim
        npshim.uninstall()          # plain floats on the real NumPy
    try:
        x, y, z, lam, xsi, eta, mu, zet, s = mm.subsolv(eps, d["low"], d["upp"], d["alfa"], d["beta"], d["P"], d["Q"], d["a0"],
                                                        d["a"], d["b"], d["c"], d["d"])
    finally:
        if V.symbolic:
            npshim.install()
    x, y, lam, xsi, eta, mu, s = (np.asarray(v, dtype=float).reshape(-1) for v in (x, y, lam, xsi, eta, mu, s))
    z, zet = float(np.asarray(z).reshape(-1)[0]), float(np.asarray(zet).reshape(-1)[0])
    P0, P1, Q0, Q1 = d["P"][0], d["P"][1:], d["Q"][0], d["Q"][1:]
    ux, xl = d["upp"] - x, x - d["low"]
    res = []
    for j in range(n):      # stationarity in x_j
        plam = P0[j] + sum(lam[i] * P1[i, j] for i in range(m))
        qlam = Q0[j] + sum(lam[i] * Q1[i, j] for i in range(m))
        res.append(plam / ux[j] ** 2 - qlam / xl[j] ** 2 - xsi[j] + eta[j])
        res += [xsi[j] * (x[j] - d["alfa"][j]), eta[j] * (d["beta"][j] - x[j])]
    for i in range(m):
        g = sum(P1[i, j] / ux[j] + Q1[i, j] / xl[j] for j in range(n))
        res += [d["c"][i] + d["d"][i] * y[i] - mu[i] - lam[i], g - d["a"][i] * z - y[i] + s[i] - d["b"][i], mu[i] * y[i], lam[i] * s[i]]
    res += [d["a0"] - zet - sum(d["a"][i] * lam[i] for i in range(m)), zet * z]
    worst = float(np.max(np.abs(res)))
    feas = bool(np.all(x >= d["alfa"]) and np.all(x <= d["beta"]) and np.all(np.array([*y, z, *lam, *xsi, *eta, *mu, zet, *s]) >= 0))
    ok = bool(np.isfinite(worst) and worst <= 20 * eps)
    if P is not None:
        P.holds("subsolv-kkt:optimality-conditions-to-20-epsimin", ok, kind="concrete-regression:subsolv-kkt")
        P.holds("subsolv-kkt:returned-point-feasible", feas, kind="concrete-regression:subsolv-kkt")
    return dict(worst_over_epsimin=(worst / eps if np.isfinite(worst) else 1e300), feasible=float(feas))


SCEN = dict(mmasub=sc_mmasub, subsolv=sc_subsolv, subsolv_init=sc_subsolv_init, residual=sc_residual, response=sc_response,
            subsolv_kkt=sc_subsolv_kkt)


def run_item(cfg, tier):
    mp = {"mmasub": 400, "subsolv": 60}.get(cfg["kind"], 50)
    return symbolic_run(SCEN[cfg["kind"]], cfg, tier, max_paths=mp)


def replay(cfg, label, env, case):
    """Floats on the real library: the same scenario without symx (real NumPy inside pymoto), model values as inputs,
    the violated clause evaluated numerically."""
    import warnings
    warnings.simplefilter("ignore")
    kind = cfg["kind"]
    want_exc = label.split(":", 1)[1] if label.startswith("exception:") else None
    try:
        obs = SCEN[kind](Vals(env=env), None, cfg)
    except Exception as e:
        if want_exc is not None:
            return dict(reproduced=type(e).__name__ == want_exc, detail="%s: %s" % (type(e).__name__, str(e)[:300]))
        from .common import _raised_in_repo
        return dict(reproduced=(True if _raised_in_repo(e) else None),
                    detail="concrete run raised %s: %s" % (type(e).__name__, str(e)[:300]))
    if want_exc is not None:
        return dict(reproduced=False, detail="no exception on the real library")
    if kind == "subsolv_kkt":
        bad = not (obs["worst_over_epsimin"] <= 20.0) or not obs["feasible"]
        return dict(reproduced=bool(bad), detail=dict(worst_kkt_residual_over_epsimin=obs["worst_over_epsimin"], feasible=obs["feasible"]))
    bad, det = obs["_clauses"].evaluate(label)
    if kind == "mmasub" and bad is False:
        # second opinion with the REAL sub-solver instead of the contract stub (only meaningful for the x_new clauses)
        try:
            st = _mmasub_setup(Vals(env=env), cfg)
            rec = _run_mmasub(Vals(env=env), cfg, st, use_real_subsolv=True)
            det["xnew_real_subsolv"] = [float(v) for v in rec["xnew"]]
        except Exception as e:
            det["real_subsolv"] = "raised %s" % type(e).__name__
    return dict(reproduced=bool(bad) if bad is not None else False, detail=det)
