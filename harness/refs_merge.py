"""Helper shared by C18/C02: merge the discharged obligations of an item result into a few records
carrying a "count" (understood by symx.runner), so that items with >10^4 obligations stay small.
Undischarged obligations (sat / unknown) are never merged."""
import hashlib


def merge_discharged(res, keep_labels=3):
    groups, rest = {}, []
    for o in res.get("obligations", []):
        if o.get("status") != "unsat":
            rest.append(o)
            continue
        g = (o.get("path"), o.get("stage"), o.get("kind"), bool(o.get("nontrivial")))
        if g not in groups:
            d = dict(o)
            d["count"] = 0
            d["_labels"] = []
            d["_h"] = hashlib.md5()
            d["time"] = 0.0
            groups[g] = d
        d = groups[g]
        d["count"] += 1
        d["time"] = round(d["time"] + (o.get("time") or 0.0), 4)
        d["_h"].update(str(o.get("key")).encode())
        if len(d["_labels"]) < keep_labels:
            d["_labels"].append(o.get("label"))
    merged = []
    for d in groups.values():
        d["label"] = "; ".join(d.pop("_labels")) + (" (+%d more)" % (d["count"] - keep_labels) if d["count"] > keep_labels else "")
        d["key"] = d.pop("_h").hexdigest()[:12]
        merged.append(d)
    res["obligations"] = merged + rest
    return res


def prime_inspect_cache():
    """Speed only. pyMOTO calls inspect.stack() in every Signal/Module constructor (for its error
    messages). Under `python -m symx.runner` the stack contains `<frozen runpy>` frames, for which
    inspect.getmodule() falls through its file cache and scans all of sys.modules (>1500 modules with
    sympy/z3 loaded) on every call: measured 9 ms instead of 0.09 ms per Signal().  Telling inspect's own
    cache which module those frames belong to removes the scan; the frames pyMOTO reads (the first one
    outside core_objects.py) are unaffected."""
    import inspect
    import os
    import sys
    for fn, mod in (("<frozen runpy>", "runpy"), ("<frozen importlib._bootstrap>", "importlib._bootstrap"),
                    ("<frozen importlib._bootstrap_external>", "importlib._bootstrap_external")):
        if mod in sys.modules or mod == "runpy":
            try:
                __import__(mod)
                inspect.modulesbyfile.setdefault(os.path.abspath(fn), mod)
            except Exception:
                pass
