"""Helper shared by C18/C02: merge the discharged obligations of an item result into a few records
carrying a "count" (understood by symx.runner), so that items with >10^4 obligations stay small.
Undischarged obligations (sat / unknown) are never merged."""
import hashlib


def merge_discharged(res, keep_labels=3):
    groups, rest = {}, []
    for o in res.get("obligations", []):
        if o.get("status") != "unsat":
            rest.append(o)
            continue
        g = (o.get("path"), o.get("stage"), o.get("kind"), bool(o.get("nontrivial")))
        if g not in groups:
            d = dict(o)
            d["count"] = 0
            d["_labels"] = []
            d["_h"] = hashlib.md5()
            d["time"] = 0.0
            groups[g] = d
        d = groups[g]
        d["count"] += 1
        d["time"] = round(d["time"] + (o.get("time") or 0.0), 4)
        d["_h"].update(str(o.get("key")).encode())
        if len(d["_labels"]) < keep_labels:
            d["_labels"].append(o.get("label"))
    merged = []
    for d in groups.values():
        d["label"] = "; ".join(d.pop("_labels")) + (" (+%d more)" % (d["count"] - keep_labels) if d["count"] > keep_labels else "")
        d["key"] = d.pop("_h").hexdigest()[:12]
        merged.append(d)
    res["obligations"] = merged + rest
    return res
