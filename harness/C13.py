"""C13 - structured-grid numbering, connectivity and shape functions are consistent.

Executed for real (pymoto/common/domain.py): DomainDefinition.__init__ (tables conn / elements /
nodes, nel, nnodes, elemnodes, node_numbering), get_elemnumber, get_nodenumber, get_node_indices,
get_node_position, get_elemconnectivity, get_dofconnectivity, eval_shape_fun, eval_shape_fun_der.

Four families of work items:

numbering   the index functions run on symbolic z3 *Int* grid sizes nelx, nely, nelz >= 1 without
            upper bound (object created without __init__, attributes overwritten by symbols) and
            symbolic indices: injective, range inside [0,nel) / [0,nnodes), x-fastest formula.
roundtrip   get_node_indices(get_nodenumber(i,j,k)) == (i,j,k) and
            get_nodenumber(*get_node_indices(n)) == n with all sizes symbolic <= bound; `//` and `%`
            by symbolic divisors in the 24-bit bit-vector encoding of symx.zint.Z, with the
            no-wrap-around guards of every + and * discharged as obligations.
tables      enumerated grid sizes, the REAL __init__ with symbolic element sizes: conn / elements /
            nodes / dof-connectivity tables against an independent Cartesian reference (plain loops),
            the index methods on symbolic (Int) indices, node positions == index * element size.
shape       eval_shape_fun / eval_shape_fun_der on symbolic element sizes and a symbolic point
            inside the element (1D/2D/3D).
"""
from fractions import Fraction
import numpy as np
import z3

from symx import R, SB
from symx.zint import Z, zint, take_guards, reset as z_reset
from .common import symbolic_run, Vals
from .refs_chk import Chk, LAST, b_and, b_implies, _isint, _obs

PROPERTY = "C13"
BOUNDS = {
    "quick": dict(numbering="nelx,nely,nelz >= 1 symbolic, unbounded (z3 Int), dim 2 and 3",
                  roundtrip_fwd_max_2d=15, roundtrip_fwd_max_3d=15, roundtrip_rev_max_2d=15, roundtrip_rev_max_3d=15, bv_width=24,
                  tables_2d_max=[5, 5], tables_3d_max=[3, 3, 3], ndof=[1, 2, 3],
                  shape_dims=[1, 2, 3], element_sizes="symbolic > 0", point="symbolic inside the element"),
    "thorough": dict(numbering="nelx,nely,nelz >= 1 symbolic, unbounded (z3 Int), dim 2 and 3",
                     roundtrip_fwd_max_2d=63, roundtrip_fwd_max_3d=20, roundtrip_rev_max_2d=63, roundtrip_rev_max_3d=15, bv_width=24,
                     tables_2d_max=[8, 8], tables_3d_max=[5, 5, 5], ndof=[1, 2, 3],
                     shape_dims=[1, 2, 3], element_sizes="symbolic > 0", point="symbolic inside the element"),
}
OUTSIDE = ["tables (conn, elements, nodes, dof connectivity) and the div/mod index functions beyond the enumerated / "
           "bit-vector bounds", "nel and nnodes as computed by __init__ for sizes beyond the enumerated tables",
           "user-overridden node_numbering other than the documented table reversed between two evaluations (shape items)", "IEEE rounding of positions and shape functions",
           "int64 wrap-around of node numbers (sizes are far below it)", "DomainDefinition.plot / update_plot"]
ASSUMPTIONS = ["integer index arithmetic modelled by mathematical integers (z3 Int), or by 24-bit unsigned bit-vectors "
               "whose no-wrap-around side conditions are discharged as obligations of kind 'bv-no-wraparound'",
               "float64 arithmetic modelled as exact real arithmetic",
               "the x-fastest numbering e = i + nelx*(j + nely*k), n = i + (nelx+1)*(j + (nely+1)*k) is taken as the "
               "reference convention (the density plots and filters of pyMOTO rely on it)",
               "local node order as documented in the class docstring: local node l sits at corner "
               "(l&1, (l>>1)&1, (l>>2)&1) of the element"]
ITEM_TIMEOUT = {"quick": 240, "thorough": 600}
REPLAYS_PER_GROUP = 2


# ------------------------------------------------------------------------------------------------
# items
def items(tier):
    b = BOUNDS[tier]
    out = []
    for dim in (2, 3):
        out.append(dict(kind="numbering", id="numbering-%dd" % dim, dim=dim))
    for dim in (2, 3):
        hi = b["roundtrip_fwd_max_%dd" % dim]
        out.append(dict(kind="roundtrip", id="roundtrip-fwd-%dd-le%d" % (dim, hi), dim=dim, dir="fwd", hi=hi,
                        width=b["bv_width"]))
        hi = b["roundtrip_rev_max_%dd" % dim]
        out.append(dict(kind="roundtrip", id="roundtrip-rev-%dd-le%d" % (dim, hi), dim=dim, dir="rev", hi=hi,
                        width=b["bv_width"]))
    mx, my = b["tables_2d_max"]
    for nx in range(1, mx + 1):
        for ny in range(1, my + 1):
            out.append(dict(kind="tables", id="tables-%dx%d" % (nx, ny), dim=2, n=[nx, ny, 0], ndof=b["ndof"]))
    mx, my, mz = b["tables_3d_max"]
    for nx in range(1, mx + 1):
        for ny in range(1, my + 1):
            for nz in range(1, mz + 1):
                out.append(dict(kind="tables", id="tables-%dx%dx%d" % (nx, ny, nz), dim=3, n=[nx, ny, nz], ndof=b["ndof"]))
    for dim in b["shape_dims"]:
        out.append(dict(kind="shape", id="shape-%dd" % dim, dim=dim))
        out.append(dict(kind="shape", id="shape-%dd-integer-sizes" % dim, dim=dim, int_sizes=True))
        out.append(dict(kind="shape", id="shape-%dd-derivative-first" % dim, dim=dim, der_first=True))
        out.append(dict(kind="shape", id="shape-%dd-table-reversed-between-evaluations" % dim, dim=dim, renumber=True))
    return out


# ------------------------------------------------------------------------------------------------
# independent Cartesian reference (from the property statement / class docstring)
def ref_elem(i, j, k, n):
    return i + n[0] * (j + n[1] * k)


def ref_node(i, j, k, n):
    return i + (n[0] + 1) * (j + (n[1] + 1) * k)


def corner(l):
    """Offset (di, dj, dk) of local node l: documented order 0:(-,-,-) 1:(+,-,-) 2:(-,+,-) 3:(+,+,-) 4..7 at +z."""
    return (l & 1, (l >> 1) & 1, (l >> 2) & 1)


def _bare_domain(nx, ny, nz, dim):
    """DomainDefinition without __init__: only the attributes the index functions read."""
    from pymoto.common.domain import DomainDefinition
    d = object.__new__(DomainDefinition)
    d.nelx, d.nely, d.nelz, d.dim = nx, ny, nz, dim
    d.elemnodes = 2 ** dim
    return d


# ------------------------------------------------------------------------------------------------
def sc_numbering(V, P, cfg):
    """(1) element / node numbers injective and inside the range, sizes symbolic and unbounded."""
    z_reset()
    K = Chk(P)
    dim = cfg["dim"]
    nx = zint(V, "nelx", lo=1, default=3)
    ny = zint(V, "nely", lo=1, default=2)
    nz = zint(V, "nelz", lo=1, default=2) if dim == 3 else 0
    d = _bare_domain(nx, ny, nz, dim)
    n = (nx, ny, nz)
    obs = {}
    for what, extra in (("elem", 0), ("node", 1)):
        # two index tuples inside the grid (elements: 0 <= i < nelx; nodes: 0 <= i <= nelx)
        tup = []
        for t in (1, 2):
            idx = []
            for a, ax in enumerate("ijk"[:dim]):
                v = zint(V, "%s_%s%d" % (what, ax, t), lo=0, default=0)
                V.assume(v < n[a] + extra)
                idx.append(v)
            tup.append(idx)
        f = d.get_elemnumber if what == "elem" else d.get_nodenumber
        e1, e2 = f(*tup[0]), f(*tup[1])
        total = 1
        for a in range(dim):
            total = total * (n[a] + extra)
        same = b_and(*[a == b for a, b in zip(tup[0], tup[1])])
        K.holds("%s-injective" % what, b_implies(e1 == e2, same), "injective")
        K.holds("%s-range" % what, b_and(e1 >= 0, e1 < total), "range")
        i, j = tup[0][0], tup[0][1]
        k = tup[0][2] if dim == 3 else 0
        ref = ref_elem(i, j, k, n) if what == "elem" else ref_node(i, j, k, n)
        K.eq("%s-cartesian-formula" % what, e1, ref, "convention")
        obs[what + "1"], obs[what + "2"] = _obs(e1), _obs(e2)
    # connectivity of a symbolic element: the 2^dim corner nodes in the documented local order
    i = zint(V, "c_i", lo=0, default=0)
    j = zint(V, "c_j", lo=0, default=0)
    V.assume(i < nx)
    V.assume(j < ny)
    if dim == 3:
        k = zint(V, "c_k", lo=0, default=0)
        V.assume(k < nz)
    else:
        k = 0
    d.node_numbering = _documented_numbering(dim)     # the table itself is checked in the `tables` items
    row = d.get_elemconnectivity(i, j, k) if dim == 3 else d.get_elemconnectivity(i, j)
    K.holds("conn-row-length", len(row) == 2 ** dim, "conn-row")
    for l in range(min(len(row), 2 ** dim)):
        di, dj, dk = corner(l)
        K.eq("conn-row[%d]" % l, row[l], ref_node(i + di, j + dj, k + dk, n), "conn-row")
    obs["row"] = _obs(np.asarray(row, dtype=object)) if V.symbolic else np.asarray(row)
    return obs


def _documented_numbering(dim):
    """node_numbering as documented (signs of the local coordinates per local node)."""
    out = []
    for l in range(2 ** dim):
        c = corner(l)
        out.append([2 * c[a] - 1 if a < dim else -1 for a in range(3)])
    return out


def sc_roundtrip(V, P, cfg):
    """(2) node number <-> Cartesian index round trips, all sizes symbolic <= hi (bit-vector Z)."""
    z_reset()
    K = Chk(P)
    dim, hi, w = cfg["dim"], cfg["hi"], cfg["width"]
    nx = zint(V, "nelx", lo=1, hi=hi, width=w, default=3)
    ny = zint(V, "nely", lo=1, hi=hi, width=w, default=2)
    nz = zint(V, "nelz", lo=1, hi=hi, width=w, default=2) if dim == 3 else 0
    d = _bare_domain(nx, ny, nz, dim)
    n = (nx, ny, nz)
    obs = {}
    if cfg["dir"] == "fwd":
        idx = []
        for a, ax in enumerate("ijk"[:dim]):
            v = zint(V, ax, lo=0, hi=hi, width=w, default=0)
            V.assume(v <= n[a])
            idx.append(v)
        num = d.get_nodenumber(*idx)
        back = d.get_node_indices(num)
        K.guards()
        K.holds("indices-length", len(back) == dim, "roundtrip")
        for a in range(min(dim, len(back))):
            K.eq("indices(number(i,j,k))[%s]" % "ijk"[a], back[a], idx[a], "roundtrip")
        obs["num"] = _obs(num)
        obs["back"] = _obs(np.asarray(back))
    else:
        nn = 1
        for a in range(dim):
            nn = nn * (n[a] + 1)
        num = zint(V, "n", lo=0, hi=(hi + 1) ** dim, width=w, default=0)
        V.assume(num < nn)
        back = d.get_node_indices(num)
        K.holds("indices-length", len(back) == dim, "roundtrip")
        for a in range(min(dim, len(back))):
            K.holds("indices(n)[%s]-in-range" % "ijk"[a], back[a] <= n[a], "index-range")
        again = d.get_nodenumber(*back)
        K.guards()
        K.eq("number(indices(n))", again, num, "roundtrip")
        obs["back"] = _obs(np.asarray(back))
        obs["again"] = _obs(again)
    return obs


def sc_tables(V, P, cfg):
    """(3) enumerated grid size, real __init__, symbolic element sizes and symbolic indices."""
    from pymoto.common.domain import DomainDefinition
    z_reset()
    K = Chk(P)
    dim = cfg["dim"]
    n = tuple(cfg["n"])
    nx, ny, nz = n
    size = [V.real("unitx", positive=True, default=0.5), V.real("unity", positive=True, default=1.25),
            V.real("unitz", positive=True, default=2.0)]
    # process history: another grid with the same number of elements was built and queried first (tables of one
    # domain must not depend on other DomainDefinition objects)
    d_other = DomainDefinition(ny, nx, unitx=size[1], unity=size[0]) if dim == 2 else \
        DomainDefinition(nz, nx, ny, unitx=size[2], unity=size[0], unitz=size[1])
    for ndof in cfg["ndof"]:
        d_other.get_dofconnectivity(ndof)
    d_other.get_node_position()
    if dim == 2:
        d = DomainDefinition(nx, ny, unitx=size[0], unity=size[1])
    else:
        d = DomainDefinition(nx, ny, nz, unitx=size[0], unity=size[1], unitz=size[2])
    cnt = [nx, ny, nz][:dim]
    nel = int(np.prod(cnt))
    nnodes = int(np.prod([c + 1 for c in cnt]))
    en = 2 ** dim
    K.holds("dim", d.dim == dim, "counts")
    K.holds("nel", _isint(d.nel) and d.nel == nel, "counts")
    K.holds("nnodes", _isint(d.nnodes) and d.nnodes == nnodes, "counts")
    K.holds("elemnodes", d.elemnodes == en, "counts")
    K.holds("node_numbering", [list(r) for r in d.node_numbering] == _documented_numbering(dim), "node-numbering-table")
    kz = max(nz, 1)
    # reference tables by plain loops
    conn_ref = np.zeros((nel, en), dtype=int)
    elements_ref = np.zeros((nx, ny, kz), dtype=int)
    nodes_ref = np.zeros((nx + 1, ny + 1, nz + 1), dtype=int)
    for k in range(kz):
        for j in range(ny):
            for i in range(nx):
                e = ref_elem(i, j, k, n)
                elements_ref[i, j, k] = e
                for l in range(en):
                    di, dj, dk = corner(l)
                    conn_ref[e, l] = ref_node(i + di, j + dj, k + dk, n)
    for k in range(nz + 1):
        for j in range(ny + 1):
            for i in range(nx + 1):
                nodes_ref[i, j, k] = ref_node(i, j, k, n)
    K.table("conn-table", d.conn, conn_ref, "conn-table")
    K.table("elements-table", d.elements, elements_ref, "elements-table")
    K.table("nodes-table", d.nodes, nodes_ref, "nodes-table")
    # every element's row lists 2^dim distinct nodes, every node is used, range
    K.holds("conn-rows-distinct", all(len(set(r.tolist())) == en for r in np.asarray(d.conn)), "conn-table")
    K.holds("conn-covers-all-nodes", sorted(set(np.asarray(d.conn).ravel().tolist())) == list(range(nnodes)), "conn-table")
    # (all tables are requested first and compared afterwards: a result must not change when another one is computed)
    dofconns = {ndof: d.get_dofconnectivity(ndof) for ndof in cfg["ndof"]}
    for ndof in cfg["ndof"]:
        ref = np.zeros((nel, en * ndof), dtype=int)
        for e in range(nel):
            for l in range(en):
                for q in range(ndof):
                    ref[e, l * ndof + q] = conn_ref[e, l] * ndof + q
        K.table("dofconn-ndof%d" % ndof, dofconns[ndof], ref, "dofconn-table")
    # a table handed out belongs to the caller: offsetting it in place (temperature dofs behind displacement dofs) must not
    # change the domain's own connectivity nor what the next call returns
    mine = d.get_dofconnectivity(1)
    if isinstance(mine, np.ndarray) and mine.size:
        mine += 1000
        K.table("conn-after-the-caller-modified-a-returned-table", d.conn, conn_ref, "conn-table")
        K.table("dofconn-ndof1-after-the-caller-modified-a-returned-table", d.get_dofconnectivity(1), conn_ref, "dofconn-table")
    # index arrays of any rank ("can be integer or array"): 1-D lists of elements and meshgrid-style selections; the result
    # has the shape of the index arrays plus one axis for the element's nodes
    ar = [np.arange(c) for c in cnt]
    grids = np.meshgrid(*ar, indexing="ij")
    sel = d.get_elemconnectivity(*grids)
    K.holds("elemconnectivity(meshgrid).shape", tuple(np.shape(sel)) == tuple(cnt) + (en,), "conn-array-index")
    if tuple(np.shape(sel)) == tuple(cnt) + (en,):
        want = np.zeros(tuple(cnt) + (en,), dtype=int)
        for idx in np.ndindex(*cnt):
            i3 = list(idx) + [0] * (3 - dim)
            want[idx] = conn_ref[elements_ref[i3[0], i3[1], i3[2]]]
        K.table("elemconnectivity(meshgrid)", sel, want, "conn-array-index")
    flat = [g.ravel() for g in grids]
    sel1 = d.get_elemconnectivity(*flat)
    K.holds("elemconnectivity(1-D).shape", tuple(np.shape(sel1)) == (nel, en), "conn-array-index")
    if tuple(np.shape(sel1)) == (nel, en):
        want1 = np.array([conn_ref[elements_ref[tuple(list(t) + [0] * (3 - dim))]] for t in zip(*flat)])
        K.table("elemconnectivity(1-D)", sel1, want1, "conn-array-index")
    # all node positions == Cartesian index * element size
    pos = d.get_node_position()
    pos_ref = np.empty((dim, nnodes), dtype=object if V.symbolic else float)
    for k in range(nz + 1):
        for j in range(ny + 1):
            for i in range(nx + 1):
                ijk = (i, j, k)
                for a in range(dim):
                    pos_ref[a, ref_node(i, j, k, n)] = ijk[a] * size[a]
    K.arr_eq("position", pos, pos_ref, "position")
    obs = dict(conn=np.asarray(d.conn), pos=pos)
    # ---- index methods on symbolic indices (sizes concrete, so // and % have constant divisors)
    ei = [zint(V, "e_" + ax, lo=0, hi=cnt[a] - 1, default=0) for a, ax in enumerate("ijk"[:dim])]
    ei3 = ei + [0] * (3 - dim)
    e = d.get_elemnumber(*ei)
    K.eq("elemnumber(i,j,k)", e, ref_elem(ei3[0], ei3[1], ei3[2], n), "elemnumber-symbolic-index")
    row = d.get_elemconnectivity(*ei)
    K.holds("elemconnectivity-length", len(row) == en, "conn-row-symbolic-index")
    for l in range(min(en, len(row))):
        di, dj, dk = corner(l)
        K.eq("elemconnectivity(i,j,k)[%d]" % l, row[l], ref_node(ei3[0] + di, ei3[1] + dj, ei3[2] + dk, n),
             "conn-row-symbolic-index")
    # node: pre-image parametrisation, the number is defined from a symbolic Cartesian index
    ni = [zint(V, "n_" + ax, lo=0, hi=cnt[a], default=0) for a, ax in enumerate("ijk"[:dim])]
    ni3 = ni + [0] * (3 - dim)
    num_ref = ref_node(ni3[0], ni3[1], ni3[2], n)
    K.eq("nodenumber(i,j,k)", d.get_nodenumber(*ni), num_ref, "nodenumber-symbolic-index")
    back = d.get_node_indices(num_ref)
    K.holds("node_indices-length", len(back) == dim, "node-indices-symbolic-index")
    for a in range(min(dim, len(back))):
        K.eq("node_indices(n)[%s]" % "ijk"[a], back[a], ni[a], "node-indices-symbolic-index")
    p1 = d.get_node_position(num_ref)
    K.holds("node_position-length", len(p1) == dim, "position-symbolic-index")
    for a in range(min(dim, len(p1))):
        K.eq("node_position(n)[%s]" % "xyz"[a], p1[a], ni[a] * size[a], "position-symbolic-index")
    # arbitrary node number in [0, nnodes): indices inside the grid and mapped back to the number
    m = zint(V, "m", lo=0, hi=nnodes - 1, default=0)
    bm = d.get_node_indices(m)
    for a in range(min(dim, len(bm))):
        K.holds("node_indices(m)[%s]-in-range" % "ijk"[a], b_and(bm[a] >= 0, bm[a] <= cnt[a]), "node-indices-symbolic-index")
    K.eq("nodenumber(node_indices(m))", d.get_nodenumber(*bm), m, "node-indices-symbolic-index")
    take_guards()
    obs.update(e=_obs(e), row=_obs(np.asarray(row)), back=_obs(np.asarray(back)), p1=_obs(np.asarray(p1)),
               bm=_obs(np.asarray(bm)))
    return obs


def sc_shape(V, P, cfg):
    """(4) shape functions and their derivatives, symbolic element sizes and evaluation point."""
    from pymoto.common.domain import DomainDefinition
    K = Chk(P)
    dim = cfg["dim"]
    names = ["unitx", "unity", "unitz"]
    if cfg.get("int_sizes"):
        # element sizes given as Python integers (unitx=2): an admissible input whose array dtype is integer
        size = [[2, 4, 8][a] for a in range(dim)]       # (powers of two: 1/volume is an exact float)
    else:
        size = [V.real(names[a], positive=True, default=[0.5, 1.25, 2.0][a]) for a in range(dim)]
    kw = dict(zip(names, size))
    d = DomainDefinition(2, 2 if dim >= 2 else 0, 1 if dim == 3 else 0, **kw)
    K.holds("dim", d.dim == dim, "counts")
    en = 2 ** dim
    x = []
    for a in range(dim):
        xa = V.real("xyz"[a], default=[0.125, -0.25, 0.5][a])
        V.assume(xa >= -size[a] / 2)
        V.assume(xa <= size[a] / 2)
        x.append(xa)
    pos = np.array(x, dtype=object if V.symbolic else float)
    n_def = len(V.c.defined) if V.symbolic else 0
    pos_given = np.array(pos, dtype=pos.dtype, copy=True)
    if cfg.get("der_first"):
        dN = d.eval_shape_fun_der(pos)      # the caller's point array is used for both calls, derivative first
        N = d.eval_shape_fun(pos)
    else:
        N = d.eval_shape_fun(pos)
        dN = d.eval_shape_fun_der(pos)
    K.holds("point-argument-unchanged", all((a_ is b_) or (not isinstance(a_, R) and a_ == b_) for a_, b_ in zip(pos, pos_given))
            if V.symbolic else bool(np.all(pos == pos_given)), "arguments")
    # a second evaluation at another point of the element while the first results are still in use (integration loops keep
    # several evaluations): every clause below is about the FIRST results and is evaluated after the second call
    xb = []
    for a in range(dim):
        xa = V.real("xyz"[a] + "b", default=[-0.2, 0.3, -0.7][a])
        V.assume(xa >= -size[a] / 2)
        V.assume(xa <= size[a] / 2)
        xb.append(xa)
    posb = np.array(xb, dtype=object if V.symbolic else float)
    perm = list(range(en))
    if cfg.get("renumber"):
        # the public table node_numbering replaced (here: reversed) between two evaluations on one domain object: shape
        # functions, derivatives and connectivity all read the LIVE table, so the second results come in the new local order
        orig_numbering = d.node_numbering
        d.node_numbering = [list(r) for r in reversed(orig_numbering)]
        perm = [en - 1 - l for l in range(en)]
    Nb = d.eval_shape_fun(posb)
    dNb = d.eval_shape_fun_der(posb)
    if cfg.get("renumber"):
        d.node_numbering = orig_numbering
    if V.symbolic:
        # finite values on the whole closed element (faces, edges and nodes included): no divisor may vanish there
        P.no_division_by_zero("N,dN finite on the closed element (no division by zero)", n_def, kind="finite")
    else:
        if not (np.all(np.isfinite(np.asarray(N, dtype=float))) and np.all(np.isfinite(np.asarray(dN, dtype=float)))):
            K.fails["N,dN finite on the closed element (no division by zero)"] = "non-finite value: N=%r dN=%r" % (N, dN)
    K.holds("N-shape", np.shape(N) == (en,), "shape-values")
    K.holds("dN-shape", np.shape(dN) == (dim, en), "shape-derivatives")
    if np.shape(N) != (en,) or np.shape(dN) != (dim, en):
        return dict(N=N, dN=dN)
    half = Fraction(1, 2) if V.symbolic else 0.5
    sgn = [[2 * corner(l)[a] - 1 for a in range(dim)] for l in range(en)]

    def N_ref(l, pt):
        v = 1
        for a in range(dim):
            v = v * (size[a] * half + sgn[l][a] * pt[a]) / size[a]
        return v

    def dN_ref(l, e, pt):
        v = sgn[l][e] / size[e] if not V.symbolic else R.of(sgn[l][e]) / size[e]
        for a in range(dim):
            if a != e:
                v = v * (size[a] * half + sgn[l][a] * pt[a]) / size[a]
        return v

    tot = 0
    for l in range(en):
        K.holds("N[%d]>=0" % l, N[l] >= 0, "nonnegative")
        K.eq("N[%d]==closed-form" % l, N[l], N_ref(l, x), "shape-values")
        tot = tot + N[l]
        for e in range(dim):
            K.eq("dN[%s,%d]==d/d%s closed-form" % ("xyz"[e], l, "xyz"[e]), dN[e, l], dN_ref(l, e, x), "shape-derivatives")
    K.eq("sum N == 1", tot, 1, "partition-of-unity")
    if np.shape(Nb) == (en,) and np.shape(dNb) == (dim, en):
        for l in range(en):
            K.eq("second-point:N[%d]==closed-form" % l, Nb[l], N_ref(perm[l], xb), "shape-values")
            for e in range(dim):
                K.eq("second-point:dN[%s,%d]==closed-form" % ("xyz"[e], l), dNb[e, l], dN_ref(perm[l], e, xb), "shape-derivatives")
    if V.symbolic:
        # reported derivatives == exact derivative of the reported shape functions (term differentiation)
        from symx import diffz3
        for l in range(en):
            g = diffz3.grad(N[l], x)
            for e in range(dim):
                K.eq("dN[%s,%d]==diff(N[%d])" % ("xyz"[e], l, l), dN[e, l], g[e], "shape-derivatives-vs-diff")
    else:
        # numerical twin of the same clause for the replay: central difference of the real function
        for l in range(en):
            for e in range(dim):
                h = 1e-6 * float(size[e])
                pp, pm = np.array(pos, dtype=float), np.array(pos, dtype=float)
                pp[e] += h
                pm[e] -= h
                fd = (d.eval_shape_fun(pp)[l] - d.eval_shape_fun(pm)[l]) / (2 * h)
                if abs(fd - float(dN[e, l])) > 1e-6 * max(1.0, abs(fd)):
                    K.fails["dN[%s,%d]==diff(N[%d])" % ("xyz"[e], l, l)] = "central difference %r vs %r" % (fd, dN[e, l])
    # Kronecker property: N_i(node_j) = delta_ij, evaluated by the real function at the corners
    for jn in range(en):
        pj = np.array([sgn[jn][a] * size[a] * half for a in range(dim)], dtype=object if V.symbolic else float)
        Nj = d.eval_shape_fun(pj)
        for l in range(en):
            K.eq("N[%d](node %d)" % (l, jn), Nj[l], 1 if l == jn else 0, "kronecker")
    return dict(N=N, dN=dN)


SCEN = {"numbering": sc_numbering, "roundtrip": sc_roundtrip, "tables": sc_tables, "shape": sc_shape}


def run_item(cfg, tier):
    to = None
    if cfg["kind"] == "roundtrip":
        to = 100000 if tier == "quick" else 400000
    return symbolic_run(SCEN[cfg["kind"]], cfg, tier, max_paths=50, obl_timeout_ms=to)


# ------------------------------------------------------------------------------------------------
def replay(cfg, label, env, case):
    """Re-run the scenario on the real library with the numbers of the model (no symx objects are
    created in concrete mode: integers are Python ints, sizes floats) and evaluate the clause."""
    V = Vals(env=env)
    LAST.clear()
    try:
        SCEN[cfg["kind"]](V, None, cfg)
    except Exception as e:
        if label.startswith("exception:"):
            return dict(reproduced=type(e).__name__ == label.split(":", 1)[1],
                        detail=dict(raised="%s: %s" % (type(e).__name__, e), inputs=_inputs(V, env)))
        return dict(reproduced=True, detail=dict(raised="%s: %s" % (type(e).__name__, e), label=label,
                                                 inputs=_inputs(V, env)))
    fails = LAST["chk"].fails if "chk" in LAST else {}
    missing = [k for k in V.requested if k not in env]
    if missing and label in fails:
        # the clause fails on the real code for the model's values completed with the defaults of the scenario
        # (a clause about concrete tables does not depend on the symbolic indices at all): a genuine reproduction
        return dict(reproduced=True, detail=dict(clause=label, observed=fails[label], inputs=_inputs(V, env),
                                                 defaults_used_for=missing[:8]))
    if missing:          # no witness from the solver (e.g. a path kept after an `unknown` feasibility answer):
        return dict(reproduced=False, detail="model has no value for %s; nothing to replay" % missing[:6])
    if label.startswith("exception:"):
        return dict(reproduced=False, detail="no exception on the real code")
    if label == "*":          # any clause failing on the real library with these numbers (used by the runner's fallbacks)
        if fails:
            first = sorted(fails)[0]
            return dict(reproduced=True, detail=dict(clause=first, observed=fails[first], other_failing=[k for k in sorted(fails)[1:7]]))
        return dict(reproduced=False, detail="every clause holds on the real library")
    if label in fails:
        return dict(reproduced=True, detail=dict(clause=label, observed=fails[label], inputs=_inputs(V, env),
                                                 other_failing=[k for k in fails if k != label][:6]))
    return dict(reproduced=False, detail=dict(clause=label, inputs=_inputs(V, env), failing=list(fails)[:6]))


def _inputs(V, env):
    return {k: env[k] for k in V.requested if k in env}
