"""Independent finite-element references shared by the C08 / C12 harnesses.

Everything here is written from the definitions with plain loops and Cartesian indices; nothing is read from
DomainDefinition.conn / get_dofconnectivity / eval_shape_fun / get_B / get_D.

Numbering (the documented one): node(i,j,k) = (k*(nely+1)+j)*(nelx+1)+i, element(i,j,k) = (k*nely+j)*nelx+i, local
node order of an element: x fastest, then y, then z; dof = node*ndof + d.
"""
import numpy as np

from symx import R, SB

LOCAL = [(0, 0, 0), (1, 0, 0), (0, 1, 0), (1, 1, 0), (0, 0, 1), (1, 0, 1), (0, 1, 1), (1, 1, 1)]


class Mesh:
    def __init__(self, mesh):
        self.nx, self.ny, self.nz = mesh
        self.dim = 3 if self.nz > 0 else 2
        self.nnodes = (self.nx + 1) * (self.ny + 1) * (self.nz + 1)
        self.nel = self.nx * self.ny * max(self.nz, 1)
        self.local = LOCAL[: 2 ** self.dim]

    def node(self, i, j, k):
        return (k * (self.ny + 1) + j) * (self.nx + 1) + i

    def elements(self):
        """yield (element number, list of its node numbers in local order, (i, j, k))"""
        for k in range(max(self.nz, 1)):
            for j in range(self.ny):
                for i in range(self.nx):
                    e = (k * self.ny + j) * self.nx + i
                    yield e, [self.node(i + di, j + dj, k + dk) for (di, dj, dk) in self.local], (i, j, k)

    def node_ijk(self):
        out = [None] * self.nnodes
        for k in range(self.nz + 1):
            for j in range(self.ny + 1):
                for i in range(self.nx + 1):
                    out[self.node(i, j, k)] = (i, j, k)
        return out

    def coords(self, siz):
        return [[ijk[d] * siz[d] for d in range(self.dim)] for ijk in self.node_ijk()]

    def centroids(self, siz):
        out = [None] * self.nel
        for e, _, ijk in self.elements():
            out[e] = [(2 * ijk[d] + 1) * siz[d] / 2 for d in range(self.dim)]
        return out


def zeros(shape, symbolic):
    if symbolic:
        a = np.empty(shape, dtype=object)
        a.fill(0)
        return a
    return np.zeros(shape)


def dense(A):
    if hasattr(A, "_dense"):
        return np.asarray(A._dense)
    if hasattr(A, "toarray") and not isinstance(A, np.ndarray):
        return np.asarray(A.toarray())
    return np.asarray(A)


def dot(a, b):
    t = 0
    for p, q in zip(a, b):
        t = t + p * q
    return t


def matvec(K, v):
    return [dot(K[i, :], v) for i in range(K.shape[0])]


def tot(xs):
    t = 0
    for v in xs:
        t = t + v
    return t


def ref_scatter(M, ndof, x, Ke, bc, bcdiag, const, symbolic):
    """sum_e x_e K_e scattered; rows/cols of bc dofs zero, bcdiag on their diagonal; plus the constant."""
    n = ndof * M.nnodes
    K = zeros((n, n), symbolic)
    for e, nodes, _ in M.elements():
        dofs = [nd * ndof + d for nd in nodes for d in range(ndof)]
        for a, da in enumerate(dofs):
            for b, db in enumerate(dofs):
                K[da, db] = K[da, db] + x[e] * Ke[a, b]
    if bc is not None:
        for d in bc:
            for q in range(n):
                K[d, q] = 0
                K[q, d] = 0
        for d in bc:
            K[d, d] = bcdiag
    if const is not None:
        for i in range(n):
            for j in range(n):
                K[i, j] = K[i, j] + const[i, j]
    return K


def lame(E, nu, dim, plane):
    """(lambda_eff, mu) of the isotropic law  sigma = lambda_eff tr(e) I + 2 mu e  (e = symmetric gradient tensor);
    plane stress: lambda_eff from sigma_zz = 0."""
    mu = E / (2 * (1 + nu))
    if dim == 2 and plane == "stress":
        lam = 2 * mu * nu / (1 - nu)
    else:
        lam = 2 * mu * nu / (1 - 2 * nu)
    return lam, mu


def voigt_pairs(dim):
    """index pairs of the shear rows in the Voigt order documented in get_B: 2D [xy]; 3D [yz, zx, xy]."""
    return [(0, 1)] if dim == 2 else [(1, 2), (2, 0), (0, 1)]


def ref_strain(G, dim):
    """[e_xx, e_yy, (e_zz), engineering shears gamma_ij = G_ij + G_ji in Voigt order] of u(X) = u0 + G X."""
    return [G[d, d] for d in range(dim)] + [G[a, b] + G[b, a] for (a, b) in voigt_pairs(dim)]


def ref_stress(G, dim, lam, mu):
    """Hooke: sigma_ij = lam tr(e) delta_ij + 2 mu e_ij, rows in the same Voigt order (tau = mu * gamma)."""
    tr = tot(G[d, d] for d in range(dim))
    return [lam * tr + 2 * mu * G[d, d] for d in range(dim)] + [mu * (G[a, b] + G[b, a]) for (a, b) in voigt_pairs(dim)]


def ref_energy_density(G, dim, lam, mu):
    """sigma : e = lam tr(e)^2 + 2 mu e:e"""
    tr = tot(G[d, d] for d in range(dim))
    ee = 0
    for a in range(dim):
        for b in range(dim):
            eab = (G[a, b] + G[b, a]) / 2
            ee = ee + eab * eab
    return lam * tr * tr + 2 * mu * ee


def affine_field(coords, u0, G, dim):
    u = []
    for X in coords:
        for a in range(dim):
            u.append(u0[a] + dot(G[a, :], X))
    return u


def ref_elmat(which, dim, siz, ndof, symbolic, lam=None, mu=None, coef=None):
    """Element matrix from the definition with EXACT integration of the (tensor-product) bilinear shape functions
    over the box [-h/2,h/2]^dim (no quadrature, no get_B/get_D, no eval_shape_fun):
      1D integrals  int N_a N_b = h/3 (a=b), h/6;  int N_a' N_b' = +-1/h;  int N_a' N_b = sign(a)/2
      I[A,p,B,q] = int dN_A/dx_p dN_B/dx_q dV  (product of 1D integrals)
      stiffness  K[(A,i),(B,j)] = lam I[A,i,B,j] + mu (delta_ij sum_p I[A,p,B,p] + I[A,j,B,i])
      mass       M[(A,i),(B,j)] = coef delta_ij int N_A N_B ;   poisson  P[A,B] = coef sum_p I[A,p,B,p]
    (the out-of-plane thickness of 2D elements is contained in lam, mu, coef)."""
    loc = LOCAL[: 2 ** dim]
    sgn = (-1, 1)

    def M1(d, a, b):
        return siz[d] / 3 if a == b else siz[d] / 6

    def S1(d, a, b):
        return (1 / siz[d]) if a == b else -(1 / siz[d])

    def G1(d, a, b):          # derivative on a
        return R.of(sgn[a]) / 2 if symbolic else sgn[a] / 2.0

    def I(A, p, B, q):
        t = 1
        for d in range(dim):
            a, b = loc[A][d], loc[B][d]
            if p == q:
                f = S1(d, a, b) if d == p else M1(d, a, b)
            elif d == p:
                f = G1(d, a, b)
            elif d == q:
                f = G1(d, b, a)
            else:
                f = M1(d, a, b)
            t = t * f
        return t

    nn = len(loc)
    K = zeros((nn * ndof, nn * ndof), symbolic)
    for A in range(nn):
        for B in range(nn):
            if which == "stiffness":
                lap = tot(I(A, p, B, p) for p in range(dim))
                for i in range(dim):
                    for j in range(dim):
                        v = lam * I(A, i, B, j) + mu * I(A, j, B, i)
                        if i == j:
                            v = v + mu * lap
                        K[A * ndof + i, B * ndof + j] = v
            elif which == "mass":
                mm = 1
                for d in range(dim):
                    mm = mm * M1(d, loc[A][d], loc[B][d])
                for i in range(ndof):
                    K[A * ndof + i, B * ndof + i] = coef * mm
            else:
                K[A, B] = coef * tot(I(A, p, B, p) for p in range(dim))
    return K


# ------------------------------------------------------------------------------------------------
class Chk:
    """Obligations in symbolic mode (forwarded to the Prover), numeric residuals in concrete mode (replay).

    After CAP counterexamples of one obligation kind in one item the remaining obligations of that kind are not sent
    to the solver any more; they are recorded as ONE inconclusive obligation (never as discharged)."""
    CAP = 12

    def __init__(self, P):
        self.P = P
        self.res = {}
        self.nsat = {}
        self.skipped = {}

    def _skip(self, label, kind):
        if self.nsat.get(kind, 0) < self.CAP:
            return False
        o = self.skipped.get(kind)
        if o is None:
            o = self.P._new("%s:remaining-obligations" % kind, kind)
            o.status, o.nontrivial = "unknown", False
            self.skipped[kind] = [o, 0]
        self.skipped[kind][1] += 1
        self.skipped[kind][0].stage = "not evaluated: %d obligations skipped after %d counterexamples of kind %s" % (
            self.skipped[kind][1], self.CAP, kind)
        return True

    def _count(self, o, kind):
        if getattr(o, "status", None) == "sat":
            self.nsat[kind] = self.nsat.get(kind, 0) + 1
        return o

    def eq(self, label, a, b, kind):
        if self.P is not None:
            if self._skip(label, kind):
                return None
            return self._count(self.P.eq(label, a, b, kind=kind), kind)
        a, b = complex(a), complex(b)
        scale = max(abs(a), abs(b))
        self.res[label] = dict(ok=bool(abs(a - b) <= 1e-9 * scale + 1e-12), lhs=repr(a), rhs=repr(b), kind=kind)

    def arrays_eq(self, label, A, B, kind):
        A, B = np.asarray(A), np.asarray(B)
        if A.shape != B.shape:
            if self.P is not None:
                return self.P.arrays_eq(label, A, B, kind=kind)
            self.res[label + ".shape"] = dict(ok=False, lhs=str(A.shape), rhs=str(B.shape), kind=kind)
            return
        for i in np.ndindex(*A.shape):
            self.eq("%s[%s]" % (label, ",".join(map(str, i))), A[i], B[i], kind)

    def ge0(self, label, v, kind, scale=1.0):
        if self.P is not None:
            if self._skip(label, kind):
                return None
            return self._count(self.P.holds(label, v >= 0, kind=kind), kind)
        self.res[label] = dict(ok=bool(float(v) >= -1e-10 * max(1.0, abs(float(scale)))), lhs=repr(float(v)), rhs=">= 0",
                               kind=kind)

    def true(self, label, cond, kind):
        if self.P is not None:
            return self._count(self.P.holds(label, cond, kind=kind), kind)
        self.res[label] = dict(ok=bool(cond), lhs=repr(bool(cond)), rhs="True", kind=kind)


def prefer_moderate(V, syms, lo="1/4"):
    """Witness preference for the float replay: the given positive symbols are >= lo (only a preference: if the
    counterexample does not exist there the solver's original model is kept)."""
    if not V.symbolic:
        return
    c = V.c
    if not hasattr(c, "witness_prefs") or c.witness_prefs is None:
        c.witness_prefs = []
    for s in syms:
        p = (s >= R.of(lo))
        if isinstance(p, SB):
            c.witness_prefs.append(p.t)


def prefer(V, cond):
    """Witness preference (any symbolic condition); see prefer_moderate."""
    if not V.symbolic:
        return
    c = V.c
    if not hasattr(c, "witness_prefs") or c.witness_prefs is None:
        c.witness_prefs = []
    if isinstance(cond, SB):
        c.witness_prefs.append(cond.t)


def generic_replay(SCEN, cfg, label, env):
    """Re-run the scenario on the real library with the model's numbers; evaluate the violated clause numerically."""
    import warnings
    from .common import Vals
    warnings.simplefilter("ignore")
    chk = Chk(None)
    try:
        SCEN[cfg["kind"]](Vals(env=env), None, cfg, chk=chk)
    except Exception as e:
        if label.startswith("exception:"):
            return dict(reproduced=type(e).__name__ == label.split(":", 1)[1],
                        detail="%s: %s" % (type(e).__name__, str(e)[:200]))
        from .common import _raised_in_repo
        return dict(reproduced=(True if _raised_in_repo(e) else None),
                    detail="replay raised %s: %s" % (type(e).__name__, str(e)[:200]))
    if label.startswith("exception:"):
        return dict(reproduced=False, detail="no exception on the real library")
    if label == "*":
        bad = sorted(k for k, v in chk.res.items() if not v["ok"])
        if bad:
            r0 = chk.res[bad[0]]
            return dict(reproduced=True, detail=dict(clause=bad[0], observed=r0["lhs"], expected=r0["rhs"], other_failing=bad[1:7]))
        return dict(reproduced=False, detail="every clause holds on the real library")
    r = chk.res.get(label)
    if r is None:
        return dict(reproduced=None, detail="label %s not produced by the concrete run" % label)
    return dict(reproduced=not r["ok"], detail=dict(observed=r["lhs"], expected=r["rhs"], clause=r["kind"]))
