"""C20 - result files decode back to the data that was written (structure only).

The bytes produced by base64 / struct / float32 conversion / float.__format__ are C code and are
not encoded; what is pyMOTO logic is executed for real and decided:

vti      DomainDefinition.write_to_vti on *stand-ins*: the grid sizes nelx, nely, nelz <= vti_max (BOUNDS) and the
         number of components c <= 6 are symbolic integers (symx.zint.Z, unsigned bit-vectors
         because of `%` and `//` by nel / nnodes), the vectors are objects with symbolic
         size / shape whose payload is an opaque token, `open` is redirected to an in-memory
         recorder, base64 / struct stay real (they encode the small token).  The written XML is
         parsed back and compared with what the property demands.  Quantifier of the property:
         domains with  nnodes % nel != 0  (nel < nnodes always).
writer   WriteToVTI: file name per iteration (.0000, .0001, ... / overwrite) with the iteration
         counter symbolic (inductive step from an arbitrary counter), data dictionary in signal
         order, scale passed on; plus a concrete end-to-end run on a real domain in a temp dir.
scalar   ScalarToFile: header once, one row per call, len(row) == len(header), columns in signal
         order / row-major, separator rule; iteration counter symbolic for the "header only at
         iteration 0" clause.
"""
import base64
import contextlib
import os
import re
import shutil
import struct
import sys
import tempfile
import warnings
import xml.etree.ElementTree as ET
import numpy as np
import z3

from symx import R
from symx import zint as _z
from symx.zint import Z, zint
from .common import symbolic_run, Vals
from .refs_chk import Chk, LAST, _obs

PROPERTY = "C20"
BOUNDS = {
    "quick": dict(vti_sizes="nelx, nely, nelz symbolic in 1..vti_max (16-bit bit-vectors)", vti_max_2d=12, vti_max_3d=6,
                  vti_components="c symbolic in 1..6",
                  vti_dims=[2, 3], vti_block_rows=[2, 3], vti_layouts=["flat", "rows (r, c*n)", "cols (c*n, r)"],
                  vti_scale_origin_spacing="symbolic reals", writer_iterations="0..3 concrete + symbolic counter 0..10^6",
                  writer_saveto=["dat.vti", "res.v1/dat.vti", "dat"], scalar_calls=3,
                  scalar_files=["log.txt", "log.csv", "log.dat", "run.csv.d/log.txt"],
                  scalar_shapes=["scalar", "(1,)", "(3,)", "(2,2)", "(2,3)"]),
}
BOUNDS["thorough"] = dict(BOUNDS["quick"], vti_block_rows=[2, 3, 4], vti_max_3d=10)
OUTSIDE = ["bytes produced by base64.b64encode, struct.pack, ndarray.astype(float32), float.__format__ (C code, trusted)",
           "whether a VTK reader accepts the length header: pyMOTO writes the length of the *encoded* block, readers "
           "following the VTK file-format description expect the number of raw bytes (both are accepted here)",
           "grid sizes beyond vti_max per direction, more than 6 components, block vectors with more rows than listed",
           "nel and nnodes are set from their definition nelx*nely*max(nelz,1), (nelx+1)(nely+1)(nelz+1) for the symbolic "
           "run (DomainDefinition.__init__ needs concrete sizes; C13 checks these attributes on enumerated grids)",
           "figure modules (PlotDomain, PlotGraph, PlotIter)", "DataArray names of block vectors beyond 'distinct and prefixed by the key'"]
ASSUMPTIONS = ["integer arithmetic of write_to_vti modelled by 16-bit unsigned bit-vectors; the no-wrap-around side conditions of "
               "every + and * are discharged as obligations of kind 'bv-no-wraparound'",
               "quantifier of the property: only domains with nnodes % nel != 0 (and nel % nnodes != 0, which always holds)",
               "a vector is *meant* as cell data when it is constructed with size c*nel and as point data when constructed "
               "with size c*nnodes; block vectors (r, c*n) / (c*n, r) are meant as r vectors",
               "np.nditer on object arrays is replaced by the pure-Python iterator of symx.npshim in the symbolic run; the "
               "concrete twin runs the real np.nditer"]
ITEM_TIMEOUT = {"quick": 240, "thorough": 600}
REPLAYS_PER_GROUP = 2
WIDTH = 16
CMAX = 6


def items(tier):
    b = BOUNDS[tier]
    out = []

    def vti(name, dim, vectors, **kw):
        out.append(dict(kind="vti", id="vti-%dd-%s" % (dim, name), dim=dim, vectors=vectors, hi=b["vti_max_%dd" % dim],
                        width=WIDTH, cmax=CMAX, **kw))
    for dim in b["vti_dims"]:
        vti("cell-flat", dim, [dict(key="x", kind="cell", layout="flat", rows=0)])
        # per iteration: the same domain written repeatedly (the LAST file is examined, and the domain afterwards)
        vti("mixed-third-write", dim, [dict(key="x", kind="cell", layout="flat", rows=0), dict(key="u", kind="point", layout="flat", rows=0)],
            writes=3)
        vti("point-flat", dim, [dict(key="u", kind="point", layout="flat", rows=0)])
        vti("mixed", dim, [dict(key="x", kind="cell", layout="flat", rows=0), dict(key="u", kind="point", layout="flat", rows=0)])
        for r in b["vti_block_rows"]:
            for lay in ("rows", "cols"):
                vti("cell-%s%d" % (lay, r), dim, [dict(key="b", kind="cell", layout=lay, rows=r)])
                vti("point-%s%d" % (lay, r), dim, [dict(key="b", kind="point", layout=lay, rows=r)])
    for ov in (False, True):
        for i, sv in enumerate(b["writer_saveto"]):
            out.append(dict(kind="writer", id="writer-%s-%d" % ("overwrite" if ov else "numbered", i), saveto=sv, overwrite=ov, iters=4))
    sc = [("txt-mixed", "log.txt", None, None, [[], [3], [2, 2], []]),
          ("csv-1d", "log.csv", None, None, [[], [3], []]),
          ("csv-2d", "log.csv", None, None, [[2, 2], []]),
          ("dat-semicolon", "log.dat", ";", ".3f", [[2], [2, 3]]),
          ("txt-fmt-e", "log.txt", " | ", "e", [[], [2]]),
          ("txt-vec1", "log.txt", None, None, [[1]]),
          ("txt-transposed-view", "log.txt", None, None, [[3, 2, "T"], []]),
          ("csv-transposed-view", "log.csv", None, None, [[2], [2, 3, "T"]]),
          ("txt-in-csv-dir", "run.csv.d/log.txt", None, None, [[], [2]]),
          ("csv-uppercase-extension", "LOG.CSV", None, None, [[], [2]]),
          ("csv-mixedcase-extension-semicolon", "Run1.Csv", ";", None, [[2]])]
    for name, f, sep, fmt, sig in sc:
        out.append(dict(kind="scalar", id="scalar-" + name, file=f, separator=sep, fmt=fmt, signals=sig, calls=b["scalar_calls"]))
    return out


# ------------------------------------------------------------------------------------------------
# tokens and stand-ins (symbolic run only)
_RT = {}
_PAY = {}
_RTOK = re.compile(r"@R(\d+):([^@]*)@")


def _reset_tokens():
    _z.reset()
    _RT.clear()
    _PAY.clear()


class RT(R):
    """Real scalar whose products stay RT and whose text form is a token (instead of digits)."""
    __slots__ = ()

    @staticmethod
    def wrap(r):
        r = R.of(r)
        return RT(q=r.q, n=r._n, d=r.d)

    def __mul__(self, o):
        r = R.__mul__(self, o)
        return RT.wrap(r) if isinstance(r, R) else r

    __rmul__ = __mul__

    def __format__(self, spec):
        k = len(_RT) + 1
        _RT[k] = (self, spec)
        return "@R%d:%s@" % (k, spec)

    __str__ = lambda self: self.__format__("")


class Payload(bytes):
    """What `vec.astype(np.float32)` returns for a stand-in: bytes-like token naming the data."""

    def __new__(cls, key, sel, dtype):
        k = len(_PAY) + 1
        self = bytes.__new__(cls, b"PAYLOAD#%d;" % k)
        self.key, self.sel, self.dtype = key, sel, dtype
        _PAY[k] = self
        return self

    def __getitem__(self, s):
        if isinstance(s, slice):
            return SliceTok(self, (s.start, s.stop, s.step))
        return bytes.__getitem__(self, s)


class SliceTok:
    def __init__(self, payload, sl):
        self.payload, self.sl = payload, sl


class PadBuf(bytearray):
    """What np.zeros(<symbolic size>, dtype=float32) returns: records strided assignments."""

    def __init__(self, size, dtype):
        k = len(_PAY) + 1
        bytearray.__init__(self, b"PAYLOAD#%d;" % k)
        self.size, self.dtype, self.assigns = size, dtype, []
        _PAY[k] = self

    def __setitem__(self, s, v):
        if isinstance(v, SliceTok) and isinstance(s, slice):
            self.assigns.append(((s.start, s.stop, s.step), v))
        else:
            raise TypeError("PadBuf: unexpected assignment %r <- %r" % (s, v))


class VecStandIn:
    """Array stand-in: symbolic size / shape, opaque payload."""

    def __init__(self, key, shape, sel=None):
        self.key, self.shape, self.sel = key, tuple(shape), sel
        self.ndim = len(self.shape)
        n = 1
        for s in self.shape:
            n = n * s
        self.size = n

    def astype(self, dtype):
        return Payload(self.key, self.sel, np.dtype(dtype).name)

    def __getitem__(self, ind):
        if not (isinstance(ind, tuple) and len(ind) == 2 and self.ndim == 2 and self.sel is None):
            raise TypeError("VecStandIn: unexpected index %r" % (ind,))
        ax = [a for a in (0, 1) if not isinstance(ind[a], slice)]
        if len(ax) != 1 or ind[1 - ax[0]] != slice(None):
            raise TypeError("VecStandIn: unexpected index %r" % (ind,))
        return VecStandIn(self.key, (self.shape[1 - ax[0]],), sel=(ax[0], int(ind[ax[0]])))


class NPWrap:
    """numpy stand-in inside pymoto.common.domain for the duration of one call: `zeros` with a
    symbolic size gives a PadBuf, with a concrete size and float32 the real numpy array (the symx
    shim would give an object array, which base64 cannot encode)."""

    def __init__(self, inner):
        self._inner = inner

    def __getattr__(self, name):
        return getattr(self._inner, name)

    def zeros(self, shape, dtype=None, **k):
        if isinstance(shape, Z):
            return PadBuf(shape, np.dtype(dtype).name)
        if dtype is np.float32:
            return np.zeros(shape, dtype=dtype, **k)
        return self._inner.zeros(shape, dtype=dtype, **k)


class Recorder:
    """In-memory replacement for `open` (write / append only)."""

    def __init__(self):
        self.files = {}
        self.opens = []

    def open(self, name, mode="r", *a, **k):
        name = os.fspath(name)
        self.opens.append((name, mode))
        return _RecFile(self, name, mode)


class _RecFile:
    """Data reach the (in-memory) file when the handle is flushed or closed - what Python guarantees for a buffered
    text/binary file; bytes still sitting in a handle that is kept open are not part of the file."""

    def __init__(self, rec, name, mode):
        self.rec, self.name = rec, name
        self.buf = b""
        self.closed = False
        if mode.startswith("w"):
            rec.files[name] = b""
        elif mode.startswith("a"):
            rec.files.setdefault(name, b"")
        else:
            raise FileNotFoundError(name)

    def write(self, data):
        if self.closed:
            raise ValueError("I/O operation on closed file.")
        if isinstance(data, str):
            data = data.encode()
        self.buf += bytes(data)
        return len(data)

    def flush(self):
        self.rec.files[self.name] += self.buf
        self.buf = b""

    def close(self):
        if not self.closed:
            self.flush()
            self.closed = True

    def __enter__(self):
        return self

    def __exit__(self, *a):
        self.close()
        return False


@contextlib.contextmanager
def patched(mod, opener=None, wrap_np=False):
    """Rebind `open` / `np` in the namespace of one pymoto module (this process, this call only)."""
    had_open = "open" in mod.__dict__
    old_open = mod.__dict__.get("open")
    old_np = mod.__dict__.get("np")
    try:
        if opener is not None:
            mod.__dict__["open"] = opener
        if wrap_np:
            mod.__dict__["np"] = NPWrap(old_np)
        yield
    finally:
        if opener is not None:
            if had_open:
                mod.__dict__["open"] = old_open
            else:
                mod.__dict__.pop("open", None)
        if wrap_np:
            mod.__dict__["np"] = old_np


def _mkdtemp():
    return tempfile.mkdtemp(prefix="symx_c20_", dir="/tmp")


# ------------------------------------------------------------------------------------------------
# reading a written VTI file back (independent of the writer: ElementTree + base64 + struct)
def _value(s):
    """Number behind a printed attribute entry: token -> Z / R, digits -> int / float."""
    t = _z.lookup_token(s)
    if t is not None:
        return t[0]
    m = _RTOK.fullmatch(s)
    if m and int(m.group(1)) in _RT:
        return _RT[int(m.group(1))][0]
    try:
        return int(s)
    except ValueError:
        return float(s)


def _decode_block(text, byte_order):
    """(length header, length of the encoded block, raw bytes) of a DataArray's text."""
    t = (text or "").strip()
    hdr, body = t[:12], t[12:]
    n = struct.unpack(("<" if byte_order == "LittleEndian" else ">") + "Q", base64.b64decode(hdr, validate=True))[0]
    return n, len(body), base64.b64decode(body, validate=True)


def _parse_vti(K, data, n3, spacing, origin):
    """Structure + header attributes of the file; returns the list of (section, DataArray element)."""
    try:
        root = ET.fromstring(data)
    except ET.ParseError as e:
        K.holds("well-formed-xml", False, "vti-structure", info=str(e))
        return None, None
    K.holds("well-formed-xml", True, "vti-structure")
    bo = "LittleEndian" if sys.byteorder == "little" else "BigEndian"
    K.holds("root", root.tag == "VTKFile" and root.get("type") == "ImageData" and root.get("header_type") == "UInt64"
            and root.get("byte_order") == bo, "vti-structure", info=dict(tag=root.tag, attrib=dict(root.attrib)))
    imgs = list(root)
    ok = len(imgs) == 1 and imgs[0].tag == "ImageData" and len(list(imgs[0])) == 1 and list(imgs[0])[0].tag == "Piece"
    K.holds("one-ImageData-one-Piece", ok, "vti-structure")
    if not ok:
        return None, None
    img = imgs[0]
    piece = list(img)[0]
    exp_ext = [0, n3[0], 0, n3[1], 0, n3[2]]
    for what, el, attr in (("WholeExtent", img, "WholeExtent"), ("Piece.Extent", piece, "Extent")):
        ent = (el.get(attr) or "").split()
        K.holds("%s-has-6-entries" % what, len(ent) == 6, "vti-extent")
        for q in range(min(6, len(ent))):
            K.eq("%s[%d]" % (what, q), _value(ent[q]), exp_ext[q], "vti-extent")
    for what, exp in (("Spacing", spacing), ("Origin", origin)):
        ent = (img.get(what) or "").split()
        K.holds("%s-has-3-entries" % what, len(ent) == 3, "vti-geometry")
        for q in range(min(3, len(ent))):
            K.eq("%s[%d]" % (what, q), _value(ent[q]), exp[q], "vti-geometry")
            m_ = _RTOK.fullmatch(ent[q])
            if m_ is not None:
                # symbolic run: the number was rendered through a format specification; a fixed-point form (absolute precision,
                # e.g. the 6 decimals of 'f') or a general / exponent form with fewer than 10 significant digits writes
                # another number for generic values (relative error > 1e-9); str / repr and '.10g' or finer are accepted
                spec = m_.group(2)
                mm_ = re.fullmatch(r"[<>=^]?[-+ ]?#?0?\d*,?\.(\d+)([eEgG])", spec)
                okspec = spec in ("", "r", "s", "!r") or (mm_ is not None and int(mm_.group(1)) >= (9 if mm_.group(2) in "eE" else 10))
                K.holds("%s[%d]-written-with-full-precision" % (what, q), okspec, "vti-geometry", info=dict(format_spec=spec))
            else:
                # real run: the decimal text reads back to the number to a relative 1e-9
                try:
                    tv, ev = float(ent[q]), float(exp[q])
                    same = abs(tv - ev) <= 1e-9 * abs(ev)
                except (TypeError, ValueError):
                    same = False
                K.holds("%s[%d]-written-with-full-precision" % (what, q), same, "vti-geometry",
                        info=dict(text=ent[q], expected=repr(exp[q]) if not isinstance(exp[q], R) else None))
    secs = [ch.tag for ch in piece]
    K.holds("sections", all(s in ("PointData", "CellData") for s in secs) and len(set(secs)) == len(secs),
            "vti-structure", info=secs)
    arrays = []
    for sec in piece:
        for da in sec:
            arrays.append((sec.tag, da))
    K.holds("only-DataArray-children", all(da.tag == "DataArray" for _, da in arrays), "vti-structure")
    return arrays, bo


# ------------------------------------------------------------------------------------------------
def sc_vti(V, P, cfg):
    from pymoto.common import domain as dmod
    from pymoto.common.domain import DomainDefinition
    _reset_tokens()
    K = Chk(P)
    dim, hi, w = cfg["dim"], cfg["hi"], cfg["width"]
    nx = zint(V, "nelx", lo=1, hi=hi, width=w, default=1)
    ny = zint(V, "nely", lo=1, hi=hi, width=w, default=4)
    nz = zint(V, "nelz", lo=1, hi=hi, width=w, default=2) if dim == 3 else 0
    unit = [V.real(nm, positive=True, default=df) for nm, df in (("unitx", 0.5), ("unity", 1.25), ("unitz", 2.0))]
    scale = V.real("scale", positive=True, default=2.0)
    origin = [V.real(nm, default=df) for nm, df in (("originx", 0.25), ("originy", -1.5), ("originz", 3.0))]
    if V.symbolic:
        unit, origin, scale = [RT.wrap(u) for u in unit], [RT.wrap(o) for o in origin], RT.wrap(scale)
        dom = object.__new__(DomainDefinition)
        dom.nelx, dom.nely, dom.nelz, dom.dim = nx, ny, nz, dim
        dom.nel = nx * ny * (nz if dim == 3 else 1)                     # definitions of __init__ (see OUTSIDE)
        dom.nnodes = (nx + 1) * (ny + 1) * ((nz + 1) if dim == 3 else 1)
        dom.element_size = np.array(unit, dtype=object)
        V.assume(dom.nnodes % dom.nel != 0, "quantifier of the property: nnodes is not a multiple of nel")
    else:
        dom = DomainDefinition(nx, ny, nz, unitx=unit[0], unity=unit[1], unitz=unit[2])
    nel, nnodes = dom.nel, dom.nnodes
    specs = cfg["vectors"]
    vectors, meta = {}, {}
    for q, sp in enumerate(specs):
        key = sp["key"]
        c = zint(V, "c_" + key, lo=1, hi=cfg["cmax"], width=w, default=2)
        long = c * (nel if sp["kind"] == "cell" else nnodes)
        shape = {"flat": (long,), "rows": (sp["rows"], long), "cols": (long, sp["rows"])}[sp["layout"]]
        if V.symbolic:
            vectors[key] = VecStandIn(key, shape)
        else:
            tot = int(np.prod(shape))
            vectors[key] = (100.0 * q + 1.0 + 0.25 * np.arange(tot, dtype=float)).reshape(shape)
        meta[key] = dict(c=c, shape=shape)
    # ---- the call
    tmp = None
    try:
        with warnings.catch_warnings():
            warnings.simplefilter("ignore")
            if V.symbolic:
                rec = Recorder()
                unit_before = list(dom.element_size)
                for _w in range(cfg.get("writes", 1) - 1):     # earlier iterations with the same domain
                    with patched(dmod, opener=Recorder().open, wrap_np=True):
                        dom.write_to_vti(vectors, filename="/virtual/earlier.vti", scale=scale, origin=tuple(origin))
                with patched(dmod, opener=rec.open, wrap_np=True):
                    dom.write_to_vti(vectors, filename="/virtual/out.vti", scale=scale, origin=tuple(origin))
                data = rec.files.get("/virtual/out.vti")
                K.holds("exactly-one-file-opened", rec.opens == [("/virtual/out.vti", "wb")], "vti-structure", info=rec.opens)
                K.holds("domain-unchanged-by-writing", len(dom.element_size) == len(unit_before) and
                        all(a is b_ for a, b_ in zip(dom.element_size, unit_before)), "vti-domain-unchanged")
            else:
                tmp = _mkdtemp()
                fn = os.path.join(tmp, "out.vti")
                unit_before = np.array(dom.element_size, dtype=float).copy()
                for _w in range(cfg.get("writes", 1)):
                    dom.write_to_vti(vectors, filename=fn, scale=scale, origin=tuple(origin))
                K.holds("domain-unchanged-by-writing", bool(np.array_equal(unit_before, np.asarray(dom.element_size, dtype=float))),
                        "vti-domain-unchanged")
                data = open(fn, "rb").read() if os.path.exists(fn) else None
                K.holds("exactly-one-file-opened", os.listdir(tmp) == ["out.vti"], "vti-structure", info=os.listdir(tmp))
    finally:
        if tmp is not None:
            shutil.rmtree(tmp, ignore_errors=True)
    K.holds("file-written", data is not None, "vti-structure")
    obs = {}
    if data is None:
        return obs
    arrays, bo = _parse_vti(K, data, (nx, ny, nz), [u * scale for u in unit], [o * scale for o in origin])
    if arrays is None:
        return obs
    facts = dict(nelx=_show(nx), nely=_show(ny), nelz=_show(nz), nel=_show(nel), nnodes=_show(nnodes))
    for sp in specs:
        key, kind, lay, rows = sp["key"], sp["kind"], sp["layout"], sp["rows"]
        c = meta[key]["c"]
        mine = [(sec, da) for sec, da in arrays if da.get("Name") == key or (da.get("Name") or "").startswith(key + "(")]
        K.holds("written:" + key, len(mine) > 0, "written", info=facts)
        if not mine:
            continue
        exp_sec = "CellData" if kind == "cell" else "PointData"
        got_secs = sorted(set(sec for sec, _ in mine))
        info = dict(facts, key=key, meant_as="%s data with c=%s components" % (kind, _show(c)), shape=[_show(s) for s in meta[key]["shape"]],
                    found_in=got_secs, NumberOfComponents=[da.get("NumberOfComponents") for _, da in mine][:8], arrays=len(mine))
        K.holds("section:" + key, got_secs == [exp_sec], "section", info=info)
        obs["section_" + key] = float(got_secs == ["PointData"])
        obs["arrays_" + key] = float(len(mine))
        if got_secs != [exp_sec]:
            continue
        n_exp = 1 if lay == "flat" else rows
        K.holds("array-count:" + key, len(mine) == n_exp, "block-count", info=info)
        if len(mine) != n_exp:
            continue
        names = [da.get("Name") for _, da in mine]
        K.holds("array-names-distinct:" + key, len(set(names)) == len(names), "block-count", info=names)
        # number of components: c, except 2-D domain with 2 nodal components -> padded to 3
        pad_case = kind == "point" and dim == 2
        if V.symbolic:
            exp_nc = Z(z3.If(c.t == 2, z3.BitVecVal(3, w), c.t), w) if pad_case else c
        else:
            exp_nc = 3 if (pad_case and c == 2) else c
        for i, (sec, da) in enumerate(mine):
            nm = "%s[%d]" % (key, i)
            K.holds("DataArray-attributes:" + nm, da.get("type") == "Float32" and da.get("format") == "binary", "vti-structure",
                    info=dict(da.attrib))
            nc = _value(da.get("NumberOfComponents"))
            K.eq("NumberOfComponents:" + nm, nc, exp_nc, "components")
            if i == 0:
                obs["ncomp_" + key] = _obs(nc)
            try:
                hdr, nenc, raw = _decode_block(da.text, bo)
            except Exception as e:
                K.holds("block-decodes:" + nm, False, "payload", info="%s: %s" % (type(e).__name__, e))
                continue
            K.holds("block-decodes:" + nm, True, "payload")
            K.holds("length-header:" + nm, hdr in (nenc, len(raw)), "length-header", info=dict(header=hdr, encoded=nenc, raw=len(raw)))
            sel = None if lay == "flat" else ((0, i) if lay == "rows" else (1, i))
            if V.symbolic:
                m = re.fullmatch(rb"PAYLOAD#(\d+);", raw)
                tok = _PAY.get(int(m.group(1))) if m else None
                padded = isinstance(tok, PadBuf)
                if pad_case:
                    K.holds("padded-iff-2-components:" + nm, (c == 2) if padded else (c != 2), "padding")
                else:
                    K.holds("not-padded:" + nm, not padded, "padding")
                if padded:
                    K.eq("padded-size:" + nm, tok.size, 3 * nnodes, "padding")
                    a = tok.assigns
                    ok = tok.dtype == "float32" and len(a) == 2 and \
                        [(d, s.sl) for d, s in a] == [((0, None, 3), (0, None, 2)), ((1, None, 3), (1, None, 2))] and \
                        all(isinstance(s.payload, Payload) and s.payload.key == key and s.payload.sel == sel
                            and s.payload.dtype == "float32" for _, s in a)
                    K.holds("payload:" + nm, ok, "payload")
                else:
                    ok = isinstance(tok, Payload) and tok.key == key and tok.sel == sel and tok.dtype == "float32"
                    K.holds("payload:" + nm, ok, "payload")
            else:
                vec = vectors[key]
                src = vec if sel is None else (vec[i, :] if sel[0] == 0 else vec[:, i])
                src = [float(np.float32(v)) for v in np.asarray(src).ravel()]
                if pad_case and c == 2:
                    exp = []
                    for nod in range(nnodes):
                        exp += [src[2 * nod], src[2 * nod + 1], 0.0]
                else:
                    exp = src
                got = np.frombuffer(raw, dtype=np.float32).tolist() if len(raw) % 4 == 0 else None
                padded = len(raw) != 4 * len(src)           # the block is not the input row itself
                if pad_case:
                    K.holds("padded-iff-2-components:" + nm, (c == 2) == padded, "padding", info=dict(values=len(raw) // 4, input=len(src)))
                else:
                    K.holds("not-padded:" + nm, not padded, "padding", info=dict(values=len(raw) // 4, input=len(src)))
                if padded:
                    K.eq("padded-size:" + nm, len(raw) // 4, 3 * nnodes, "padding")
                K.holds("payload:" + nm, got == exp, "payload", info=dict(got=(got or [])[:12], expected=exp[:12]))
    # the section order and the absence of foreign arrays
    K.holds("no-foreign-arrays", all(any(da.get("Name") == sp["key"] or (da.get("Name") or "").startswith(sp["key"] + "(")
                                         for sp in specs) for _, da in arrays), "vti-structure")
    K.guards()
    return obs


def _show(x):
    if isinstance(x, Z):
        v = x.value()
        return v if v is not None else repr(x)
    if isinstance(x, (np.integer, int)):
        return int(x)
    return repr(x)


# ------------------------------------------------------------------------------------------------
class _FakeDomain:
    """Duck-typed domain for the WriteToVTI module: records what the module hands to write_to_vti."""

    def __init__(self):
        self.calls = []

    def write_to_vti(self, vectors, filename="out.vti", scale=1.0, origin=(0.0, 0.0, 0.0)):
        self.calls.append(dict(keys=list(vectors.keys()), values=list(vectors.values()), filename=filename, scale=scale))


def sc_writer(V, P, cfg):
    import pymoto as pym
    from pymoto.common import domain as dmod
    _reset_tokens()
    K = Chk(P)
    ov, iters = cfg["overwrite"], cfg["iters"]
    scale = V.real("scale", positive=True, default=2.0)
    it = zint(V, "iter", lo=0, hi=10 ** 6, default=12)
    tmp = _mkdtemp()
    obs = {}
    try:
        with warnings.catch_warnings():
            warnings.simplefilter("ignore")
            saveto = os.path.join(tmp, "run", cfg["saveto"])
            fake = _FakeDomain()
            b = object()
            s1, s2 = pym.Signal("rho", object()), pym.Signal("u", b)
            m = pym.WriteToVTI([s1, s2], domain=fake, saveto=saveto, overwrite=ov, scale=scale)
            K.holds("parent-directory-created", os.path.isdir(os.path.dirname(saveto)), "writer-dir")
            root, ext = os.path.splitext(saveto)
            names = []
            for k in range(iters):
                a = object()
                s1.state = a
                m.response()
                K.holds("one-write-per-response[%d]" % k, len(fake.calls) == k + 1, "writer-calls")
                if len(fake.calls) != k + 1:
                    return obs
                call = fake.calls[-1]
                exp = saveto if ov else "%s.%04d%s" % (root, k, ext)
                K.holds("filename[iteration %d]" % k, call["filename"] == exp, "writer-filename",
                        info=dict(got=str(call["filename"]).replace(tmp, "<tmp>"), expected=exp.replace(tmp, "<tmp>")))
                K.holds("vectors[iteration %d]" % k, call["keys"] == ["rho", "u"] and len(call["values"]) == 2
                        and call["values"][0] is a and call["values"][1] is b, "writer-data", info=call["keys"])
                K.holds("scale[iteration %d]" % k, call["scale"] is scale, "writer-data")
                names.append(call["filename"])
            K.holds("filenames-constant" if ov else "filenames-distinct", len(set(names)) == (1 if ov else iters), "writer-filename")
            # inductive step: arbitrary iteration counter
            m.iter = it
            m.response()
            fn = fake.calls[-1]["filename"]
            if ov:
                K.holds("filename[iteration k]", fn == saveto, "writer-filename")
            elif V.symbolic:
                toks = _z.find_tokens(fn)
                shape_ok = len(toks) == 1 and toks[0][1] == "04d" and re.sub(r"@Z\d+:[^@]*@", "#", fn) == root + ".#" + ext
                K.holds("filename[iteration k]-pattern", shape_ok, "writer-filename", info=fn.replace(tmp, "<tmp>"))
                if len(toks) == 1:
                    K.eq("filename[iteration k]-counter", toks[0][0], it, "writer-filename")
            else:
                K.holds("filename[iteration k]-pattern", fn == "%s.%04d%s" % (root, it, ext), "writer-filename",
                        info=dict(got=fn.replace(tmp, "<tmp>"), iter=it))
            K.eq("counter-incremented", m.iter, it + 1, "writer-counter")
            obs["iter_after"] = _obs(m.iter)
            # ---- concrete end-to-end run: real domain, real files, well-formed and decodable per iteration
            dom = pym.DomainDefinition(3, 3)       # nel 9, nnodes 16: inside the quantifier, 2*nnodes % nel != 0
            xs = [0.125 * (k + 1) + 0.25 * np.arange(dom.nel) for k in range(3)]
            u = 0.5 * np.arange(2 * dom.nnodes)
            sx, su = pym.Signal("x", xs[0]), pym.Signal("u", u)
            saveto2 = os.path.join(tmp, "e2e", cfg["saveto"])
            with patched(dmod, wrap_np=True):
                m2 = pym.WriteToVTI([sx, su], domain=dom, saveto=saveto2, overwrite=ov, scale=2.0)
                for k in range(3):
                    sx.state = xs[k]
                    m2.response()
            r2, e2 = os.path.splitext(saveto2)
            if ov:
                expected = {saveto2 if ".vti" in e2.lower() else saveto2 + ".vti": 2}
            else:
                expected = {}
                for k in range(3):
                    nm = "%s.%04d%s" % (r2, k, e2)
                    expected[nm if ".vti" in os.path.splitext(nm)[-1].lower() else nm + ".vti"] = k
            found = sorted(os.path.join(os.path.dirname(saveto2), f) for f in os.listdir(os.path.dirname(saveto2)))
            K.holds("e2e-files", found == sorted(expected), "writer-e2e",
                    info=dict(found=[f.replace(tmp, "<tmp>") for f in found], expected=[f.replace(tmp, "<tmp>") for f in sorted(expected)]))
            for fn2, k in sorted(expected.items()):
                if not os.path.exists(fn2):
                    continue
                tag = os.path.basename(fn2)
                try:
                    rt = ET.fromstring(open(fn2, "rb").read())
                    da = {d.get("Name"): (sec.tag, d) for sec in rt.iter() if sec.tag in ("PointData", "CellData") for d in sec}
                    ok = da["x"][0] == "CellData" and da["u"][0] == "PointData" and da["u"][1].get("NumberOfComponents") == "3"
                    gx = np.frombuffer(_decode_block(da["x"][1].text, rt.get("byte_order"))[2], dtype=np.float32)
                    gu = np.frombuffer(_decode_block(da["u"][1].text, rt.get("byte_order"))[2], dtype=np.float32)
                    ok = ok and gx.tolist() == [float(np.float32(v)) for v in xs[k]]
                    ok = ok and gu.reshape(-1, 3)[:, :2].ravel().tolist() == [float(np.float32(v)) for v in u] \
                        and not np.any(gu.reshape(-1, 3)[:, 2])
                    K.holds("e2e-decodes[%s]" % tag, bool(ok), "writer-e2e")
                except Exception as e:
                    K.holds("e2e-decodes[%s]" % tag, False, "writer-e2e", info="%s: %s" % (type(e).__name__, e))
    finally:
        shutil.rmtree(tmp, ignore_errors=True)
    return obs


# ------------------------------------------------------------------------------------------------
class TokVal:
    """Opaque logged value: its text form names the value and the format spec it was printed with."""

    def __init__(self, name):
        self.name = name

    def __format__(self, spec):
        return "<%s|%s>" % (self.name, spec)


def _ref_order(shape):
    """Row-major (C order) multi-indices by explicit counting (independent of numpy's iterators)."""
    idx = [()]
    for n in shape:
        idx = [p + (q,) for p in idx for q in range(n)]
    return idx


def sc_scalar(V, P, cfg):
    import pymoto as pym
    from pymoto.modules import io as iomod
    _reset_tokens()
    K = Chk(P)
    fmt = cfg["fmt"] or ".10e"
    sep_exp = "," if cfg["file"].lower().endswith(".csv") else (cfg["separator"] or "\t")
    transposed = [len(s) > 0 and s[-1] == "T" for s in cfg["signals"]]
    shapes = [tuple(x for x in s if x != "T") for s in cfg["signals"]]
    it = zint(V, "iter", lo=0, hi=10 ** 6, default=5)
    tmp = _mkdtemp()
    obs = {}

    def fresh(call):
        """States of all signals for one call + the expected printed columns in order."""
        states, cols = [], []
        for q, shp in enumerate(shapes):
            if transposed[q]:
                # a transposed VIEW (not C-contiguous): NumPy's iterators walk it in memory order; the file is checked
                # through the header names (each column must hold the entry its header names)
                base_shape = tuple(reversed(shp))
                if V.symbolic:
                    base = np.empty(base_shape, dtype=object)
                    for idx in _ref_order(base_shape):
                        base[idx] = TokVal("s%d_%s_call%s" % (q, "_".join(map(str, idx)), call))
                else:
                    base = np.empty(base_shape, dtype=float)
                    for r, idx in enumerate(_ref_order(base_shape)):
                        base[idx] = 10.0 * q + (call if isinstance(call, int) else 7) * 0.5 + 0.125 * r
                st = base.T
                cols.extend([None] * len(_ref_order(shp)))
                states.append(st)
                continue
            if V.symbolic:
                mk = lambda idx: TokVal("s%d_%s_call%s" % (q, "_".join(map(str, idx)), call))
                if shp == ():
                    st = mk(())
                    cols.append(format(st, fmt))
                else:
                    st = np.empty(shp, dtype=object)
                    for idx in _ref_order(shp):
                        st[idx] = mk(idx)
                        cols.append(format(st[idx], fmt))
            else:
                base = 10.0 * q + (call if isinstance(call, int) else 7) * 0.5
                if shp == ():
                    st = base + 0.375
                    cols.append(format(st, fmt))
                else:
                    st = np.empty(shp, dtype=float)
                    for r, idx in enumerate(_ref_order(shp)):
                        st[idx] = base + 0.125 * r
                        cols.append(format(float(st[idx]), fmt))
            states.append(st)
        return states, cols

    try:
        saveto = os.path.join(tmp, cfg["file"])
        sigs = [pym.Signal("sig%d" % q) for q in range(len(shapes))]
        kw = {}
        if cfg["fmt"]:
            kw["fmt"] = cfg["fmt"]
        if cfg["separator"]:
            kw["separator"] = cfg["separator"]
        rec = Recorder()
        ctxm = patched(iomod, opener=rec.open) if V.symbolic else contextlib.nullcontext()
        exp_rows = []
        with ctxm:
            m = pym.ScalarToFile(sigs, saveto=saveto, **kw)
            for k in range(cfg["calls"]):
                st, cols = fresh(k)
                for s, v in zip(sigs, st):
                    s.state = v
                m.response()
                exp_rows.append((k, cols, st))
            text1 = _read(rec, saveto, V)
            # arbitrary iteration counter: the header is (re)written exactly at iteration 0
            st, cols_k = fresh("k")
            for s, v in zip(sigs, st):
                s.state = v
            m.iter = it
            m.response()
            text2 = _read(rec, saveto, V)
        ncols = 1 + sum(len(_ref_order(s)) for s in shapes)
        K.holds("file-exists", text1 is not None and text2 is not None, "scalar-structure")
        if text1 is None or text2 is None:
            return obs
        lines = text1.split("\n")
        K.holds("ends-with-newline", lines[-1] == "", "scalar-structure")
        lines = lines[:-1]
        K.holds("line-count", len(lines) == 1 + cfg["calls"], "scalar-structure", info=dict(lines=len(lines)))
        if len(lines) != 1 + cfg["calls"]:
            return obs
        first = lines[1].split(sep_exp)
        K.holds("separator-rule", len(first) == ncols, "scalar-separator",
                info=dict(file=cfg["file"], separator_argument=cfg["separator"], expected_separator=sep_exp, first_row=lines[1]))
        if len(first) != ncols:
            return obs
        header = lines[0].split(sep_exp)
        obs["header_cols"] = float(len(header))
        K.holds("header-once", all(ln != lines[0] for ln in lines[1:]), "scalar-header")
        K.holds("len(header)==len(row)", len(header) == ncols, "scalar-header-columns",
                info=dict(header=lines[0], separator=sep_exp, header_fields=len(header), values_per_row=ncols))
        if len(header) == ncols:
            pos = 1
            okh = True
            for q, shp in enumerate(shapes):
                for _ in _ref_order(shp):
                    okh = okh and header[pos].startswith("sig%d" % q)
                    pos += 1
            K.holds("header-in-signal-order", okh, "scalar-header", info=lines[0])
        for k, (itk, cols, st_k) in enumerate(exp_rows):
            row = lines[1 + k].split(sep_exp)
            if len(header) == ncols and len(row) == ncols:
                # every column holds the entry that its header names: "<tag>[i, j]" -> state[i, j]
                pos, okn, bad = 1, True, None
                for q, shp in enumerate(shapes):
                    for _ in _ref_order(shp):
                        hname = header[pos]
                        if shp != () and len(_ref_order(shp)) > 1:
                            mm = re.match(r"^sig%d\[([0-9, ]*)\]$" % q, hname)
                            if mm is None:
                                okn, bad = False, (hname, "unparsable")
                            else:
                                idx = tuple(int(t) for t in mm.group(1).split(",") if t.strip() != "")
                                try:
                                    want = format(st_k[q][idx] if V.symbolic else float(st_k[q][idx]), fmt)
                                except Exception as e:
                                    want = "<%s>" % type(e).__name__
                                if row[pos] != want:
                                    okn, bad = False, (hname, row[pos], want)
                        pos += 1
                K.holds("row[%d]-column-holds-the-entry-its-header-names" % k, okn, "scalar-header-names", info=bad)
            if any(c is None for c in cols):
                cols = [row[1 + j] if c is None else c for j, c in enumerate(cols)] if len(row) == ncols else cols
            K.holds("row[%d]-columns" % k, len(row) == ncols, "scalar-row",
                    info=dict(row=lines[1 + k], separator=sep_exp, fields=len(row), expected=ncols))
            K.holds("row[%d]-iteration" % k, row[0] == str(itk), "scalar-row", info=row[0])
            K.holds("row[%d]-values" % k, row[1:] == cols, "scalar-row", info=dict(got=row[1:8], expected=cols[:7]))
            if not V.symbolic and row[1:] == cols:
                K.holds("row[%d]-parses" % k, all(_isfloat(x) for x in row[1:]), "scalar-row")
        obs["rows"] = float(len(lines) - 1)
        # ---- the step from the arbitrary counter
        l2 = text2.split("\n")[:-1]
        rewritten = len(l2) == 2
        appended = len(l2) == len(lines) + 1 and l2[:len(lines)] == lines
        K.holds("step:rewritten-or-appended", rewritten or appended, "scalar-step", info=dict(lines=len(l2)))
        if rewritten or appended:
            K.holds("step:header-iff-iteration-0", (it == 0) if rewritten else (it != 0), "scalar-step")
            if rewritten:
                K.holds("step:header", l2[0] == lines[0], "scalar-step")
            row = l2[-1].split(sep_exp)
            K.holds("step:row-columns", len(row) == ncols, "scalar-row")
            if V.symbolic:
                t = _z.lookup_token(row[0])
                K.holds("step:row-iteration-format", (t is not None and t[1] == "d") or row[0] == "0", "scalar-row", info=row[0])
                K.eq("step:row-iteration", t[0] if t is not None else int(row[0]), it, "scalar-row")
            else:
                K.holds("step:row-iteration", row[0] == str(it), "scalar-row", info=row[0])
            if not any(c is None for c in cols_k):
                K.holds("step:row-values", row[1:] == cols_k, "scalar-row", info=dict(got=row[1:8], expected=cols_k[:7]))
        K.eq("step:counter-incremented", m.iter, it + 1, "scalar-step")
        obs["iter_after"] = _obs(m.iter)
    finally:
        shutil.rmtree(tmp, ignore_errors=True)
    return obs


def _read(rec, saveto, V):
    if V.symbolic:
        d = rec.files.get(saveto)
        return None if d is None else d.decode()
    if not os.path.exists(saveto):
        return None
    with open(saveto) as f:
        return f.read()


def _isfloat(x):
    try:
        float(x)
        return True
    except ValueError:
        return False


SCEN = {"vti": sc_vti, "writer": sc_writer, "scalar": sc_scalar}


def run_item(cfg, tier):
    return symbolic_run(SCEN[cfg["kind"]], cfg, tier, max_paths=200, feas_timeout_ms=20000 if tier == "quick" else 90000,
                        obl_timeout_ms=30000 if tier == "quick" else 120000)


# ------------------------------------------------------------------------------------------------
def replay(cfg, label, env, case):
    """Real library, real files in a temp directory (removed afterwards), parsed back."""
    V = Vals(env=env)
    LAST.clear()
    inputs = lambda: {k: env[k] for k in V.requested if k in env}
    try:
        SCEN[cfg["kind"]](V, None, cfg)
    except Exception as e:
        want = label.split(":", 1)[1] if label.startswith("exception:") else None
        return dict(reproduced=(want is None or type(e).__name__ == want),
                    detail=dict(raised="%s: %s" % (type(e).__name__, str(e)[:300]), clause=label, inputs=inputs()))
    fails = LAST["chk"].fails if "chk" in LAST else {}
    missing = [k for k in V.requested if k not in env]
    if missing:          # no witness from the solver (e.g. a path kept after an `unknown` feasibility answer):
        return dict(reproduced=False, detail="model has no value for %s; nothing to replay" % missing[:6])
    if label.startswith("exception:"):
        return dict(reproduced=False, detail="no exception on the real code")
    if label == "*":          # any clause failing on the real library with these numbers (used by the runner's fallbacks)
        if fails:
            first = sorted(fails)[0]
            return dict(reproduced=True, detail=dict(clause=first, observed=fails[first], other_failing=[k for k in sorted(fails)[1:7]]))
        return dict(reproduced=False, detail="every clause holds on the real library")
    if label in fails:
        return dict(reproduced=True, detail=dict(clause=label, observed=fails[label], inputs=inputs(),
                                                 other_failing=[k for k in fails if k != label][:6]))
    if "full-precision" in label and not case.get("_probe"):
        # the solver's witness may consist of round numbers (1/8, 2) that survive any formatting: evaluate the same clause
        # at generic values of the same inputs (fallback probe, DESIGN 3.7 step 6)
        env2 = {k: (v * 1.0123456789012345 + 1e-7 * 0.987654321 if isinstance(v, float) else v) for k, v in env.items()}
        r2 = replay(cfg, label, env2, dict(case, _probe=True))
        if r2.get("reproduced"):
            r2["detail"] = dict(found_by="fallback-probe (generic values of the same inputs)", probe=r2.get("detail"))
            return r2
    return dict(reproduced=False, detail=dict(clause=label, inputs=inputs(), failing=list(fails)[:6]))
