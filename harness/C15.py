"""C15 - DyadCarrier behaves exactly like the dense matrix it represents.

Executed for real: every public method of pymoto.common.dyadcarrier.DyadCarrier except min/max
(documented approximations): __init__/add_dyad (vector lists, tuples, bare vectors, python lists,
blocks, scalars, u only), + - neg pos += -= with dyad / dense / scalar 0, * and @ from both sides,
dot/__rdot__, T/transpose, conj, real, imag, diagonal, __getitem__, __setitem__, contract (plain, matrix,
rows/cols, batched, sparse), contract_multi, copy, todense/toarray, iscomplex, shape/size/dtype.

One work item = one *operation program*: a constructor followed by `depth` operations, run on one
enumerated configuration (shape, number of dyads, real/complex flags of u, v and of the operands).
All numeric entries are symbolic.  Oracle: the same operations on the dense object array
`dense(u, v) = sum_k outer(u_k, v_k)` built by the harness from its own symbols (never through the
carrier under test).  After every step: result.todense() (or the returned value) equals the
reference entry-wise, shape/size equal, complex/real type equal, the operands are unchanged (values)
and no vector of the result aliases a vector of an operand; at the end every carrier and every dense
operand that was ever created is compared with its own reference once more (nothing but the target
of an in-place operation may have changed).
"""
import random
import re
import zlib
import numpy as np

from symx import R, C
from symx.array import SymArray, wrap, is_complex_content, enable_logical_dtype
from .common import symbolic_run, Vals, _raised_in_repo

PROPERTY = "C15"
SEED = 20260926
PDIM = 2          # free dimension of matrix operands of @
ITEM_TIMEOUT = {"quick": 100, "thorough": 600}
REPLAYS_PER_GROUP = 4
MAX_REPLAYS = 20000

# ------------------------------------------------------------------------------------------------
# operation vocabulary
DY_OPS = ["neg", "pos", "copy", "T", "transpose", "conj", "real", "imag",
          "add_B", "sub_B", "add_Be", "add_0i", "radd_0i", "add_0f", "sub_0i", "rsub_0i", "rsub_0f",
          "mul_s", "rmul_s", "mm_M", "rmm_M", "dot_M", "mm_B",
          "gi_ss", "gi_full", "gi_step", "gi_as", "gi_sa", "gi_ms", "gi_ls", "gi_el", "gi_empty"]
INP_OPS = ["iadd_B", "isub_B", "iadd_Be", "add_dyad_fac", "add_dyad_vec", "add_dyad_sym",
           "set_row", "set_col", "set_rows", "set_cols_idx"]
VAL_OPS = ["todense", "toarray", "diag_0", "diag_1", "diag_m1", "diag_2", "diag_m3",
           "add_D", "radd_D", "sub_D", "rsub_D", "add_Dbc",
           "dot_x", "mm_x", "rmm_x", "rdot_x",
           "gi_ii", "gi_is", "gi_si", "gi_ni", "gi_ia", "gi_ai", "gi_aa",
           "ct", "ct_M", "ct_Mr", "ct_Mc", "ct_Mrc", "ct_bM", "ct_bMr", "ct_bMrc", "ct_Mbr", "ct_brc",
           "ct_S", "ct_Src", "cm", "cm_d"]
# corner cases of the listed operations; exercised at depth 1 only (they would drown the compositions)
# (`+=`/`-=` with a scalar 0 or a dense array were tried and removed: DyadCarrier defines its in-place operators for
#  dyadic operands only, and the property does not ask for more -> demanding them was a false alarm of the check)
CORNER_OPS = ["set_all", "gi_ll", "mm_Be", "cm_mix", "ct_Mrneg", "ct_Mrcmask", "ct_rcneg", "set_rows_step", "set_cols_step"]
ALL_OPS = DY_OPS + INP_OPS + VAL_OPS
GI_DYAD = {"gi_ss", "gi_full", "gi_step", "gi_as", "gi_sa", "gi_ms", "gi_ls", "gi_el", "gi_empty"}
NO_OPERAND = {"neg", "pos", "copy", "T", "transpose", "conj", "real", "imag", "add_0i", "radd_0i", "add_0f",
              "sub_0i", "rsub_0i", "rsub_0f", "todense", "toarray", "diag_0", "diag_1", "diag_m1", "diag_2",
              "diag_m3", "ct", "ct_brc", "set_row", "set_col", "set_rows", "set_cols_idx", "set_all",
              "iadd_0", "isub_0", "add_Be", "iadd_Be", "mm_Be", "cm_mix", "ct_rcneg", "set_rows_step", "set_cols_step"} | {o for o in ALL_OPS + CORNER_OPS
                                                                           if o.startswith("gi_")}
SAFE_EMPTY = {"todense", "toarray", "copy", "neg", "T", "conj", "diag_0"}     # ops used on 0 x m carriers
CTORS = ["vec", "vecs", "one", "tup", "lst", "blk", "blk3", "sca", "sym", "add", "shape0"]

BOUNDS = {
    "quick": dict(shapes="(1..3)x(1..3)", dyads=[0, 1, 2], types="u, v, operand each real|complex",
                  depth0="every constructor variant x 5 shapes x dyads 0,1,2 x (u,v) types",
                  depth1="every operation x every (u,v[,operand]) type combination x dyads 0,1,2; shape and "
                         "constructor drawn per program from a seeded generator (every shape/constructor occurs); "
                         "corner operations ([:, :] = 0, two index lists, @ empty carrier, "
                         "contract_multi with a real and a complex matrix) on 4 configurations each",
                  depth2="seeded half of all ordered pairs (carrier-valued or in-place op, any op), one drawn "
                         "configuration per pair",
                  constructors=CTORS, zero_vector_items="dedicated programs without the non-zero assumption "
                  "(2x2 and 1x3, 1-2 dyads, types rr/cc/rc)", operand_free_dim=PDIM, batch=2, seed=SEED,
                  work_items="programs are run in batches of 8 per forked worker"),
    "thorough": dict(shapes="(1..3)x(1..3)", dyads=[0, 1, 2], types="u, v, operand each real|complex",
                     depth0="every constructor variant x 9 shapes x dyads 0,1,2 x (u,v) types",
                     depth1="every operation x all applicable shapes x dyads 0,1,2 x every type combination",
                     depth2="all ordered pairs (carrier-valued or in-place op, any op) x 3 drawn configurations",
                     depth3="deterministic seeded subset of 9000 of the ~126k operation triples (the full product of "
                            "triples x configurations is too large), one drawn configuration each",
                     constructors=CTORS, zero_vector_items="dedicated programs without the non-zero assumption "
                     "(4 shapes, 1-2 dyads, types rr/cc/rc)", operand_free_dim=PDIM, batch=2, seed=SEED,
                     work_items="programs are run in batches of 16 per forked worker"),
}
OUTSIDE = ["operation sequences deeper than the bound; shapes beyond 3x3; more than 2 dyads (real/imag create up to 4)",
           "min()/max() (documented approximations)", "adding a non-zero scalar (documented as unsupported)",
           "broadcasting index arrays of different shapes, subscripts that are not a 2-tuple",
           "complex `fac` of add_dyad (documented as float)", "complex/real type of size-0 results and of scalar results",
           "IEEE rounding (exact real arithmetic model), warnings",
           "non-generic inputs in the main programs: every entry of the input vectors and scalar operands is assumed "
           "non-zero (real and imaginary part separately) and no vector handed to add_dyad by an operation is a zero "
           "vector; zero vectors (inputs, products with a zero scalar, v@M = 0) are covered by the dedicated `zero` "
           "programs only, and there complex matrix products with 2 dyads are left out (z3 does not decide them in time)",
           "strict reading of the type clause after zero vectors were dropped (carrier reports real where the dense "
           "result is complex-typed zeros): evaluated in the dedicated strict programs only; elsewhere a real carrier "
           "whose stored vectors are all real is accepted when its value equals the (then real-valued) reference"]
ASSUMPTIONS = ["float64/complex128 arithmetic modelled as exact real arithmetic on pairs of reals",
               "logical dtype of object arrays = complex iff some entry is a complex symbol (symx logical-dtype mode): "
               "dtype tracking through np.result_type, in-place casting errors and item-assignment casts follow NumPy",
               "scipy.sparse operands are represented by symx.spshim.SymSparse (all entries stored) in the symbolic run",
               "generic position in the main programs (see outside_claim): stated as assumptions on the entries of the "
               "vectors the carrier stores right before each operation",
               "path feasibility is first tried on 3 pseudo-random rational points (exact evaluation), then by z3"]


# ------------------------------------------------------------------------------------------------
# helpers working on object arrays (symbolic run) and on native arrays (concrete run)
def _isobj(a):
    return isinstance(a, np.ndarray) and a.dtype == object


def cplx(x):
    if hasattr(x, "_dense"):
        x = x._dense
    elif hasattr(x, "toarray") and not isinstance(x, np.ndarray):
        return bool(np.iscomplexobj(x))
    return bool(is_complex_content(x))


def _conj(a):
    return wrap(np.array(a, copy=True)).conj() if _isobj(a) else np.conj(a)


def _re(a):
    return wrap(np.array(a, copy=True)).real if _isobj(a) else np.array(np.real(a), copy=True)


def _im(a):
    return wrap(np.array(a, copy=True)).imag if _isobj(a) else np.array(np.imag(a), copy=True)


def same_arrays(a, b):
    """True / False when decidable without a solver (identity of the entries / numeric equality), else None."""
    a, b = np.asarray(a), np.asarray(b)
    if a.shape != b.shape:
        return False
    if a.dtype == object or b.dtype == object:
        if all((x is y) for x, y in zip(a.flat, b.flat)):
            return True
        return None
    return bool(np.array_equal(a, b))


def gi_index(op, n, m):
    i, j = n - 1, m // 2
    ra, ca = np.array([n - 1, 0]), np.array([0, m - 1, 0])
    mask = np.array([k in (0, n - 1) for k in range(n)])
    tab = {
        "gi_ss": (slice(0, max(1, n - 1)), slice(1, None) if m > 1 else slice(0, 1)),
        "gi_full": (slice(None), slice(None)),
        "gi_step": (slice(None, None, 2), slice(None, None, -1)),
        "gi_as": (ra, slice(None)),
        "gi_sa": (slice(None), ca),
        "gi_ms": (mask, slice(0, m)),
        "gi_ls": ([0, n - 1], slice(None)),
        "gi_el": (Ellipsis, slice(0, 1)),
        "gi_empty": (slice(0, 0), slice(None)),
        "gi_ii": (i, j),
        "gi_is": (i, slice(None)),
        "gi_si": (slice(None), j),
        "gi_ni": (-1, slice(None, None, -1)),
        "gi_ia": (i, ca),
        "gi_ai": (ra, j),
        "gi_aa": (np.array([0, n - 1]), np.array([m - 1, 0])),
        "gi_ll": ([0, n - 1], [m - 1, 0]),
    }
    return tab[op]


def op_shape(op, n, m):
    """Shape of the current carrier after `op` on an n x m carrier; None if the op is not applicable."""
    if n == 0 or m == 0:
        if op not in SAFE_EMPTY:
            return None
    if op in ("T", "transpose"):
        return (m, n)
    if op in ("mm_M", "dot_M", "mm_B", "mm_Be"):
        return (n, PDIM)
    if op == "rmm_M":
        return (PDIM, m)
    if op in GI_DYAD:
        return np.zeros((n, m))[gi_index(op, n, m)].shape
    if op in ("ct", "add_dyad_sym") and n != m:
        return None
    return (n, m)


def ref_contract(ref, mat=None, rows=None, cols=None):
    """sum_ij A[rows_i, cols_j] * B_ij (batched over a leading axis of mat / rows / cols), plain loops."""
    n, m = ref.shape
    batch = None
    for x, nd in ((mat, 3), (rows, 2), (cols, 2)):
        if x is not None and np.ndim(x) == nd:
            batch = np.shape(x)[0]
    out = []
    for p in range(batch if batch is not None else 1):
        r = np.arange(n) if rows is None else (rows[p] if np.ndim(rows) == 2 else rows)
        c = np.arange(m) if cols is None else (cols[p] if np.ndim(cols) == 2 else cols)
        B = None if mat is None else (mat[p] if np.ndim(mat) == 3 else mat)
        y = 0
        if B is None:
            for a in range(len(r)):
                y = y + ref[r[a], c[a]]
        else:
            for a in range(len(r)):
                for b in range(len(c)):
                    y = y + ref[r[a], c[b]] * B[a, b]
        out.append(y)
    if batch is None:
        return out[0]
    res = np.empty(batch, dtype=object if any(isinstance(y, (R, C)) for y in out) else
                   (complex if any(isinstance(y, complex) for y in out) else float))
    for p, y in enumerate(out):
        res[p] = y
    return res


class ConcreteProver:
    """Prover interface evaluated numerically (replay on the real library)."""

    def __init__(self):
        self.failed = []
        self.count = 0

    def _fail(self, label, got, exp):
        self.failed.append(dict(label=label, got=_short(got), expected=_short(exp)))

    def holds(self, label, goal, kind="pred"):
        self.count += 1
        if not bool(goal):
            self._fail(label, False, True)

    def eq(self, label, a, b, kind="eq"):
        self.arrays_eq(label, a, b, kind)

    def arrays_eq(self, label, A, B, kind="eq"):
        self.count += 1
        if hasattr(A, "todense") and not isinstance(A, np.ndarray):
            A = A.todense()
        try:
            A, B = np.asarray(A, dtype=complex), np.asarray(B, dtype=complex)
        except Exception:
            self._fail(label, repr(type(A)), "numeric array")
            return
        if A.shape != B.shape:
            self._fail(label + ".shape", A.shape, B.shape)
            return
        if A.size and np.max(np.abs(A - B)) > 1e-9 * max(1.0, float(np.max(np.abs(B)))):
            self._fail(label, A, B)


def _short(x):
    try:
        a = np.asarray(x)
        if a.dtype.kind == "c" and not np.any(a.imag):
            a = a.real
        return a.tolist()
    except Exception:
        return repr(x)[:200]


# ------------------------------------------------------------------------------------------------
class St:
    """State of one program run (symbolic, twin or replay)."""

    def __init__(self, V, P, cfg):
        self.V, self.P, self.cfg = V, P, cfg
        self.sym = V.symbolic
        self.generic = bool(cfg.get("generic", True))
        self.obs = {}
        self.hist = []          # (label, carrier, reference): every carrier ever created
        self.dense_ops = []     # (label, array, snapshot): dense operands, must stay unchanged
        self.inputs = {}
        self.step = "ctor"
        self.dc = None
        self.ref = None
        self.strict_type = bool(cfg.get("strict_type", False))
        self.op_cplx = False    # an operand created in the current step is complex

    # ---------------------------------------------------------------- values
    def real(self, name, nonzero=False):
        v = self.V.real(name, nonzero=nonzero)
        self.inputs[name] = v
        return v

    def scalar(self, name, typ, nonzero=None):
        nz = self.generic if nonzero is None else nonzero
        if typ == "c":
            self.op_cplx = True
            re_, im_ = self.real(name + "_re", nz), self.real(name + "_im", nz)
            return C(re_, im_) if self.sym else complex(re_, im_)
        return self.real(name, nz)

    def arr(self, name, shape, typ, nonzero=False):
        if isinstance(shape, int):
            shape = (shape,)
        a = np.empty(shape, dtype=object if self.sym else (complex if typ == "c" else float))
        for idx in np.ndindex(*shape):
            a[idx] = self.scalar(name + "_" + "_".join(str(i) for i in idx), typ, nonzero)
        return a.view(SymArray) if self.sym else a

    def vec(self, name, n, typ):
        return self.arr(name, n, typ, nonzero=self.generic)

    def zeros(self, shape):
        return np.zeros(shape, dtype=object) if self.sym else np.zeros(shape)

    def dense(self, us, vs, shape):
        """The harness' own reference: sum_k outer(u_k, v_k)."""
        A = self.zeros(shape)
        for u, v in zip(us, vs):
            A = A + np.outer(np.asarray(u), np.asarray(v))
        return A

    def sparse(self, arr, fmt):
        if self.sym:
            from symx.spshim import SymSparse
            return SymSparse(arr, fmt=fmt)
        import scipy.sparse as sps
        return {"coo": sps.coo_matrix, "csr": sps.csr_matrix, "csc": sps.csc_matrix}[fmt](arr)

    def assume_nonzero(self, a):
        if self.sym and self.generic:
            for e in np.asarray(a).flat:
                c = (e != 0)
                if not isinstance(c, (bool, np.bool_)):
                    self.V.assume(c)

    def gen(self, *vecs):
        """Generic position (main items only): the vectors an operation is about to hand to add_dyad are not
        zero vectors.  Stated on the entries, before the operation runs; concretely-zero vectors are left alone."""
        if not (self.sym and self.generic):
            return
        import z3
        for w in vecs:
            ts, nonzero = [], False
            for e in np.asarray(w).flat:
                c = (e != 0)
                if isinstance(c, (bool, np.bool_)):
                    nonzero = nonzero or bool(c)
                else:
                    ts.append(c.t)
            if nonzero or not ts:
                continue
            self.V.assume(z3.Or(*ts) if len(ts) > 1 else ts[0])

    def gen_parts(self, vecs):
        for w in vecs:
            if cplx(w):
                self.gen(_re(w), _im(w))
            else:
                self.gen(w)

    def operand_dyad(self, pre, shape, nd=1):
        """A second carrier (own symbols) with its reference; registered for the final unchanged-check."""
        from pymoto import DyadCarrier
        to = self.cfg["to"]
        us = [self.vec("%sbu%d" % (pre, k), shape[0], to) for k in range(nd)]
        vs = [self.vec("%sbv%d" % (pre, k), shape[1], to) for k in range(nd)]
        B = DyadCarrier(us, vs, shape=shape)
        refB = self.dense(us, vs, shape)
        self.hist.append(("%s:B" % pre, B, refB))
        return B, refB

    def dense_operand(self, label, a):
        self.dense_ops.append((label, a, np.array(a, copy=True)))
        return a

    # ---------------------------------------------------------------- checks
    def holds(self, label, goal, kind):
        if self.P is not None:
            self.P.holds(label, goal, kind=kind)

    def check_carrier(self, label, dc, ref, observe=True):
        from pymoto import DyadCarrier
        P = self.P
        if P is not None and not isinstance(dc, DyadCarrier):
            P.holds(label + ".isdyad", False, kind="api")
            if observe:
                self.obs[label] = dc
            return
        dn = dc.todense()
        if observe:
            self.obs[label] = dn
        if P is None:
            return
        P.holds(label + ".shape", tuple(dc.shape) == tuple(np.shape(ref)), kind="shape")
        P.holds(label + ".size", int(dc.size) == int(np.size(ref)), kind="shape")
        P.arrays_eq(label + ".value", dn, ref, kind="value")
        if np.size(ref) == 0:
            return
        rc, dcx = cplx(ref), bool(dc.iscomplex())
        consistent = (dcx == (np.dtype(dc.dtype).kind == "c")) and (dcx == cplx(dn))
        P.holds(label + ".type-selfconsistent", consistent, kind="type")
        if dcx == rc:
            P.holds(label + ".type", True, kind="type")
        else:
            if self.zero_drop_state(dc, ref):
                # every stored vector is real: the complex contributions were dropped as zero vectors (or the
                # carrier is empty).  The carrier's real type then agrees with its (verified) real value; the
                # strict reading "type of the dense result" is evaluated in the dedicated strict items only.
                P.holds(label + ".type-after-zero-drop", not self.strict_type, kind="type-zero-drop")
            else:
                P.holds(label + ".type", False, kind="type")

    def zero_drop_state(self, dc, ref):
        return (not bool(dc.iscomplex())) and cplx(ref) and not any(cplx(x) for x in list(dc.u) + list(dc.v))

    def check_value(self, label, val, refval):
        self.obs[label] = val
        P = self.P
        if P is None:
            return
        from pymoto import DyadCarrier
        if isinstance(val, DyadCarrier):
            P.holds(label + ".isdense", False, kind="api")
            return
        if np.ndim(refval) == 0 and np.ndim(val) == 0:
            v = val[()] if isinstance(val, np.ndarray) else val
            r = refval[()] if isinstance(refval, np.ndarray) else refval
            P.eq(label + ".value", v, r, kind="value")
            return
        P.arrays_eq(label + ".value", val, refval, kind="value")
        if np.shape(val) == np.shape(refval) and np.size(refval) > 0:
            if (not cplx(val)) and cplx(refval) and not self.op_cplx and self.zero_drop_state(self.dc, self.ref):
                P.holds(label + ".type-after-zero-drop", not self.strict_type, kind="type-zero-drop")
            else:
                P.holds(label + ".type", cplx(val) == cplx(refval), kind="type")

    def snapshot(self, dc):
        return (list(dc.u), list(dc.v), [np.array(x, copy=True) for x in dc.u], [np.array(x, copy=True) for x in dc.v],
                tuple(dc.shape), np.dtype(dc.dtype))

    def check_unchanged(self, label, dc, snap):
        P = self.P
        if P is None:
            return
        u0, v0, uc, vc, shp, dt = snap
        ok = len(dc.u) == len(u0) and len(dc.v) == len(v0) and tuple(dc.shape) == shp and np.dtype(dc.dtype) == dt
        if ok:
            for cur, old in zip(list(dc.u) + list(dc.v), uc + vc):
                s = same_arrays(cur, old)
                if s is None:
                    P.arrays_eq(label + ".operand-unchanged", cur, old, kind="operand")
                elif not s:
                    ok = False
        P.holds(label + ".operand-unchanged", ok, kind="operand")

    def check_noalias(self, label, res, others):
        """No vector object of `res` is (or shares memory with) a vector of the other carriers / arrays."""
        if self.P is None:
            return
        mine = list(res.u) + list(res.v)
        bad = False
        for a in range(len(mine)):
            for b in range(a + 1, len(mine)):
                if mine[a] is mine[b] or np.shares_memory(mine[a], mine[b]):
                    bad = True
        for o in others:
            vecs = (list(o.u) + list(o.v)) if hasattr(o, "u") else [o]
            for x in mine:
                for y in vecs:
                    if isinstance(y, np.ndarray) and (x is y or np.shares_memory(x, y)):
                        bad = True
        self.P.holds(label + ".no-alias", not bad, kind="alias")

    # ---------------------------------------------------------------- construction
    def construct(self):
        from pymoto import DyadCarrier
        cfg = self.cfg
        n, m, nd, tu, tv, ctor = cfg["n"], cfg["m"], cfg["nd"], cfg["tu"], cfg["tv"], cfg["ctor"]
        shape = (n, m)
        inputs = []
        if ctor == "unshaped":
            dc = DyadCarrier()
            ref = self.zeros((0, 0))
            self.dc, self.ref = dc, ref
            self.hist.append(("ctor", dc, ref))
            if self.P is not None:
                self.P.holds("ctor.unshaped-size", dc.size == 0 and dc.n_dyads == 0, kind="shape")
                self.P.arrays_eq("ctor.value", dc.todense(), ref, kind="value")
            self.obs["ctor"] = dc.todense()
            return
        if ctor in ("blk", "blk3"):
            U = [self.arr("U%d" % k, (2, n) if ctor == "blk" else (2, 2, n), tu, nonzero=self.generic) for k in range(nd)]
            W = [self.arr("W%d" % k, (2, m), tv, nonzero=self.generic) if ctor == "blk" else self.vec("W%d" % k, m, tv)
                 for k in range(nd)]
            us = [np.asarray(x).reshape(-1, n).sum(axis=0) for x in U]
            vs = [np.asarray(x).reshape(-1, m).sum(axis=0) for x in W]
            for x in us + vs:
                self.assume_nonzero(x)
            inputs = U + W
            dc = DyadCarrier(U, W, shape=shape) if nd else DyadCarrier([], [], shape=shape)
        elif ctor == "sca":
            us = [self.arr("u%d" % k, 1, tu, nonzero=self.generic) for k in range(nd)]
            vs = [self.arr("v%d" % k, 1, tv, nonzero=self.generic) for k in range(nd)]
            dc = DyadCarrier([x[0] for x in us], [x[0] for x in vs]) if nd else DyadCarrier(shape=shape)
        else:
            us = [self.vec("u%d" % k, n, tu) for k in range(nd)]
            vs = [self.vec("v%d" % k, m, tv) for k in range(nd)] if ctor != "sym" else us
            inputs = us + (vs if ctor != "sym" else [])
            if ctor == "vec":
                dc = DyadCarrier(us, vs) if nd else DyadCarrier([], [], shape=shape)
            elif ctor == "vecs":
                dc = DyadCarrier(us, vs, shape=shape)
            elif ctor == "one":
                dc = DyadCarrier(us[0], vs[0])
            elif ctor == "tup":
                dc = DyadCarrier(tuple(us), tuple(vs), shape=shape)
            elif ctor == "lst":
                dc = DyadCarrier([list(x) for x in us], [list(x) for x in vs], shape=shape)
            elif ctor == "sym":
                dc = DyadCarrier(us) if nd else DyadCarrier(shape=shape)
            elif ctor == "add":
                dc = DyadCarrier(shape=shape)
                r = dc.add_dyad(us, vs)
                self.holds("ctor.add_dyad-returns-self", r is dc, "api")
            elif ctor == "shape0":
                dc = DyadCarrier(shape=shape)
            else:
                raise ValueError(ctor)
        snaps = [np.array(x, copy=True) for x in inputs]
        ref = self.dense(us, vs, shape)
        self.dc, self.ref = dc, ref
        self.hist.append(("ctor", dc, ref))
        self.check_carrier("ctor", dc, ref)
        if self.P is not None:
            self.check_noalias("ctor", dc, inputs)
            ok = all(same_arrays(a, b) is True for a, b in zip(inputs, snaps))
            self.P.holds("ctor.inputs-unchanged", ok, kind="operand")
            if self.generic:
                self.P.holds("ctor.n_dyads", dc.n_dyads == nd, kind="shape")
        self._inputs = list(zip(inputs, snaps))

    # ---------------------------------------------------------------- one operation
    def do(self, k, op):
        from pymoto import DyadCarrier
        self.step = "s%d:%s" % (k, op)
        lab = self.step
        dc, ref = self.dc, self.ref
        n, m = np.shape(ref)
        to = self.cfg["to"]
        pre = "o%d" % k
        self.op_cplx = False
        snap = self.snapshot(dc)
        kind, res, rref, others = self._apply(op, pre, dc, ref, n, m, to)
        if kind == "dyad":
            self.check_carrier(lab, res, rref)
            if isinstance(res, DyadCarrier):
                self.holds(lab + ".new-object", res is not dc, "alias")
                self.check_noalias(lab, res, [dc] + others)
                self.hist.append((lab, res, rref))
                self.check_unchanged(lab, dc, snap)
                self.dc, self.ref = res, rref
            else:
                self.check_unchanged(lab, dc, snap)
        elif kind == "value":
            self.check_value(lab, res, rref)
            self.check_unchanged(lab, dc, snap)
        else:   # in place
            self.holds(lab + ".returns-self", res is dc, "api")
            self.ref = rref
            for i, (hl, hc, hr) in enumerate(self.hist):
                if hc is dc:
                    self.hist[i] = (hl, hc, rref)
            self.check_carrier(lab, dc, rref)
            self.check_noalias(lab, dc, others)

    def _apply(self, op, pre, dc, ref, n, m, to):
        from pymoto import DyadCarrier
        DY, VAL, INP = "dyad", "value", "inplace"
        cp = lambda a: np.array(a, copy=True)      # noqa: E731
        U, W = list(dc.u), list(dc.v)
        if op in DY_OPS or op in ("iadd_B", "isub_B", "iadd_Be"):
            self.gen(*(U + W))
        # ---- carrier valued
        if op == "neg":
            return DY, -dc, -ref, []
        if op == "pos":
            return DY, +dc, cp(ref), []
        if op == "copy":
            return DY, dc.copy(), cp(ref), []
        if op == "T":
            return DY, dc.T, cp(ref.T), []
        if op == "transpose":
            return DY, dc.transpose(), cp(ref.T), []
        if op == "conj":
            return DY, dc.conj(), _conj(ref), []
        if op == "real":
            self.gen_parts(U + W)
            return DY, dc.real, _re(ref), []
        if op == "imag":
            self.gen_parts(U + W)
            return DY, dc.imag, _im(ref), []
        if op in ("add_B", "sub_B", "add_Be", "iadd_B", "isub_B", "iadd_Be"):
            B, rB = self.operand_dyad(pre, (n, m), nd=0 if op.endswith("Be") else 1)
            if op == "add_B" or op == "add_Be":
                return DY, dc + B, ref + rB, [B]
            if op == "sub_B":
                return DY, dc - B, ref - rB, [B]
            r = dc
            if op == "isub_B":
                r -= B
                return INP, r, ref - rB, [B]
            r += B
            return INP, r, ref + rB, [B]
        if op == "add_0i":
            return DY, dc + 0, cp(ref), []
        if op == "radd_0i":
            return DY, 0 + dc, cp(ref), []
        if op == "add_0f":
            return DY, dc + 0.0, cp(ref), []
        if op == "sub_0i":
            return DY, dc - 0, cp(ref), []
        if op == "rsub_0i":
            return DY, 0 - dc, -ref, []
        if op == "rsub_0f":
            return DY, 0.0 - dc, -ref, []
        if op in ("mul_s", "rmul_s"):
            s = self.scalar(pre + "s", to)
            self.gen(*([w * s for w in W] if op == "mul_s" else [s * w for w in U]))
            return DY, (dc * s if op == "mul_s" else s * dc), ref * s, []
        if op in ("mm_M", "dot_M"):
            M = self.dense_operand(lab_of(pre, "M"), self.arr(pre + "M", (m, PDIM), to))
            self.gen(*[w @ M for w in W])
            return DY, (dc @ M if op == "mm_M" else dc.dot(M)), ref @ M, []
        if op == "rmm_M":
            M = self.dense_operand(lab_of(pre, "M"), self.arr(pre + "M", (PDIM, n), to))
            self.gen(*[M @ w for w in U])
            return DY, M @ dc, M @ ref, []
        if op in ("mm_B", "mm_Be"):
            B, rB = self.operand_dyad(pre, (m, PDIM), nd=0 if op == "mm_Be" else 1)
            if op == "mm_B":
                for w in W:     # the vector B.__rdot__(w) hands to add_dyad, built term by term in the same order
                    acc = self.zeros(PDIM)
                    for bu_, bv_ in zip(B.u, B.v):
                        acc = acc + bv_ * w.dot(bu_)
                    self.gen(acc)
            return DY, dc @ B, ref @ rB, [B]
        if op in GI_DYAD:
            idx = gi_index(op, n, m)
            self.gen(*([w[idx[0]] for w in U] + [w[idx[1]] for w in W]))
            return DY, dc[idx], cp(ref[idx]), []
        # ---- in place
        if op in ("add_dyad_fac", "add_dyad_vec", "add_dyad_sym"):
            if op == "add_dyad_sym":
                bu = self.dense_operand(lab_of(pre, "bu"), self.vec(pre + "bu", n, to))
                return INP, dc.add_dyad(bu), ref + np.outer(np.asarray(bu), np.asarray(bu)), [bu]
            bu = [self.dense_operand(lab_of(pre, "bu%d" % q), self.vec("%sbu%d" % (pre, q), n, to)) for q in range(2)]
            bv = [self.dense_operand(lab_of(pre, "bv%d" % q), self.vec("%sbv%d" % (pre, q), m, to)) for q in range(2)]
            if op == "add_dyad_fac":
                f = self.scalar(pre + "f", "r")
                self.gen(f * bu[0])
                return INP, dc.add_dyad(bu[0], bv[0], fac=f), ref + f * np.outer(np.asarray(bu[0]), np.asarray(bv[0])), bu + bv
            return INP, dc.add_dyad(bu, bv), ref + self.dense(bu, bv, (n, m)), bu + bv
        if op in ("set_row", "set_col", "set_rows", "set_cols_idx", "set_all", "set_rows_step", "set_cols_step"):
            idx = {"set_row": (n - 1, slice(None)), "set_col": (slice(None), m // 2),
                   "set_rows_step": (slice(None, None, 2), slice(None)), "set_cols_step": (slice(None), slice(None, None, 2)),
                   "set_rows": (slice(0, max(1, n - 1)), slice(None)),
                   "set_cols_idx": (slice(None), np.array([0, m - 1])),
                   "set_all": (slice(None), slice(None))}[op]
            val = 0.0 if op == "set_rows" else 0
            r2 = wrap(cp(ref))
            r2[idx] = (C(0, 0) if (self.sym and cplx(ref)) else val)
            dc[idx] = val
            return INP, dc, r2, []
        if op in ("iadd_0", "isub_0", "iadd_D", "isub_D"):
            o = 0 if op.endswith("_0") else self.dense_operand(lab_of(pre, "D"), self.arr(pre + "D", (n, m), to))
            r = dc
            if op.startswith("iadd"):
                r += o
                rr = ref + o
            else:
                r -= o
                rr = ref - o
            # a dense operand legitimately turns the name into a dense array (A += D on arrays stays dense)
            if isinstance(r, DyadCarrier):
                return INP, r, rr, []
            return VAL, r, rr, []
        # ---- values
        if op == "todense":
            return VAL, dc.todense(), ref, []
        if op == "toarray":
            return VAL, dc.toarray(), ref, []
        if op.startswith("diag_"):
            kk = int(op[5:].replace("m", "-"))
            return VAL, dc.diagonal(kk), cp(np.diagonal(np.asarray(ref), kk)), []
        if op in ("add_D", "radd_D", "sub_D", "rsub_D", "add_Dbc"):
            D = self.dense_operand(lab_of(pre, "D"), self.arr(pre + "D", (m,) if op == "add_Dbc" else (n, m), to))
            if op in ("add_D", "add_Dbc"):
                return VAL, dc + D, ref + D, []
            if op == "radd_D":
                return VAL, D + dc, D + ref, []
            if op == "sub_D":
                return VAL, dc - D, ref - D, []
            return VAL, D - dc, D - ref, []
        if op in ("dot_x", "mm_x"):
            x = self.dense_operand(lab_of(pre, "x"), self.arr(pre + "x", m, to))
            return VAL, (dc.dot(x) if op == "dot_x" else dc @ x), ref @ x, []
        if op in ("rmm_x", "rdot_x"):
            x = self.dense_operand(lab_of(pre, "x"), self.arr(pre + "x", n, to))
            return VAL, (x @ dc if op == "rmm_x" else dc.__rdot__(x)), x @ ref, []
        if op.startswith("gi_"):
            idx = gi_index(op, n, m)
            return VAL, dc[idx], cp(ref[idx]), []
        if op == "ct":
            return VAL, dc.contract(), ref_contract(ref, None, np.arange(n), np.arange(n)), []
        if op in ("ct_Mrneg", "ct_Mrcmask", "ct_rcneg"):
            # index sets as NumPy accepts them: negative entries count from the end, boolean masks select by position
            if op == "ct_Mrcmask":
                rmask = np.array([i % 2 == 0 for i in range(n)])
                cmask = np.array([j != 0 or m == 1 for j in range(m)])
                rows, cols = rmask, cmask
                rref, cref = np.flatnonzero(rmask), np.flatnonzero(cmask)
            else:
                rows, cols = np.array([-1, 0]), np.array([0, -1])
                rref, cref = np.array([n - 1, 0]), np.array([0, m - 1])
            if op == "ct_rcneg":
                return VAL, dc.contract(rows=rows, cols=cols), ref_contract(ref, None, rref, cref), []
            if op == "ct_Mrneg":
                Md = self.dense_operand(lab_of(pre, "M"), self.arr(pre + "M", (2, m), to))
                return VAL, dc.contract(Md, rows=rows), ref_contract(ref, Md, rref, None), []
            Md = self.dense_operand(lab_of(pre, "M"), self.arr(pre + "M", (len(rref), len(cref)), to))
            return VAL, dc.contract(Md, rows=rows, cols=cols), ref_contract(ref, Md, rref, cref), []
        if op.startswith("ct_"):
            rows1, cols1 = np.array([n - 1, 0]), np.array([0, m - 1])
            rows2, cols2 = np.array([[n - 1, 0], [0, n - 1]]), np.array([[0, m - 1], [m - 1, m // 2]])
            spec = {"ct_M": ((n, m), None, None), "ct_Mr": ((2, m), rows1, None), "ct_Mc": ((n, 2), None, cols1),
                    "ct_Mrc": ((2, 2), rows1, cols1), "ct_bM": ((2, n, m), None, None),
                    "ct_bMr": ((2, 2, m), rows2, None), "ct_bMrc": ((2, 2, 2), rows2, cols2),
                    "ct_Mbr": ((2, m), rows2, None), "ct_brc": (None, rows2, cols2),
                    "ct_S": ((n, m), None, None), "ct_Src": ((2, 2), rows1, cols1)}[op]
            shp, rows, cols = spec
            kw = {}
            if rows is not None:
                kw["rows"] = rows
            if cols is not None:
                kw["cols"] = cols
            if shp is None:
                return VAL, dc.contract(**kw), ref_contract(ref, None, rows, cols), []
            Md = self.dense_operand(lab_of(pre, "M"), self.arr(pre + "M", shp, to))
            mat = self.sparse(Md, "csr") if op in ("ct_S", "ct_Src") else Md
            return VAL, dc.contract(mat, **kw), ref_contract(ref, Md, rows, cols), []
        if op in ("cm", "cm_d", "cm_mix"):
            t1, t2 = (to, to) if op != "cm_mix" else ("r", "c")
            S1 = self.dense_operand(lab_of(pre, "S1"), self.arr(pre + "S1", (n, m), t1))
            S2 = self.dense_operand(lab_of(pre, "S2"), self.arr(pre + "S2", (n, m), t2))
            if op == "cm":
                mats = [self.sparse(S1, "coo"), self.sparse(S2, "csr"), None]
            elif op == "cm_d":
                mats = [self.sparse(S1, "coo"), S2]
            else:
                mats = [self.sparse(S1, "coo"), self.sparse(S2, "coo")]
            exp = [ref_contract(ref, S1), ref_contract(ref, S2)] + ([0] if op == "cm" else [])
            e = np.empty(len(exp), dtype=object if self.sym else (complex if any(isinstance(y, complex) for y in exp) else float))
            for q, y in enumerate(exp):
                e[q] = y
            return VAL, dc.contract_multi(mats), e, []
        raise ValueError("unknown op %s" % op)

    # ---------------------------------------------------------------- final checks
    def finish(self):
        P = self.P
        for i, (hl, hc, hr) in enumerate(self.hist):
            if hc is self.dc and i == len(self.hist) - 1:
                continue        # the current carrier was checked by its last step
            dn = hc.todense()
            if P is not None:
                P.arrays_eq("end:h%d(%s).value" % (i, hl), dn, hr, kind="bystander")
        if P is not None:
            ok = True
            for (dl, a, snap) in self.dense_ops:
                if same_arrays(a, snap) is not True:
                    ok = False
            for a, snap in getattr(self, "_inputs", []):
                if same_arrays(a, snap) is not True:
                    ok = False
            P.holds("end:dense-operands-unchanged", ok, kind="operand")
        self.obs["final"] = self.dc.todense()


def lab_of(pre, name):
    return "%s:%s" % (pre, name)


def run_program(S):
    S.construct()
    for k, op in enumerate(S.cfg["prog"]):
        S.do(k, op)
    S.step = "end"
    S.finish()
    return S.obs


def scenario(V, P, cfg):
    if V.symbolic:
        V.c.witness_sampling = 3
    return run_program(St(V, P, cfg))


# ------------------------------------------------------------------------------------------------
# enumeration
def _rng(key):
    return random.Random(zlib.crc32(key.encode()) ^ SEED)


def _ctors_for(n, m, nd, tu, tv):
    out = ["vec", "vecs", "tup", "lst", "blk", "blk3", "add"]
    if nd == 0:
        out = ["vec", "shape0", "blk", "add"]
    if nd == 1:
        out.append("one")
    if n == m == 1:
        out.append("sca")
    if n == m and tu == tv:
        out.append("sym")
    return out


def _shapes_for(prog):
    """All start shapes on which the whole program is applicable."""
    out = []
    for n in (1, 2, 3):
        for m in (1, 2, 3):
            s = (n, m)
            for op in prog:
                s = op_shape(op, s[0], s[1])
                if s is None:
                    break
            if s is not None:
                out.append((n, m))
    return out


def _item(prog, n, m, nd, tu, tv, to, ctor, kind="prog", generic=True):
    cid = "%s-%s-%dx%d-d%d-%s%s%s-%s" % (kind, ctor, n, m, nd, tu, tv, to, ".".join(prog) if prog else "none")
    return dict(kind=kind, id=cid, prog=list(prog), n=n, m=m, nd=nd, tu=tu, tv=tv, to=to, ctor=ctor, generic=generic)


def _draw(prog, rnd, nd=None, types=None, shape=None):
    shapes = _shapes_for(prog)
    if not shapes:
        return None
    n, m = shape if shape is not None else rnd.choice(shapes)
    if (n, m) not in shapes:
        return None
    nd = rnd.choice([0, 1, 1, 2, 2]) if nd is None else nd
    tu, tv, to = types if types is not None else (rnd.choice("rc"), rnd.choice("rc"), rnd.choice("rc"))
    ctor = rnd.choice(_ctors_for(n, m, nd, tu, tv))
    return _item(prog, n, m, nd, tu, tv, to, ctor)


def _uses_operand(prog):
    return any(op not in NO_OPERAND for op in prog)


def items(tier):
    """Work items = batches of programs (one forked worker per batch; forking per program costs more than the run)."""
    progs = programs(tier)
    heavy = [q for q in progs if q["kind"] == "zero"]
    light = [q for q in progs if q["kind"] != "zero"]
    _rng("shuffle").shuffle(light)
    size = 8 if tier == "quick" else 16
    out = []
    for grp, sz in ((heavy, 2), (light, size)):
        for a in range(0, len(grp), sz):
            sub = grp[a:a + sz]
            out.append(dict(kind="batch", id="b%04d[%s ...]" % (len(out), sub[0]["id"]), progs=sub))
    return out


def programs(tier):
    out, seen = [], set()

    def add(it):
        if it is not None and it["id"] not in seen:
            seen.add(it["id"])
            out.append(it)

    types8 = [(a, b, c) for a in "rc" for b in "rc" for c in "rc"]
    types4 = [(a, b, "r") for a in "rc" for b in "rc"]
    # ---- constructors (depth 0)
    for ctor in CTORS:
        for (n, m) in [(1, 1), (1, 3), (2, 2), (3, 2), (3, 3)] if tier == "quick" else [(a, b) for a in (1, 2, 3) for b in (1, 2, 3)]:
            for nd in (0, 1, 2):
                for (tu, tv, _) in types4:
                    if ctor in _ctors_for(n, m, nd, tu, tv):
                        add(_item([], n, m, nd, tu, tv, "r", ctor))
    # ---- depth 1
    for op in CORNER_OPS:
        for ty in [("r", "r", "r"), ("c", "c", "c")]:
            for nd in (0, 1):
                add(_draw([op], _rng("corner|%s|%s|%d" % (op, ty, nd)), nd=nd, types=ty))
    for op in ALL_OPS:
        for ty in (types8 if _uses_operand([op]) else types4):
            for nd in (0, 1, 2):
                if tier == "quick":
                    add(_draw([op], _rng("d1|%s|%s|%d" % (op, ty, nd)), nd=nd, types=ty))
                else:
                    for shp in _shapes_for([op]):
                        add(_draw([op], _rng("d1|%s|%s|%d|%s" % (op, ty, nd, shp)), nd=nd, types=ty, shape=shp))
    # ---- depth 2
    for op1 in DY_OPS + INP_OPS:
        for op2 in ALL_OPS:
            r = _rng("d2|%s|%s" % (op1, op2))
            if tier == "quick":
                if r.random() < 0.5:
                    add(_draw([op1, op2], r))
            else:
                for _ in range(3):
                    add(_draw([op1, op2], r))
    # ---- depth 3 (thorough): seeded subset
    if tier == "thorough":
        r = _rng("d3")
        first = DY_OPS + INP_OPS
        tries = 0
        n3 = 0
        while n3 < 9000 and tries < 40000:
            tries += 1
            prog = [r.choice(first), r.choice(first), r.choice(ALL_OPS)]
            it = _draw(prog, r)
            if it is not None and it["id"] not in seen:
                add(it)
                n3 += 1
    # ---- dedicated: value, in-place modification, the same value again (results memoised inside the carrier must
    #      follow every later modification of it)
    for v in ("todense", "diag_0", "ct", "ct_M", "ct_S", "cm", "cm_d", "gi_ii", "dot_x"):
        for mo in INP_OPS:
            for ty in [("r", "r", "r"), ("c", "c", "c")]:
                it = _draw([v, mo, v], _rng("vmv|%s|%s|%s" % (v, mo, ty)), nd=2, types=ty)
                if it is not None:
                    it["id"] = "vmv-" + it["id"]
                    add(it)
    # ---- dedicated: input vectors may be zero vectors, scalars may be zero
    zprogs = [[], ["copy"], ["neg"], ["T"], ["conj"], ["real"], ["mul_s"], ["rmul_s"], ["add_dyad_fac"], ["add_B"], ["iadd_B"], ["mm_M"],
              ["gi_ss"], ["diag_0"], ["dot_x"], ["ct_M"], ["set_row", "copy"]]
    for prog in zprogs:
        for (n, m) in [(2, 2), (1, 3)] if tier == "quick" else [(2, 2), (1, 3), (3, 1), (2, 3)]:
            for nd in (1, 2):
                for ty in [("r", "r", "r"), ("c", "c", "c"), ("r", "c", "r")]:
                    if (n, m) in _shapes_for(prog):
                        if prog == ["mm_M"] and (nd == 2 or ty[0] == "c"):
                            continue        # zero-vector paths of complex products: z3 does not decide them in time
                        it = _item(prog, n, m, nd, ty[0], ty[1], ty[2], "vecs", kind="zero", generic=False)
                        # strict reading of the type clause (a dropped complex vector leaves a real carrier)
                        it["strict_type"] = (prog in ([], ["mul_s"]) and nd == 1 and (n, m) == (2, 2) and ty[1] == "c")
                        add(it)
    # ---- dedicated: strict type clause for the empty carrier meeting a complex operand
    for op in ("mul_s", "mm_M", "diag_0"):
        it = _item(["mul_s", op] if op == "diag_0" else [op], 2, 2, 0, "r", "r", "c", "shape0", kind="prog")
        it["strict_type"] = True
        it["id"] = "strict-" + it["id"]
        add(it)
    # ---- dedicated: the shapeless carrier DyadCarrier() used as the neutral start of sums
    for prog in [["todense"], ["copy"], ["add_un"], ["iadd_un"], ["radd_un"], ["neg"], ["T"]]:
        for ty in [("r", "r", "r"), ("c", "c", "c")]:
            it = _item(prog, 2, 3, 0, ty[0], ty[1], ty[2], "unshaped", kind="unshaped")
            add(it)
    return out


# ------------------------------------------------------------------------------------------------
def sc_unshaped(V, P, cfg):
    """DyadCarrier() (no shape yet) as neutral element: sums with a shaped carrier, copy, todense."""
    from pymoto import DyadCarrier
    if V.symbolic:
        V.c.witness_sampling = 3
    S = St(V, P, cfg)
    S.construct()
    op = cfg["prog"][0]
    S.step = "s0:" + op
    lab = S.step
    dc = S.dc
    if op in ("add_un", "iadd_un", "radd_un"):
        B, rB = S.operand_dyad("o0", (cfg["n"], cfg["m"]), nd=1)
        if op == "add_un":
            res = dc + B
        elif op == "radd_un":
            res = B + dc
        else:
            res = dc
            res += B
            S.holds(lab + ".returns-self", res is dc, "api")
        S.check_carrier(lab, res, rB)
        S.check_noalias(lab, res, [B])
        if op == "iadd_un":
            S.hist[0] = ("ctor", dc, rB)
    elif op == "todense":
        S.check_value(lab, dc.todense(), S.zeros((0, 0)))
    else:
        res = {"copy": lambda: dc.copy(), "neg": lambda: -dc, "T": lambda: dc.T}[op]()
        S.holds(lab + ".isdyad", isinstance(res, DyadCarrier), "api")
        S.check_value(lab, res.todense(), S.zeros((0, 0)))
        S.holds(lab + ".size", res.size == 0, "shape")
    S.step = "end"
    for i, (hl, hc, hr) in enumerate(S.hist):
        if P is not None:
            P.arrays_eq("end:h%d(%s).value" % (i, hl), hc.todense(), hr, kind="bystander")
    return S.obs


def _scen(cfg):
    return sc_unshaped if cfg["kind"] == "unshaped" else scenario


def run_program_item(cfg, tier):
    mp = 300 if cfg["kind"] == "zero" else 96
    return symbolic_run(_scen(cfg), cfg, tier, max_paths=mp, obl_timeout_ms=(4000 if cfg["kind"] == "zero" else None))


def run_item(cfg, tier):
    """Runs every program of the batch and merges the records; labels get the prefix '#<index in batch> '."""
    enable_logical_dtype(True)       # forked worker: does not leak into other harnesses
    if cfg["kind"] != "batch":
        return run_program_item(cfg, tier)
    import time
    t0 = time.time()
    out = dict(item=cfg["id"], kind="batch", cfg=cfg, obligations=[], paths=0, aborted=0, exceptions=[], errors=[],
               notes=[], samples=[], validated=0, vacuity=dict(paths_sat=0, paths_unknown=0, paths_unsat=0),
               stats={}, solver_time=0.0, stubs=[], assumptions=[], budget_hit=False)
    for j, sub in enumerate(cfg["progs"]):
        r = run_program_item(sub, tier)
        for o in r["obligations"]:
            o["label"] = "#%d %s" % (j, o["label"])
            o["kind"] = "%s#%d" % (o.get("kind"), j)
            out["obligations"].append(o)
        for e in r["exceptions"]:
            e["type"] = "%s#%d" % (e["type"], j)
            out["exceptions"].append(e)
        for e in r["errors"]:
            out["errors"].append("[%s] %s" % (sub["id"], e))
        for n in r["notes"]:
            out["notes"].append("[%s] %s" % (sub["id"], n))
        if r["paths"] > 0 and r["vacuity"].get("paths_sat", 0) == 0 and not r["exceptions"]:
            out["errors"].append("[%s] VACUOUS (no path with satisfiable constraints)" % sub["id"])
        for k, v in r["vacuity"].items():
            out["vacuity"][k] = out["vacuity"].get(k, 0) + v
        for k, v in r.get("stats", {}).items():
            out["stats"][k] = out["stats"].get(k, 0) + v
        out["paths"] += r["paths"]
        out["aborted"] += r["aborted"]
        out["validated"] += r["validated"]
        out["solver_time"] += r.get("solver_time", 0.0)
        out["budget_hit"] = out["budget_hit"] or r.get("budget_hit", False)
        if len(out["samples"]) < 2:
            out["samples"].extend(r["samples"][:1])
        for a in r.get("assumptions", []):
            if a not in out["assumptions"]:
                out["assumptions"].append(a)
        out["stubs"] = sorted(set(out["stubs"]) | set(r.get("stubs", [])))
    out["wall"] = time.time() - t0
    return out


# ------------------------------------------------------------------------------------------------
def replay(cfg, label, env, case):
    """Re-run the program with floats on the real library and evaluate every clause numerically."""
    if cfg.get("kind") == "batch":
        mm = re.match(r"#(\d+) (.*)$", label) or re.match(r"(exception:.*)#(\d+)$", label)
        if not mm:
            return dict(reproduced=None, detail="label without program index: %s" % label)
        if label.startswith("exception:"):
            label, j = mm.group(1), int(mm.group(2))
        else:
            j, label = int(mm.group(1)), mm.group(2)
        cfg = cfg["progs"][j]
    V = Vals(env=env)
    P = ConcreteProver()
    S = St(V, P, cfg)
    exc = None
    import warnings
    try:
        with warnings.catch_warnings():
            warnings.simplefilter("ignore")
            if cfg["kind"] == "unshaped":
                sc_unshaped(V, P, cfg)
            else:
                run_program(S)
    except Exception as e:       # noqa: BLE001
        exc = e
    inputs = {k: (v if not isinstance(v, complex) else [v.real, v.imag]) for k, v in S.inputs.items()}
    det = dict(id=cfg["id"], program=cfg["prog"], ctor=cfg["ctor"], shape=[cfg["n"], cfg["m"]], dyads=cfg["nd"],
               types=dict(u=cfg["tu"], v=cfg["tv"], operand=cfg["to"]), inputs=inputs,
               failed=P.failed[:4], clauses_evaluated=P.count)
    if exc is not None:
        in_repo = _raised_in_repo(exc)
        det["exception"] = dict(type=type(exc).__name__, msg=str(exc)[:200], at_step=S.step, raised_in_repo=in_repo)
    if label.startswith("exception:"):
        if exc is None:
            return dict(reproduced=False, detail=det)
        return dict(reproduced=bool(det["exception"]["raised_in_repo"]), detail=det)
    hit = [f for f in P.failed if label == f["label"] or label.startswith(f["label"])]
    if hit:
        det["failed"] = hit[:2]
        return dict(reproduced=True, detail=det)
    if exc is not None and det["exception"]["raised_in_repo"]:
        mlab, mexc = re.match(r"s(\d+):", label), re.match(r"s(\d+):", S.step)
        if mlab and mexc and int(mexc.group(1)) <= int(mlab.group(1)) or label.startswith("end:"):
            det["note"] = "the real library raises before the clause can be evaluated"
            return dict(reproduced=True, detail=det)
    if exc is not None and not det["exception"]["raised_in_repo"]:
        return dict(reproduced=None, detail=det)
    return dict(reproduced=False, detail=det)
