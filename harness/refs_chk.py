"""Obligation helper shared by the C13 / C20 harnesses: every clause is stated once and works in
both modes of a scenario - symbolic (decided by z3 through the Prover) and concrete (evaluated on
the real library; failures are kept by label so that `replay` can report exactly the clause that
the solver refuted)."""
import numpy as np
import z3

from symx import R, SB
from symx.zint import Z, take_guards

LAST = {}


def _t(x):
    """z3 BoolRef / Python bool of a condition."""
    if isinstance(x, SB):
        return x.t
    if isinstance(x, (bool, np.bool_)):
        return bool(x)
    return x


def b_and(*xs):
    ts = [_t(x) for x in xs]
    if all(isinstance(t, bool) for t in ts):
        return all(ts)
    return SB(z3.And([z3.BoolVal(t) if isinstance(t, bool) else t for t in ts]))


def b_implies(a, b):
    a, b = _t(a), _t(b)
    if isinstance(a, bool) and isinstance(b, bool):
        return (not a) or b
    f = lambda t: z3.BoolVal(t) if isinstance(t, bool) else t
    return SB(z3.Implies(f(a), f(b)))


class Chk:
    def __init__(self, P):
        self.P = P
        self.fails = {}
        LAST["chk"] = self

    def holds(self, label, cond, kind, info=None):
        """cond: SB / z3 BoolRef / bool.  `info` (JSON-able) describes what was observed, for the replay."""
        if self.P is not None:
            self.P.holds(label, cond, kind=kind)
        elif not bool(cond):
            self.fails[label] = info if info is not None else "condition is False"

    def eq(self, label, a, b, kind):
        """a == b for integers (Z / int) and reals (R / float)."""
        if self.P is not None:
            if isinstance(a, Z) or isinstance(b, Z) or (_isint(a) and _isint(b)):
                self.P.holds(label, a == b, kind=kind)
            else:
                self.P.eq(label, a, b, kind=kind)
        else:
            if _isint(a) and _isint(b):
                ok = int(a) == int(b)
            else:
                ok = abs(float(a) - float(b)) <= 1e-9 * max(1.0, abs(float(a)), abs(float(b)))
            if not ok:
                self.fails[label] = "%r != %r" % (a, b)

    def arr_eq(self, label, A, B, kind):
        A, B = np.asarray(A), np.asarray(B)
        if A.shape != B.shape:
            self.holds(label + ".shape", False, kind)
            if self.P is None:
                self.fails[label + ".shape"] = "shape %s vs %s" % (A.shape, B.shape)
            return
        for idx in np.ndindex(*A.shape):
            self.eq("%s[%s]" % (label, ",".join(map(str, idx))), A[idx], B[idx], kind)

    def table(self, label, got, ref, kind):
        """Concrete integer table against the reference (one obligation for the whole table)."""
        got = np.asarray(got)
        ref = np.asarray(ref)
        ok = got.shape == ref.shape and got.dtype.kind in "iu" and bool(np.all(got == ref))
        if self.P is not None:
            self.P.holds(label, ok, kind=kind)
        elif not ok:
            bad = None
            if got.shape == ref.shape:
                w = np.argwhere(got != ref)
                bad = dict(index=w[0].tolist(), got=int(got[tuple(w[0])]), expected=int(ref[tuple(w[0])]))
            self.fails[label] = dict(shape_got=list(got.shape), shape_expected=list(ref.shape), first_mismatch=bad)

    def guards(self, label="bv-no-wraparound"):
        g = take_guards()
        if self.P is not None and g:
            self.P.holds(label, z3.And([t for _, t in g]), kind="bv-no-wraparound")


def _isint(x):
    return isinstance(x, (int, np.integer)) and not isinstance(x, (bool, np.bool_))


def _obs(x):
    """Observable for the concretised twin."""
    if isinstance(x, Z):
        return x.as_R()
    if isinstance(x, np.ndarray) and x.dtype == object:
        out = np.empty(x.shape, dtype=object)
        for i in np.ndindex(*x.shape):
            out[i] = _obs(x[i])
        return out
    return x
