"""C06 - the linear-dependency-aware solver (LDAWrapper) is transparent and reuses earlier solutions.

Executed for real: get_diagonal_indices, LDAWrapper.update / solve / _do_solve_1rhs, LinearSolver.residual.
The wrapped solver is a counting contract oracle (op(A) x = b, pre-image candidates).
"""
import itertools
import warnings
from fractions import Fraction
import numpy as np
import z3

from symx import R, C, SB
from symx.array import wrap, is_complex_content
from .common import symbolic_run, Vals

PROPERTY = "C06"
BOUNDS = {
    "quick": dict(n=2, classes=["general", "symmetric", "hermitian (3 histories)"],
                  zero_patterns="all off-diagonal zero patterns (mirrored for the symmetric classes)",
                  histories="11 hand-picked histories of <= 4 calls (solve N/T/H with new / repeated / scaled / summed / "
                            "new+multiple / zero / complex / 2-column block right-hand sides, one with a second update)",
                  tol="wrapper tolerance 0 (reuse <=> exactly zero residual in exact arithmetic) and 1e-7",
                  matrix_objects="dense arrays; scipy-sparse matrices of one fixed structure (every position stored, explicit zeros) "
                                 "in the update histories with a changed zero pattern and in two plain histories",
                  entry_points="update(A) after construction; constructor argument LDAWrapper(solver, A=A)"),
    "thorough": dict(n=[2, 3], classes=["general", "symmetric", "hermitian", "complex-symmetric"],
                     zero_patterns="n=2: all; n=3: all 64 general patterns for the short histories, a seeded third otherwise",
                     histories="quick histories + all ordered triples over {N,T,H} x {new, repeat, scale}",
                     tol="0 and 1e-7"),
}
OUTSIDE = ["n > 3", "loss of orthogonality by rounding (the 1e-10 real/complex heuristics are executed, their numerical "
           "motivation is not modelled)", "right-hand sides that are symbolic but happen to be exactly zero (definedness of "
           "|r|/|b|); the literal zero right-hand side is a separate item",
           "accuracy of the wrapped solver (contract oracle)"]
ASSUMPTIONS = ["float64 arithmetic modelled as exact real arithmetic", "A non-singular; entries outside the zero pattern non-zero",
               "wrapped solver returns an exact solution of op(A) x = b (contract oracle with pre-image candidates)"]
ITEM_TIMEOUT = {"quick": 240, "thorough": 300}

HISTS = {
    "rep-scale": [("N", "new"), ("N", "repeat"), ("N", "scale")],
    "NTH": [("N", "new"), ("T", "new"), ("H", "new")],
    "T-first": [("T", "new"), ("T", "scale"), ("N", "new")],
    "H-first": [("H", "new"), ("H", "repeat"), ("T", "new")],
    "sum": [("N", "new"), ("N", "new"), ("N", "sum")],
    "newplus": [("N", "new"), ("N", "newplus")],
    "zero": [("N", "zero"), ("N", "new"), ("T", "zero")],
    "block2": [("N", "block2"), ("N", "scale")],
    "block-indep": [("N", "blocknew")],
    "update": [("N", "new"), ("update", None), ("N", "repeat"), ("T", "new")],
    "update-adj": [("T", "new"), ("update", None), ("T", "new"), ("T", "new"), ("T", "sum")],
    "cplx-rhs": [("N", "cplx"), ("N", "new")],
    "cplxconst-rhs": [("N", "cplxconst"), ("N", "new")],
    # a block whose FIRST column is already known (mask of newly solved columns = [False, True]), then right-hand sides
    # that must be answered from the stored pairs
    "block-mixed": [("N", "new"), ("N", "blockmixed"), ("N", "sum"), ("N", "repeat")],
    "H-only": [("H", "new")],
    "T-only": [("T", "new")],
    "cplx-span": [("N", "cplxconst"), ("N", "conjprev"), ("N", "realsum")],
    "x0": [("N", "new"), ("N", "newx0"), ("T", "newx0"), ("N", "blocknewx0")],
    # a block [v, f v, w]: the column after the dependent one is new and must be stored (reuse afterwards)
    "block-dep-indep": [("N", "blockdepindep"), ("N", "repeat")],
    # another wrapper object (another matrix) is set up and used in between: wrappers do not share their databases
    # a block right-hand side with ONE column, shape (n, 1): the answer keeps that shape
    "block1": [("N", "block1"), ("T", "block1"), ("N", "repeat")],
    "two-wrappers": [("N", "new"), ("other", None), ("N", "repeat"), ("T", "new"), ("other", None), ("T", "repeat")],
}


def patterns(n, mclass):
    off = [(i, j) for i in range(n) for j in range(n) if i != j]
    if mclass == "general":
        pos = off
    else:
        pos = [(i, j) for (i, j) in off if i < j]
    out = []
    for k in range(len(pos) + 1):
        for z in itertools.combinations(pos, k):
            out.append([list(p) for p in z])
    return out


def items(tier):
    q = tier == "quick"
    out = []
    for mclass in ("general", "symmetric", "hermitian", "complex-symmetric"):
        for zp in patterns(2, mclass):
            for hname, h in HISTS.items():
                if hname in ("cplxconst-rhs", "cplx-span", "H-only", "T-only"):
                    continue
                if hname == "x0" and (mclass != "general" and q or zp and q):
                    continue
                if hname in ("block-dep-indep", "two-wrappers", "block1") and (mclass not in ("general", "symmetric") or (q and zp)):
                    continue
                if hname == "block-mixed" and q and (mclass != "general" or len(zp) > 1):
                    continue
                if hname == "update-adj" and (mclass != "general" or (q and len(zp) != 1)):
                    continue
                if hname == "cplx-rhs" and mclass in ("hermitian", "complex-symmetric"):
                    continue
                if q and (hname == "cplx-rhs" or mclass == "complex-symmetric" or
                          (mclass == "hermitian" and hname not in ("rep-scale", "zero", "block2"))):
                    continue      # complex data: heavy non-linear obligations, thorough tier only (often inconclusive)
                for tol in ((0,) if q else (0, "1e-7")):
                    out.append(dict(kind="history", id="n2-%s-z%s-%s-tol%s" % (mclass, "".join("%d%d" % tuple(p) for p in zp) or "none", hname, tol),
                                    n=2, mclass=mclass, zeros=zp, hist=hname, tol=tol))
    # complex matrices without any symmetry (adjoint storage with conjugation), decoupled dofs with complex diagonal entries
    for zp, hn in (([[0, 1], [1, 0]], "NTH"), ([[0, 1], [1, 0]], "H-first"), ([[1, 0]], "T-first")) + \
            (() if q else (([[0, 1]], "NTH"),)):
        out.append(dict(kind="history", id="n2-complex-general-z%s-%s-tol0" % ("".join("%d%d" % tuple(p) for p in zp), hn), n=2,
                        mclass="complex-general", zeros=zp, hist=hn, tol=0, timeout=400))
    for hn in ("H-only", "T-only"):
        out.append(dict(kind="history", id="n3-complex-general-realblock-z02201221-%s-tol0" % hn, n=3, mclass="complex-general",
                        zeros=[[0, 2], [2, 0], [1, 2], [2, 1]], hist=hn, tol=0, real_block=True, timeout=300))
    if not q:
        for zp in ([[0, 1], [1, 0], [0, 2], [2, 0]], [[0, 1], [0, 2], [1, 0], [2, 0]]):
            out.append(dict(kind="history", id="n3-complex-general-z%s-NTH-tol0" % "".join("%d%d" % tuple(p) for p in zp), n=3,
                            mclass="complex-general", zeros=zp, hist="NTH", tol=0, timeout=900))
    # real matrix, complex right-hand side first, then an independent real one: NumPy's in-place casting rules are
    # modelled (logical dtype mode), "no call fails that would succeed on a fresh wrapper"
    for mclass in ("general", "symmetric"):
        out.append(dict(kind="history", id="n2-%s-znone-cplx-then-real-dtype" % mclass, n=2, mclass=mclass, zeros=[],
                        hist="cplxconst-rhs", tol=0, logical_dtype=True, timeout=400))
    if not q:     # (does not finish in the quick budget)
        out.append(dict(kind="history", id="n2-general-znone-cplx-span-real-rhs", n=2, mclass="general", zeros=[], hist="cplx-span",
                        tol=0, logical_dtype=True, timeout=900))
    # initial guesses on a matrix with a decoupled dof (the stored vectors only cover the coupled dofs)
    out.append(dict(kind="history", id="n3-general-z02201221-x0-tol0", n=3, mclass="general", zeros=[[0, 2], [2, 0], [1, 2], [2, 1]],
                    hist=[["N", "new"], ["N", "newx0"], ["T", "newx0"]], tol=0, timeout=400))
    # block right-hand sides with the default-like tolerance 1e-7 (per-column convergence decisions)
    for hn in ("block-indep", "block2"):
        out.append(dict(kind="history", id="n2-general-znone-%s-tol1e-7" % hn, n=2, mclass="general", zeros=[], hist=hn, tol="1e-7",
                        timeout=400))
    # concrete regression items (real library, real dense LU): blocks with linearly dependent columns (defect D31)
    for mat in ("r3", "s3", "c3"):
        for case in ("dependent", "dependent-3", "sum-in-block", "zero-and-dependent"):
            out.append(dict(kind="rounding-regression", id="rounding-%s-%s" % (mat, case), mat=mat, case=case, trans=["N", "T", "H"]))
    # update() with a CHANGED sparsity pattern: dofs that were decoupled in the first matrix are coupled in the second
    for mclass in ("general", "symmetric"):
        for za, zb in (([[0, 1], [1, 0]], []), ([[0, 1]], [[1, 0]]), ([], [[0, 1], [1, 0]])):
            if mclass == "symmetric":
                if za == [[0, 1]]:
                    continue
                za, zb = [p for p in za if p[0] < p[1]], [p for p in zb if p[0] < p[1]]
            for hname in ("update",):
                out.append(dict(kind="history", id="n2-%s-patternchange-%s-to-%s" % (mclass, "".join("%d%d" % tuple(p) for p in za) or "none",
                                                                                      "".join("%d%d" % tuple(p) for p in zb) or "none"),
                                n=2, mclass=mclass, zeros=za, zeros2=zb, hist=hname, tol=0))
    # the same histories with SPARSE matrices of one fixed structure (every position a stored entry, zeros stored explicitly):
    # shape and nnz never change, the zero pattern - and with it the set of decoupled dofs - does
    for mclass in ("general", "symmetric"):
        for za, zb in (([[0, 1], [1, 0]], []), ([[0, 1]], [[1, 0]]), ([], [[0, 1], [1, 0]]), ([[0, 1], [1, 0]], [[0, 1], [1, 0]])):
            if mclass == "symmetric":
                if za == [[0, 1]]:
                    continue
                za, zb = [p for p in za if p[0] < p[1]], [p for p in zb if p[0] < p[1]]
            out.append(dict(kind="history", id="n2-%s-sparse-patternchange-%s-to-%s" % (mclass, "".join("%d%d" % tuple(p) for p in za) or "none",
                                                                                       "".join("%d%d" % tuple(p) for p in zb) or "none"),
                            n=2, mclass=mclass, zeros=za, zeros2=zb, hist="update", tol=0, sparse=True))
        for hname in ("rep-scale", "NTH") + (() if q else ("sum", "block2", "zero", "update-adj")):
            out.append(dict(kind="history", id="n2-%s-sparse-znone-%s" % (mclass, hname), n=2, mclass=mclass, zeros=[], hist=hname,
                            tol=0, sparse=True))
    # the matrix handed over as constructor argument LDAWrapper(solver, A=A) (no separate update() call)
    for mclass, zp in (("general", []), ("general", [[0, 1], [1, 0]]), ("general", [[0, 1]]), ("symmetric", [[0, 1]])):
        for hname in ("rep-scale", "NTH"):
            out.append(dict(kind="history", id="n2-%s-z%s-%s-ctorA" % (mclass, "".join("%d%d" % tuple(p) for p in zp) or "none", hname),
                            n=2, mclass=mclass, zeros=zp, hist=hname, tol=0, ctor_A=True))
    out.append(dict(kind="history", id="n3-general-z02201221-ctorA", n=3, mclass="general", zeros=[[0, 2], [2, 0], [1, 2], [2, 1]],
                    hist=[["N", "new"], ["N", "repeat"], ["N", "scale"]], tol=0, ctor_A=True, timeout=400))
    out.append(dict(kind="history", id="n2-general-sparse-z0110-rep-scale-ctorA", n=2, mclass="general", zeros=[[0, 1], [1, 0]],
                    hist="rep-scale", tol=0, ctor_A=True, sparse=True))
    # three dofs, sparse, one dof decoupled in the first matrix only (and the reverse)
    for za, zb, tag in (() if q else (([[0, 2], [2, 0], [1, 2], [2, 1]], [], "dof2-coupled-later"),
                                      ([], [[0, 2], [2, 0], [1, 2], [2, 1]], "dof2-decoupled-later"))):     # (3 min per item: thorough tier)
        out.append(dict(kind="history", id="n3-general-sparse-patternchange-%s" % tag, n=3, mclass="general", zeros=za, zeros2=zb,
                        hist=[["N", "new"], ["update", None], ["N", "new"], ["N", "repeat"]], tol=0, sparse=True, timeout=400))
    for which in ("herm-block+complex-diagonal", "sym-block+complex-diagonal"):
        out.append(dict(kind="flags", id="flags-n3-%s" % which, n=3, which=which))
    # LinSolve handing class flags to the wrapper it creates (the user's flags must not be turned into untrue ones)
    for mclass, flagsets in (("general", [{}]), ("symmetric", [{}, dict(symmetric=True), dict(hermitian=True)]),
                             ("hermitian", [{}, dict(hermitian=True)]), ("complex-symmetric", [{}, dict(symmetric=True)]),
                             ("complex-general", [{}])):
        for fl in flagsets:
            out.append(dict(kind="wraps", id="linsolve-wraps-n2-%s-%s" % (mclass, "+".join(sorted(fl)) or "noflags"), n=2,
                            mclass=mclass, zeros=[], flags=fl))
    if not q:
        import random
        rnd = random.Random(6)
        for mclass in ("general", "symmetric"):
            pats = patterns(3, mclass)
            for zp in pats:
                for hname in ("rep-scale", "NTH", "update"):
                    if mclass == "general" and hname != "rep-scale" and rnd.random() > 0.34:
                        continue
                    out.append(dict(kind="history", id="n3-%s-z%s-%s" % (mclass, "".join("%d%d" % tuple(p) for p in zp) or "none", hname),
                                    n=3, mclass=mclass, zeros=zp, hist=hname, tol=0))
        trip = list(itertools.product([("N"), ("T"), ("H")], ["new", "repeat", "scale"]))
        for a, b, c in itertools.product(trip, repeat=3):
            if a[1] != "new":
                continue
            hid = "-".join("%s%s" % (t, k[0]) for t, k in (a, b, c))
            for mclass in ("general", "symmetric"):
                out.append(dict(kind="history", id="n2-%s-znone-trip-%s" % (mclass, hid), n=2, mclass=mclass, zeros=[],
                                hist=[list(a), list(b), list(c)], tol=0))
    return out


def build_matrix(V, cfg, name):
    n, mclass = cfg["n"], cfg["mclass"]
    zeros = set(tuple(p) for p in (cfg["zeros2"] if (name == "B" and "zeros2" in cfg) else cfg["zeros"]))
    cplx = mclass in ("hermitian", "complex-symmetric", "complex-general")
    A = np.empty((n, n), dtype=object if V.symbolic else (complex if cplx else float))
    for i in range(n):
        for j in range(n):
            key = (i, j) if mclass in ("general", "complex-general") else (min(i, j), max(i, j))
            if i != j and key in zeros:
                A[i, j] = 0 if V.symbolic else 0.0
                continue
            nm = "%s_%d_%d" % (name, key[0], key[1])
            if cfg.get("real_block") and not (i == j and all((i, k) in zeros and (k, i) in zeros for k in range(n) if k != i)):
                # only the diagonal entries of decoupled dofs are complex, the coupled block is real (keeps the inner
                # solves decidable while the matrix as a whole is complex without any symmetry)
                r = V.real(nm, nonzero=True, default=1.0 + 0.5 * i - 0.25 * j)
                A[i, j] = C(r, 0) if V.symbolic else complex(r)
                continue
            if not cplx:
                A[i, j] = V.real(nm, nonzero=True, default=1.0 + 0.5 * i - 0.25 * j)
            elif mclass == "hermitian" and i == j:
                r = V.real(nm, nonzero=True, default=2.0 + i)
                A[i, j] = C(r, 0) if V.symbolic else complex(r)
            else:
                e = V.cplx(nm)
                if V.symbolic:
                    V.assume((e.re * e.re + e.im * e.im) > 0)
                A[i, j] = e.conjugate() if (mclass == "hermitian" and i > j) else e
    if V.symbolic:
        from .catalogue import assume_nonsingular
        assume_nonsingular(V, A, name)
        return wrap(A)
    return A


def _as_input(V, cfg, A):
    """The matrix object handed to update(): the dense array, or (cfg["sparse"]) a sparse matrix of the same values in which
    EVERY position is a stored entry (explicitly stored zeros: two matrices of one structure have the same shape and nnz,
    whatever their zero pattern - the situation of an assembled FE matrix whose couplings vanish for some design)."""
    if not cfg.get("sparse"):
        return A
    if V.symbolic:
        from symx.spshim import SymSparse
        return SymSparse(np.asarray(A))
    import scipy.sparse as sps
    Ad = np.asarray(A)
    n = Ad.shape[0]
    rows, cols = np.meshgrid(np.arange(n), np.arange(n), indexing="ij")
    return sps.csc_matrix((Ad.flatten(), (rows.flatten(), cols.flatten())), shape=Ad.shape)


def op(A, trans):
    A = np.asarray(A)
    if trans == "N":
        return A
    if trans == "T":
        return A.T
    return wrap(A.T.copy()).conj() if A.dtype == object else A.T.conj()


REG_MATS = {"r3": [[4.0, 1.0, 0.5], [2.0, 5.0, 1.0], [0.25, 1.0, 3.0]],
            "s3": [[4.0, 1.0, 0.5], [1.0, 5.0, 1.0], [0.5, 1.0, 3.0]],
            "c3": [[4.0, 1.0 + 0.5j, 0.5], [2.0, 5.0 - 0.25j, 1.0j], [0.25, 1.0, 3.0 + 1.0j]]}


def sc_rounding_regression(V, P, cfg):
    """Regression items for the repaired defect D31 (two linearly dependent columns in ONE block left a round-off remainder
    that was normalised and stored as an inconsistent pair: every later solve was wrong).  The defect lives in floating
    point rounding, which the exact model cannot represent: concrete numbers on the real library with the real
    SolverDenseLU; clause: every returned x solves op(A) x = b to 1e-9."""
    from pymoto.solvers import LDAWrapper, SolverDenseLU
    A = np.array(REG_MATS[cfg["mat"]])
    n = A.shape[0]
    b = np.array([1.0, -0.5, 0.75], dtype=A.dtype)
    c = np.array([0.25, 2.0, -1.0], dtype=A.dtype)
    blocks = {"dependent": np.stack([b, 1.7 * b], axis=1), "dependent-3": np.stack([b, -0.3 * b, 2.0 * b], axis=1),
              "sum-in-block": np.stack([b, c, b + c], axis=1), "zero-and-dependent": np.stack([0 * b, b, 3 * b], axis=1)}
    B = blocks[cfg["case"]]
    if V.symbolic:
        from symx import npshim
        npshim.uninstall()          # plain floats on the real NumPy / SciPy
    worst, nst = 0.0, -1
    try:
        with warnings.catch_warnings():
            warnings.simplefilter("ignore")
            w = LDAWrapper(SolverDenseLU())
            w.update(A)
            for t in cfg["trans"]:
                M = op(A, t)
                for rhs in (B, c, b + 2 * c, np.stack([c, b], axis=1)):
                    x = w.solve(rhs.copy(), trans=t)
                    worst = max(worst, float(np.max(np.abs(M @ x - rhs))) / float(np.max(np.abs(rhs))))
            nst = len(w.x_stored)
    finally:
        if V.symbolic:
            npshim.install()
    ok = bool(np.isfinite(worst) and worst <= 1e-9)
    if P is not None:
        P.holds("rounding-regression:every-solve-solves", ok, kind="rounding-regression:%s" % cfg["case"])
        P.holds("rounding-regression:database-size<=n", nst <= n, kind="rounding-regression:%s" % cfg["case"])
    return dict(worst=worst if np.isfinite(worst) else 1e300, stored=float(nst))


def sc_wraps(V, P, cfg):
    """LinSolve wrapping its solver in an LDAWrapper: the class flags the wrapper is given must be true of the matrix (the
    wrapper chooses its storage for the adjoint modes from them: a wrong flag silently gives A^-1 b for A^-T b)."""
    import pymoto as pym
    from pymoto.solvers import LDAWrapper
    n = cfg["n"]
    cplxA = cfg["mclass"] in ("hermitian", "complex-symmetric", "complex-general")
    A = build_matrix(V, cfg, "A")
    xs = V.cplxs("x0", (n,)) if cplxA else V.reals("x0", (n,))
    b = A @ xs
    if V.symbolic:
        from symx.oracles import ContractSolver
        from symx import oracles
        inner = ContractSolver()
        b, xs = wrap(np.asarray(b, dtype=object)), wrap(np.asarray(xs, dtype=object))
        oracles.add_candidate(xs)
    else:
        inner = _CountingAuto()
    sA, sb = pym.Signal("A", A), pym.Signal("b", b)
    m = pym.LinSolve([sA, sb], solver=inner, **cfg.get("flags", {}))
    m.response()
    w = m.solver
    x = m.sig_out[0].state
    obs = dict(x=x)
    if P is not None:
        P.holds("LinSolve-wraps-its-solver", isinstance(w, LDAWrapper), kind="wrapping")
        if not cplxA:       # (complex first solves are C01's; here they cost a minute per clause and often stay undecided)
            P.arrays_eq("state==A^-1 b", np.asarray(x), np.asarray(xs), kind="solves-system")
        if isinstance(w, LDAWrapper):
            At = np.asarray(A).T
            Ah = wrap(At.copy()).conj() if V.symbolic else At.conj()
            if w.symmetric is not None and bool(w.symmetric):
                P.arrays_eq("wrapper.symmetric-flag-is-true-of-the-matrix", np.asarray(A), At, kind="class-flags")
            if w.hermitian is not None and bool(w.hermitian):
                P.arrays_eq("wrapper.hermitian-flag-is-true-of-the-matrix", np.asarray(A), np.asarray(Ah), kind="class-flags")
    return obs


def sc_flags(V, P, cfg):
    """update() on a structured complex matrix with auto-detected class flags: the flags the wrapper settles on must be true of
    the WHOLE matrix (decoupled dofs included: their diagonal entries take part in the adjoint modes)."""
    from pymoto.solvers import LDAWrapper
    which = cfg["which"]
    r0, r1 = V.real("r0", nonzero=True, default=2.0), V.real("r1", nonzero=True, default=3.0)
    z = V.cplx("z")
    d = V.cplx("d")
    if V.symbolic:
        V.assume((z.re * z.re + z.im * z.im) > 0)
        V.assume(z.im != 0, "coupling with a non-zero imaginary part (Hermitian block that is not symmetric)")
        V.assume(d.im != 0, "decoupled dof with a non-real diagonal entry")
        V.assume((d.re * d.re + d.im * d.im) > 0)
        V.assume(r0 * r1 - (z.re * z.re + z.im * z.im) != 0, "coupled block non-singular")
        zero, cz = C(R.of(0), R.of(0)), (lambda r: C(r, R.of(0)))
        zc = z.conjugate()
    else:
        zero, cz, zc = 0j, complex, np.conj(z)
    if which == "herm-block+complex-diagonal":
        rows = [[cz(r0), z, zero], [zc, cz(r1), zero], [zero, zero, d]]
    else:       # "sym-block+complex-diagonal": complex symmetric block, decoupled complex diagonal (symmetric, not Hermitian)
        rows = [[cz(r0), z, zero], [z, cz(r1), zero], [zero, zero, d]]
    A = np.array(rows, dtype=object if V.symbolic else complex)
    if V.symbolic:
        from symx.oracles import ContractSolver
        A = wrap(A)
        inner = ContractSolver()
    else:
        inner = _CountingAuto()
    w = LDAWrapper(inner)
    w.update(A)
    from .common import NumProver
    Pn = P if P is not None else NumProver()
    At = np.asarray(A).T
    Ah = wrap(At.copy()).conj() if V.symbolic else At.conj()
    if w.symmetric is not None and bool(w.symmetric):
        Pn.arrays_eq("wrapper.symmetric-flag-is-true-of-the-matrix", np.asarray(A), At, kind="class-flags")
    if w.hermitian is not None and bool(w.hermitian):
        Pn.arrays_eq("wrapper.hermitian-flag-is-true-of-the-matrix", np.asarray(A), np.asarray(Ah), kind="class-flags")
    Pn.holds("flags-detected", w.symmetric is not None and w.hermitian is not None, kind="class-flags")
    obs = dict(sym=float(bool(w.symmetric)), herm=float(bool(w.hermitian)))
    if P is None:
        obs["_num"] = Pn
    return obs


def scenario(V, P, cfg):
    if cfg.get("kind") == "flags":
        return sc_flags(V, P, cfg)
    if cfg.get("kind") == "rounding-regression":
        return sc_rounding_regression(V, P, cfg)
    if cfg.get("kind") == "wraps":
        return sc_wraps(V, P, cfg)
    import pymoto as pym
    from pymoto.solvers import LDAWrapper
    n = cfg["n"]
    cplxA = cfg["mclass"] in ("hermitian", "complex-symmetric", "complex-general")
    hist = HISTS[cfg["hist"]] if isinstance(cfg["hist"], str) else [tuple(h) for h in cfg["hist"]]
    tol = cfg.get("tol", 0)
    tolv = 0 if tol == 0 else (R.of(tol) if V.symbolic else float(tol))
    A = build_matrix(V, cfg, "A")
    if V.symbolic:
        from symx.oracles import ContractSolver
        from symx import oracles
        inner = ContractSolver()
    else:
        inner = _CountingAuto()
    if cfg.get("ctor_A"):
        # the matrix arrives through the constructor argument (LinearSolver.__init__ calls update(A) itself)
        w = LDAWrapper(inner, tol=tolv, A=_as_input(V, cfg, A))
    else:
        w = LDAWrapper(inner, tol=tolv)
        w.update(_as_input(V, cfg, A))
    obs = {}
    solved = []          # (trans, b, xpre) of the current matrix
    nupd = 1
    w2 = None
    for k, (trans, kind) in enumerate(hist):
        if trans == "other":
            if w2 is None:
                w2 = LDAWrapper(ContractSolver() if V.symbolic else _CountingAuto(), tol=tolv)
            A2 = build_matrix(V, cfg, "B")
            w2.update(A2)
            x2s = V.cplxs("xo%d" % k, n) if cplxA else V.reals("xo%d" % k, n)
            b2 = A2 @ x2s
            if V.symbolic:
                b2, x2s = wrap(np.asarray(b2, dtype=object)), wrap(np.asarray(x2s, dtype=object))
                oracles.add_candidate(x2s)
            xo = w2.solve(b2)
            if P is not None:
                P.arrays_eq("step%d[other-wrapper]:A2 x==b2" % k, np.asarray(A2) @ np.asarray(xo), np.asarray(b2), kind="solves-system")
            continue
        if trans == "update":
            A = build_matrix(V, cfg, "B")
            w.update(_as_input(V, cfg, A))
            nupd += 1
            if P is not None:
                P.holds("stores-cleared-after-update", len(w.x_stored) == 0 and len(w.b_stored) == 0 and
                        len(w.xadj_stored) == 0 and len(w.badj_stored) == 0, kind="update-clears")
            solved = []
            continue
        M = op(A, trans)
        same = [s for s in solved if s[0] == trans]
        expect_reuse = False
        x0 = None
        if kind in ("newx0", "blocknewx0"):
            # an initial guess is handed to solve(); the answer may not depend on it
            kind = kind[:-2]
            shp0 = (n, 2) if kind == "blocknew" else (n,)
            x0 = V.cplxs("g%d" % k, shp0) if cplxA else V.reals("g%d" % k, shp0)
        if kind in ("new", "cplx", "blocknew", "block1") or not same and kind in ("repeat", "scale", "sum", "newplus"):
            cp = cplxA or kind == "cplx"
            shp = (n, 2) if kind == "blocknew" else ((n, 1) if kind == "block1" else (n,))
            xs = V.cplxs("x%d" % k, shp) if cp else V.reals("x%d" % k, shp)
            b = M @ xs
            kind_eff = "new"
        elif kind == "cplxconst":
            # a fixed strictly complex pre-image (exact rationals): keeps the real/complex heuristics of the wrapper decidable
            vals = [(1, 2), (Fraction(1, 2), -1), (2, Fraction(1, 4))][:n]
            xs = np.array([C(R.of(a), R.of(b_)) for a, b_ in vals], dtype=object) if V.symbolic else \
                np.array([complex(float(a), float(b_)) for a, b_ in vals])
            b = M @ xs
            kind_eff = "new"
        elif kind == "conjprev":
            # real matrix: the conjugate of a solved complex system is another (independent) solved system
            b, xs = wrap(np.asarray(same[-1][1])).conj() if V.symbolic else np.conj(same[-1][1]), \
                wrap(np.asarray(same[-1][2])).conj() if V.symbolic else np.conj(same[-1][2])
            kind_eff = "new"
        elif kind == "realsum":
            # b1 + conj(b1) = 2 Re(b1): a REAL right-hand side in the span of the two complex ones solved before
            rl = (lambda e: e.re if isinstance(e, C) else e) if V.symbolic else (lambda e: float(np.real(e)))
            b = np.array([2 * rl(e) for e in np.asarray(same[-2][1])], dtype=object if V.symbolic else float)
            xs = np.array([2 * rl(e) for e in np.asarray(same[-2][2])], dtype=object if V.symbolic else float)
            kind_eff, expect_reuse = "realsum", True
        elif kind == "repeat":
            b, xs = same[-1][1], same[-1][2]
            kind_eff, expect_reuse = "repeat", True
        elif kind == "scale":
            f = V.real("f%d" % k, nonzero=True, default=1.5)
            b, xs = f * same[-1][1], f * same[-1][2]
            kind_eff, expect_reuse = "scale", True
        elif kind == "sum":
            if len(same) >= 2:
                b, xs = same[-1][1] + same[-2][1], same[-1][2] + same[-2][2]
            else:
                b, xs = same[-1][1] * 2, same[-1][2] * 2
            kind_eff, expect_reuse = "sum", True
        elif kind == "newplus":
            f = V.real("f%d" % k, nonzero=True, default=-0.5)
            x2 = V.cplxs("x%d" % k, n) if cplxA else V.reals("x%d" % k, n)
            xs = x2 + f * same[-1][2]
            b = M @ xs
            kind_eff = "newplus"
        elif kind == "zero":
            b = np.zeros(n, dtype=object) if V.symbolic else np.zeros(n, dtype=complex if cplxA else float)
            if V.symbolic and cplxA:
                b = np.array([C(0, 0)] * n, dtype=object)
            xs = b.copy()
            kind_eff = "zero"
        elif kind == "blockmixed":
            f = V.real("f%d" % k, nonzero=True, default=-1.5)
            x2 = V.cplxs("x%d" % k, n) if cplxA else V.reals("x%d" % k, n)
            xs = np.stack([f * np.asarray(same[-1][2]), np.asarray(x2)], axis=1)
            b = M @ xs
            kind_eff = "blockmixed"
        elif kind == "blockdepindep":
            x1 = V.cplxs("x%d" % k, n) if cplxA else V.reals("x%d" % k, n)
            x3 = V.cplxs("y%d" % k, n) if cplxA else V.reals("y%d" % k, n)
            f = V.real("f%d" % k, nonzero=True, default=2.0)
            xs = np.stack([np.asarray(x1), f * np.asarray(x1), np.asarray(x3)], axis=1)
            b = M @ xs
            kind_eff = "blockdepindep"
        elif kind == "block2":
            x1 = V.cplxs("x%d" % k, n) if cplxA else V.reals("x%d" % k, n)
            f = V.real("f%d" % k, nonzero=True, default=2.0)
            xs = np.stack([np.asarray(x1), f * np.asarray(x1)], axis=1)
            b = M @ xs
            kind_eff = "block2"
        else:
            raise ValueError(kind)
        b = wrap(np.asarray(b, dtype=object)) if V.symbolic else np.asarray(b)
        xs = wrap(np.asarray(xs, dtype=object)) if V.symbolic else np.asarray(xs)
        if V.symbolic:
            oracles.add_candidate(xs)
            oracles.add_candidate(wrap(np.asarray(xs)).conj())
        before = inner.n_solve
        b_in = b.copy()
        x = w.solve(b_in, trans=trans) if x0 is None else w.solve(b_in, x0=x0, trans=trans)
        if P is not None:
            P.arrays_eq("step%d[%s,%s]:rhs-unchanged" % (k, trans, kind), np.asarray(b_in), np.asarray(b), kind="rhs-unchanged")
        called = inner.n_solve - before
        obs["x%d" % k] = x
        if np.ndim(b) == 1:
            solved.append((trans, b, xs))
        else:
            for j in range(b.shape[1]):
                solved.append((trans, b[:, j], xs[:, j]))
        if P is not None:
            lab = "step%d[%s,%s]" % (k, trans, kind_eff)
            if tol == 0:
                P.arrays_eq(lab + ":op(A)x==b", M @ np.asarray(x), np.asarray(b), kind="solves-system")
            else:
                r = M @ np.asarray(x) - np.asarray(b)
                rr = np.asarray(r).reshape(n, -1)
                bb = np.asarray(b).reshape(n, -1)
                for j in range(rr.shape[1]):
                    P.holds(lab + ":residual<=tol[%d]" % j, _sq(rr[:, j]) <= (tolv * tolv) * _sq(bb[:, j]) + 0,
                            kind="solves-system-to-tolerance")
            P.holds(lab + ":shape", np.shape(x) == np.shape(b), kind="shape")
            if expect_reuse and tol == 0:
                P.holds(lab + ":no-inner-solve", called == 0, kind="reuse")
            if kind_eff == "blockmixed" and tol == 0:
                P.holds(lab + ":one-inner-column", called <= 1, kind="reuse")
            if kind_eff == "block2" and tol == 0:
                P.holds(lab + ":one-inner-column", called <= 1, kind="reuse")
            if kind_eff == "blockdepindep" and tol == 0:
                P.holds(lab + ":two-inner-columns", called <= 2, kind="reuse")
            if kind_eff == "zero":
                P.holds(lab + ":zero-rhs-no-solve", called == 0, kind="reuse")
    return obs


def _sq(v):
    tot = 0
    for e in v:
        if isinstance(e, C):
            tot = tot + e.re * e.re + e.im * e.im
        elif isinstance(e, complex):
            tot = tot + e.real ** 2 + e.imag ** 2
        else:
            tot = tot + e * e
    return tot


class _CountingAuto:
    """Concrete mode: the real auto-determined solver, counting the calls."""
    def __init__(self):
        self.n_solve = 0
        self.s = None

    def update(self, A):
        from pymoto.solvers import auto_determine_solver
        self.s = auto_determine_solver(A)
        self.s.update(A)
        return self

    def solve(self, rhs, x0=None, trans="N"):
        self.n_solve += 1
        return self.s.solve(rhs, trans=trans)


def run_item(cfg, tier):
    if cfg.get("logical_dtype"):
        from symx.array import enable_logical_dtype
        enable_logical_dtype(True)      # forked worker: float64 (+)= complex128 raises as in NumPy
    return symbolic_run(scenario, cfg, tier, max_paths=200, rtol=1e-5)


def replay(cfg, label, env, case):
    import warnings
    warnings.simplefilter("ignore")
    if cfg.get("kind") == "rounding-regression":
        obs = sc_rounding_regression(Vals(env=env), None, cfg)
        bad = not (obs["worst"] <= 1e-9) or obs["stored"] > 3
        return dict(reproduced=bool(bad), detail=dict(case=cfg["case"], matrix=REG_MATS[cfg["mat"]], worst_relative_residual=obs["worst"],
                                                      stored_pairs=obs["stored"]))
    import pymoto as pym
    from pymoto.solvers import LDAWrapper
    V = Vals(env=env)
    if cfg.get("kind") == "flags":
        obs = sc_flags(V, None, cfg)
        return obs["_num"].verdict(label)
    rec = _Rec()
    if label.startswith("exception:"):
        try:
            scenario(V, None, cfg)
        except Exception as e:
            return dict(reproduced=type(e).__name__ == label.split(":", 1)[1], detail="%s: %s" % (type(e).__name__, str(e)[:300]))
        return dict(reproduced=False, detail="no exception on the real library")
    try:
        scenario(V, rec, cfg)
    except Exception as e:
        from .common import _raised_in_repo
        # the real wrapper raises for this history ("no call fails that would succeed on a fresh wrapper"): a violation
        # whatever clause the solver's counterexample was about; an exception of the harness itself stays a harness error
        return dict(reproduced=(True if _raised_in_repo(e) else None), detail="replay raised %s: %s" % (type(e).__name__, e))
    bad = [f for f in rec.failed if f[0] == label or label.startswith(f[0])]
    return dict(reproduced=bool(bad), detail=dict(failed=[f[0] + ": " + f[1] for f in rec.failed][:6]))


class _Rec:
    """Numeric stand-in for the Prover (replay): evaluates the clauses on floats."""
    def __init__(self):
        self.failed = []

    def arrays_eq(self, label, A, B, kind=None):
        A, B = np.asarray(A, dtype=complex), np.asarray(B, dtype=complex)
        if A.shape != B.shape:
            self.failed.append((label, "shape %s vs %s" % (A.shape, B.shape)))
            return
        sc = max(1.0, float(np.max(np.abs(B))) if B.size else 1.0)
        err = float(np.max(np.abs(A - B))) if A.size else 0.0
        if not np.isfinite(err) or err > 1e-7 * sc:
            self.failed.append((label, "max abs diff %.3e" % err))

    def holds(self, label, cond, kind=None):
        if not bool(cond):
            self.failed.append((label, "false"))

    def eq(self, label, a, b, kind=None):
        if abs(complex(a) - complex(b)) > 1e-7 * max(1.0, abs(complex(b))):
            self.failed.append((label, "%r vs %r" % (a, b)))
