"""C05 - every linear solver solves the requested (transposed / adjoint) system.

Executed for real (pymoto/solvers): SolverDiagonal, SolverDenseLU, SolverDenseCholesky (success branch and
LDL fall-back), SolverDenseLDL (hermitian True / False / None, diagonal and 2x2-block D, permuted L),
SolverDenseQR (n = 2), SolverSparseLU (trans plumbing), DampedJacobi, SOR, auto_determine_solver with
matrix_is_diagonal / _symmetric / _hermitian / _complex / _sparse, CG.solve (maxit 1 and 2) with orth,
Preconditioner, GeometricMultigrid.__init__ / setup_interpolation with the real DomainDefinition.

Method (DESIGN.md 3.5, factor pre-images): the matrix is *defined* from free factor symbols of the class the
solver documents (A := P L U, U^H U, L D L^H, L D L^T, Q R); the stubbed LAPACK entry point returns the
registered factors only after proving that they reproduce the matrix it was handed; the right-hand side is
b := op(A) @ x* for free x* and op in {identity, transpose, conjugate transpose}; the obligation is
solve(b, trans) == x* entry-wise.  No inverse is ever formed.
"""
import itertools
import warnings
import numpy as np
import z3

from symx import R, C, SB
from symx.array import wrap, is_complex_content
from .common import symbolic_run, Vals

PROPERTY = "C05"
BOUNDS = {
    "quick": dict(diagonal_n=[2, 3], lu_n=[2, 3], lu_perms="all", cholesky_n=[2, 3], ldl_n=[2, 3], ldl_perms="all (n=2), 3 of 6 (n=3)",
                  ldl_block="n=2 (one 2x2 block), n=3 (1+2)", qr_n=[2], sparse_lu_n=[2, 3], precond_n=[2, 3],
                  auto_n=[2], auto_overrides=["none", "all", "herm", "sym"], cg_n=2, cg="maxit 1 (all trans, identity/Jacobi, x0 none/symbolic, real/complex); maxit 2 restart 1 (real, x0); maxit 2 restart 50 = recursive residual branch (real, x0, arbitrary preconditioner output)",
                  multigrid=["2x2", "4x2", "2x2x2"], multigrid_ndof=[1, 2],
                  rhs_shapes=["(n,)", "(n,1)", "(n,2)"], trans=["N", "T", "H"], data=["real", "complex", "real matrix / complex rhs"]),
    "thorough": dict(diagonal_n=[2, 3, 4], lu_n=[2, 3, 4], lu_perms="all (n<=3), 5 of 24 (n=4)", cholesky_n=[2, 3, 4], ldl_n=[2, 3, 4],
                     ldl_perms="all (n<=3), 3 of 24 (n=4)", ldl_block="n=2, n=3 (1+2, 2+1), n=4 (2+2)", qr_n=[2], sparse_lu_n=[2, 3, 4],
                     precond_n=[2, 3, 4], auto_n=[2, 3], auto_overrides=["none", "all", "herm", "sym"], cg_n=2, cg="as quick + maxit 2 complex (explicit restart), recursive branch with identity/Jacobi (real)",
                     orth="2 real vectors of length 3 (QR pre-image: every real 3 x 2 matrix, exactly / nearly dependent second column included)", multigrid=["2x2", "4x2", "2x2x2", "4x4", "2x2x4"],
                     multigrid_ndof=[1, 2, 3], rhs_shapes=["(n,)", "(n,1)", "(n,2)"], trans=["N", "T", "H"],
                     data=["real", "complex", "real matrix / complex rhs"]),
}
OUTSIDE = ["that CG / multigrid converge (iteration counts, conditioning); only one or two CG iterations are executed",
           "accuracy of LAPACK / SuperLU kernels (the factorizations are pre-image stubs, the triangular solves exact substitution)",
           "dtype / precision of the returned arrays (only the real/complex content is tracked)",
           "Pardiso / CHOLMOD (scikit-sparse) / cvxopt wrappers (libraries absent in this environment)",
           "SolverDenseQR beyond n = 2 and for non-square matrices",
           "CG with a symbolic block of several right-hand sides (2x2 p^H A p, two-column orth: not finished in 400 s); blocks of "
           "two right-hand sides (independent, dependent, zero or already solved columns) are exercised by the concrete `cgdeg` "
           "regression items only", "CG's recursive residual update (restart > 1) on complex data (the cross-multiplied identities "
           "are not normalised in the budget; real data is decided, complex data takes the explicit-restart branch)",
           "ILU (inexact by design; spilu is not modelled)", "orth() on complex vectors and on 3 or more vectors (3 vectors: two "
           "span obligations stayed undecided after 460 s; inside CG it is executed for single columns)", "GeometricMultigrid.solve (a V-cycle is an approximation by design)",
           "inputs on which the code divides by zero (zero pivots, zero diagonal entries, zero right-hand-side or residual "
           "columns in CG/orth): the symbolic run restricts every path to non-zero divisors",
           "matrix sizes beyond the bound, IEEE rounding, the tolerances of np.allclose in the matrix classification "
           "(read as exact equality)", "SOR.solve with a 1-D right-hand side (the code multiplies by Dw[:, None]: ValueError; CG always passes 2-D blocks)",
           "SolverSparseLU / SOR with a real sparse matrix and a complex right-hand side (SuperLU raises TypeError; LinSolve "
           "rejects this combination explicitly)"]
ASSUMPTIONS = ["float64 arithmetic modelled as exact real arithmetic; np.allclose in the matrix classification read as exact equality",
               "factor pre-images: every matrix handed to a solver is a product of factors of the documented class with "
               "non-zero pivots (this parametrises exactly the matrices for which the documented factorization exists)",
               "scipy conventions: lu -> (p, l, u) with A = p l u; cholesky -> upper U with A = U^H U; "
               "ldl -> (lu, d, perm) with A = lu d lu^{H|T} and lu[perm] unit lower triangular; qr -> (q, r), q^H q = I",
               "np.linalg.inv is a contract oracle (B with A B = B A = I), splu(A).solve a contract oracle (op(A) x = b) "
               "or exact substitution for triangular matrices",
               "CG: A Hermitian positive definite (as documented), tol > 0 symbolic; norm comparisons decided on squares; the first "
               "preconditioned residual is parametrised as rho * u with a rationally parametrised unit vector u (all non-zero "
               "vectors), so that sqrt(|z|^2) = rho is returned after proving rho^2 == |z|^2",
               "CG: no breakdown - paths on which orth() drops the new search direction as an exact zero vector are cut (for SPD A "
               "and preconditioner that requires r = 0, excluded by the failed tolerance test; not refutable by the solver)"]
ITEM_TIMEOUT = {"quick": 150, "thorough": 900}
REPLAYS_PER_GROUP = 2

TRANS = ("N", "T", "H")
SHAPEKEYS = ("v", "c1", "c2")
DATA = (("r", False, False), ("c", True, True), ("rc", False, True))     # (tag, complex matrix, complex rhs)


# ------------------------------------------------------------------------------------------------
# small helpers usable in both modes
def _op(A, t):
    A = np.asarray(A)
    if t == "N":
        return A
    if t == "T":
        return A.T
    if A.dtype == object:
        return np.asarray(wrap(A.T.copy()).conj())
    return A.T.conj()


def _conj(A):
    A = np.asarray(A)
    if A.dtype == object:
        return np.asarray(wrap(A.copy()).conj())
    return A.conj()


def _sc(V, name, cplx, default=(0.75, 0.5)):
    """free scalar"""
    if not cplx:
        return V.real(name, default=default[0])
    re, im = V.real(name + "_re", default=default[0]), V.real(name + "_im", default=default[1])
    return C(re, im) if V.symbolic else complex(re, im)


def _nz(V, name, cplx, default=(1.5, 0.5)):
    """non-zero scalar"""
    if not cplx:
        return V.real(name, nonzero=True, default=default[0])
    re, im = V.real(name + "_re", default=default[0]), V.real(name + "_im", default=default[1])
    if V.symbolic:
        V.assume(re * re + im * im > 0)
        return C(re, im)
    return complex(re, im)


def _emb(V, r, cplx):
    """real value as an entry of a complex-typed matrix"""
    if not cplx:
        return r
    return C(r, 0) if V.symbolic else complex(r)


def _empty(V, shape, cplx):
    if V.symbolic:
        a = np.empty(shape, dtype=object)
        a.fill(C(0, 0) if cplx else 0)
        return a
    return np.zeros(shape, dtype=complex if cplx else float)


def _fin(V, a):
    return wrap(a) if V.symbolic else a


def _unit_lower(V, name, n, cplx):
    L = _empty(V, (n, n), cplx)
    for i in range(n):
        L[i, i] = _emb(V, 1 if V.symbolic else 1.0, cplx)
        for j in range(i):
            L[i, j] = _sc(V, "%s_%d_%d" % (name, i, j), cplx, default=(0.5 - 0.25 * j, 0.25 + 0.125 * i))
    return L


def _upper(V, name, n, cplx, posdiag=False):
    U = _empty(V, (n, n), cplx)
    for i in range(n):
        if posdiag:
            U[i, i] = _emb(V, V.real("%s_%d_%d" % (name, i, i), positive=True, default=1.5 + 0.25 * i), cplx)
        else:
            U[i, i] = _nz(V, "%s_%d_%d" % (name, i, i), cplx, default=(1.5 + 0.25 * i, 0.5))
        for j in range(i + 1, n):
            U[i, j] = _sc(V, "%s_%d_%d" % (name, i, j), cplx, default=(0.5 + 0.25 * i, -0.25 * j))
    return U


def _perm_matrix(V, perm):
    """P with P[perm[k], k] = 1 (columns of the identity permuted)"""
    n = len(perm)
    Pm = np.zeros((n, n), dtype=object if V.symbolic else float)
    if V.symbolic:
        Pm.fill(0)
    for k, p in enumerate(perm):
        Pm[p, k] = 1 if V.symbolic else 1.0
    return Pm


def _xstar(V, n, cplx, name="xs"):
    X = V.cplxs(name, (n, 2)) if cplx else V.reals(name, (n, 2))
    return np.asarray(X)


def _shaped(X, sk):
    if sk == "v":
        return X[:, 0].copy()
    if sk == "c1":
        return X[:, :1].copy()
    return X.copy()


def _given(V, A):
    """(the array handed to the solver, a private copy for the clauses).  Concrete mode: column-major storage, the layout LAPACK
    can use as work space without a copy (overwrite_a is honoured for it only); the symbolic stand-ins model an overwrite
    flag as destroying the array whatever its layout, the replay settles it."""
    A = np.asarray(A)
    ref = np.array(A, dtype=A.dtype, copy=True)
    if V.symbolic:
        from symx.array import wrap as _wrap
        return A, _wrap(ref)
    return np.asfortranarray(A), ref


def _solve_all(V, P, solver, A, X, tag, obs, transes=TRANS, shapekeys=SHAPEKEYS, check=True, A_live=None):
    """b := op(A) @ x*; obligation solve(b, trans) == x* entry-wise and shape(x) == shape(b)."""
    A = np.asarray(A)
    obs["A"] = _fin(V, A)
    if A_live is not None and P is not None and check:
        # the caller's matrix is an input of update(), not work space of the factorisation (it is the state of a signal)
        P.arrays_eq("%s:matrix-unchanged-by-update" % tag, np.asarray(A_live), A, kind="%s:matrix-unchanged" % tag)
    if A_live is not None and not V.symbolic:
        obs["_Alive"] = np.array(A_live, copy=True)
    for t in transes:
        M = _op(A, t)
        for sk in shapekeys:
            xs = _shaped(X, sk)
            b = _fin(V, M @ xs)
            b_in = b.copy()
            if not V.symbolic and np.ndim(b_in) == 2:
                b_in = np.asfortranarray(b_in)      # the layout LAPACK can work on in place (overwrite_b)
            x = solver.solve(b_in, trans=t)
            obs["x:%s:%s" % (t, sk)] = x
            obs["b:%s:%s" % (t, sk)] = b
            if not V.symbolic:
                obs["_bin:%s:%s" % (t, sk)] = np.array(b_in, copy=True)      # (replay only: not an observable of the twin)
            if P is not None and check:
                # the caller's right-hand side is an input, not work space
                P.arrays_eq("%s:%s:%s:rhs-unchanged" % (tag, t, sk), b_in, b, kind="%s:rhs-unchanged" % tag)
                P.arrays_eq("%s:%s:%s" % (tag, t, sk), x, xs, kind="%s:%s" % (tag, t))
                P.holds("%s:%s:%s:shape" % (tag, t, sk), np.shape(x) == np.shape(b), kind="%s:shape" % tag)
    return obs


def _register(V, kind, factors):
    if V.symbolic:
        from symx import factor
        factor.register(kind, factors)


# ------------------------------------------------------------------------------------------------
# direct dense solvers
def sc_diagonal(V, P, cfg):
    from pymoto.solvers import SolverDiagonal
    n, ac, xc = cfg["n"], cfg["ac"], cfg["xc"]
    A = _empty(V, (n, n), ac)
    for i in range(n):
        A[i, i] = _nz(V, "d_%d" % i, ac, default=(1.5 - i, 0.5))
    A = _fin(V, A)
    from .catalogue import _mk_sparse
    if cfg.get("sparse"):
        Ain = _mk_sparse(V, A)
    else:
        Ain = A
    if cfg.get("prior"):       # the solver object was updated with another matrix before
        A0 = _empty(V, (n, n), ac)
        for i in range(n):
            A0[i, i] = _nz(V, "e_%d" % i, ac, default=(0.75 + i, -0.25))
        A0 = _fin(V, A0)
        s = SolverDiagonal(_mk_sparse(V, A0) if cfg.get("sparse") else A0)
        s.update(Ain)
    else:
        s = SolverDiagonal(Ain)
    return _solve_all(V, P, s, A, _xstar(V, n, xc), "diagonal", {})


def sc_lu(V, P, cfg):
    from pymoto.solvers import SolverDenseLU
    n, ac, xc, perm = cfg["n"], cfg["ac"], cfg["xc"], cfg["perm"]
    L = _unit_lower(V, "L", n, ac)
    U = _upper(V, "U", n, ac)
    Pm = _perm_matrix(V, perm)
    A = _fin(V, Pm @ L @ U)
    _register(V, "lu", (Pm, L, U))
    if cfg.get("prior"):
        L0, U0 = _unit_lower(V, "K", n, ac), _upper(V, "W", n, ac)
        A0 = _fin(V, L0 @ U0)
        _register(V, "lu", (_perm_matrix(V, list(range(n))), L0, U0))
        s = SolverDenseLU(A0)
        A_in, A = _given(V, A)
        s.update(A_in)
    else:
        A_in, A = _given(V, A)
        s = SolverDenseLU(A_in)
    return _solve_all(V, P, s, A, _xstar(V, n, xc), "lu", {}, A_live=A_in)


def _ldl_factors(V, cfg, ac):
    """(l_full, D, perm) with l_full[perm] unit lower triangular; D diagonal or with 2x2 blocks."""
    n, perm, herm = cfg["n"], cfg["perm"], cfg["fherm"]
    blocks = cfg.get("blocks") or [1] * n
    L = _unit_lower(V, "L", n, ac)
    D = _empty(V, (n, n), ac)
    i = 0
    for bs in blocks:
        if bs == 1:
            if herm:
                D[i, i] = _emb(V, V.real("D_%d" % i, nonzero=True, default=(1.5 if i % 2 else -1.25)), ac)
            else:
                D[i, i] = _nz(V, "D_%d" % i, ac, default=(1.5 if i % 2 else -1.25, 0.5))
            i += 1
        else:
            # scipy (Bunch-Kaufman) leaves L[i+1, i] = 0 inside a 2x2 block
            L[i + 1, i] = _emb(V, 0 if V.symbolic else 0.0, ac)
            if herm:
                a = _emb(V, V.real("D_%d" % i, default=0.25), ac)
                d = _emb(V, V.real("D_%d" % (i + 1), default=-0.5), ac)
                o = _sc(V, "E_%d" % i, ac, default=(1.5, 0.75))
                D[i, i], D[i + 1, i + 1], D[i, i + 1], D[i + 1, i] = a, d, o, (o.conjugate() if ac else o)
            else:
                a = _sc(V, "D_%d" % i, ac, default=(0.25, 0.5))
                d = _sc(V, "D_%d" % (i + 1), ac, default=(-0.5, 0.25))
                o = _sc(V, "E_%d" % i, ac, default=(1.5, 0.75))
                D[i, i], D[i + 1, i + 1], D[i, i + 1], D[i + 1, i] = a, d, o, o
            det = D[i, i] * D[i + 1, i + 1] - D[i, i + 1] * D[i + 1, i]
            if V.symbolic:
                if isinstance(det, C):
                    V.assume(det.re * det.re + det.im * det.im > 0, "2x2 blocks of D are non-singular")
                else:
                    V.assume(det != 0, "2x2 blocks of D are non-singular")
                if cfg.get("offdiag_nz", True):
                    # a genuine 2x2 block (the diagonal-D branch has its own items)
                    if isinstance(o, C):
                        V.assume(o.re * o.re + o.im * o.im > 0)
                    else:
                        V.assume(o != 0)
            i += 2
    lfull = _empty(V, (n, n), ac)
    lfull[np.asarray(perm)] = L
    if V.symbolic and any(bs == 2 for bs in blocks) and cfg.get("inv_candidate", True):
        # np.linalg.inv(D) is a contract oracle; the (unique) inverse of the block-diagonal D is offered as a pre-image
        # candidate (adjugate / determinant of every 2x2 block, reciprocal of every 1x1 block); the oracle returns it
        # only after proving D @ cand == I.  Without a candidate it returns fresh symbols constrained by D B = B D = I.
        from symx import oracles
        Di = _empty(V, (n, n), ac)
        i = 0
        for bs in blocks:
            if bs == 1:
                Di[i, i] = 1 / D[i, i]
                i += 1
            else:
                det = D[i, i] * D[i + 1, i + 1] - D[i, i + 1] * D[i + 1, i]
                Di[i, i], Di[i + 1, i + 1] = D[i + 1, i + 1] / det, D[i, i] / det
                Di[i, i + 1], Di[i + 1, i] = -D[i, i + 1] / det, -D[i + 1, i] / det
                i += 2
        oracles.add_candidate(Di)
    return lfull, D, np.asarray(perm)


def _ldl_matrix(V, lfull, D, herm):
    lt = _conj(lfull.T) if herm else lfull.T
    return _fin(V, lfull @ D @ lt)


def sc_ldl(V, P, cfg):
    from pymoto.solvers import SolverDenseLDL
    n, ac, xc = cfg["n"], cfg["ac"], cfg["xc"]
    lfull, D, perm = _ldl_factors(V, cfg, ac)
    A = _ldl_matrix(V, lfull, D, cfg["fherm"])
    _register(V, "ldl", (lfull, D, perm))
    if V.symbolic and cfg.get("blocks") and list(cfg["perm"]) == list(range(n)):
        # witnesses for which LAPACK's Bunch-Kaufman pivoting really takes a 2x2 block WITHOUT a row interchange
        # (|a_kk| and |a_k+1,k+1| below alpha |a_k+1,k|, alpha ~ 0.64): a preference for the replay only, no restriction
        def _abs2(e):
            return (e.re * e.re + e.im * e.im) if isinstance(e, C) else (R.of(e) * R.of(e))
        Ad = np.asarray(A)
        k = 0
        prefs = []
        for bsz in cfg["blocks"]:
            if bsz == 2:
                off = _abs2(Ad[k + 1, k])
                for dd in (Ad[k, k], Ad[k + 1, k + 1]):
                    cnd = (4 * _abs2(dd) <= off)
                    if isinstance(cnd, SB):
                        prefs.append(cnd.t)
            k += bsz
        if prefs:
            if not hasattr(V.c, "witness_prefs"):
                V.c.witness_prefs = []
            V.c.witness_prefs.extend(prefs)
    A_in, A = _given(V, A)
    if cfg.get("ctor"):
        # the documented constructor shortcut: the matrix is handed to the constructor (which calls update itself)
        s = SolverDenseLDL(A_in) if cfg["hermitian"] is None else SolverDenseLDL(A_in, hermitian=cfg["hermitian"])
    else:
        s = SolverDenseLDL(hermitian=cfg["hermitian"])
    if cfg.get("prior"):
        A0 = _empty(V, (n, n), ac)
        for i in range(n):
            A0[i, i] = _emb(V, V.real("e_%d" % i, nonzero=True, default=0.75 + i), ac)
        A0 = _fin(V, A0)
        _register(V, "ldl", (np.eye(n, dtype=int).astype(object) if V.symbolic else np.eye(n), A0, np.arange(n)))
        s.update(A0)
    if not cfg.get("ctor"):
        s.update(A_in)
    if P is not None and cfg["hermitian"] is None:
        # auto-detection: the flag the solver settled on must describe the matrix on this path
        o = P.holds("ldl:auto-flag", _is_herm(A) if s.hermitian else _is_sym(A), kind="ldl:auto-flag")
        if o.status != "unsat":
            return None      # a wrong flag is reported at once; the solves on the wrongly flagged factorization are skipped
    obs = _solve_all(V, P, s, A, _xstar(V, n, xc), "ldl-%s" % cfg["variant"], {}, A_live=A_in)
    obs["flag"] = int(bool(s.hermitian))
    return obs


def sc_cholesky(V, P, cfg):
    from pymoto.solvers import SolverDenseCholesky
    n, ac, xc = cfg["n"], cfg["ac"], cfg["xc"]
    prior = cfg.get("prior")        # the solver object has seen another matrix before (update history)
    s = None
    if V.symbolic:
        from symx import factor
    with warnings.catch_warnings():
        warnings.simplefilter("ignore")
        if prior == "spd":
            U0 = _upper(V, "U0", n, ac, posdiag=True)
            A0 = _fin(V, _conj(U0.T) @ U0)
            _register(V, "cholesky", U0)
            s = SolverDenseCholesky(A0)
        elif prior == "indef":
            l0, D0, p0 = _ldl_factors(V, dict(cfg, perm=list(range(n)), blocks=[1] * n, fherm=True), ac)
            A0 = _ldl_matrix(V, l0, D0, True)
            if V.symbolic:
                d0 = D0[0, 0]
                V.assume((d0.re if isinstance(d0, C) else d0) < 0, "prior matrix not positive definite")
                factor.configure(cholesky_fails=True)
            _register(V, "ldl", (l0, D0, p0))
            s = SolverDenseCholesky(A0)
            if V.symbolic:
                factor.configure(cholesky_fails=False)
    if cfg["branch"] == "success":
        U = _upper(V, "U", n, ac, posdiag=True)
        A = _fin(V, _conj(U.T) @ U)
        _register(V, "cholesky", U)
    else:
        # Hermitian, not positive definite (first pivot negative): LAPACK's potrf fails, the LDL backup takes over
        lfull, D, perm = _ldl_factors(V, cfg, ac)
        A = _ldl_matrix(V, lfull, D, True)
        if V.symbolic:
            d0 = D[0, 0]
            V.assume((d0.re if isinstance(d0, C) else d0) < 0,
                     "Cholesky fall-back items: D_00 < 0, so A is not positive definite and potrf fails")
            factor.configure(cholesky_fails=True)
        _register(V, "ldl", (lfull, D, perm))
    with warnings.catch_warnings():
        warnings.simplefilter("ignore")
        A_in, A = _given(V, A)
        if s is None:
            s = SolverDenseCholesky(A_in)
        else:
            s.update(A_in)
    obs = _solve_all(V, P, s, A, _xstar(V, n, xc), "cholesky-%s" % cfg["branch"], {}, A_live=A_in)
    if P is not None:
        P.holds("cholesky:branch", bool(s.success) == (cfg["branch"] == "success"), kind="cholesky:branch")
    else:
        obs["success_flag"] = int(bool(s.success))
    return obs


def sc_qr(V, P, cfg):
    from pymoto.solvers import SolverDenseQR
    n, ac, xc = 2, cfg["ac"], cfg["xc"]
    # every unitary 2x2 matrix: first column (al, be) any unit vector; the second column is a unit vector of the
    # one-dimensional orthogonal complement, i.e. u * (-conj(be), conj(al)) with |u| = 1  (real case: u = +-1)
    al = _sc(V, "Q_al", ac, default=(0.6, 0.0))
    be = _sc(V, "Q_be", ac, default=(0.8, 0.0))
    u = _sc(V, "Q_u", ac, default=(-1.0, 0.0))
    Q = _empty(V, (n, n), ac)
    cj = (lambda e: e.conjugate()) if ac else (lambda e: e)
    Q[0, 0], Q[1, 0], Q[0, 1], Q[1, 1] = al, be, -(u * cj(be)), u * cj(al)
    if V.symbolic:
        def m2(e):
            return e.re * e.re + e.im * e.im if isinstance(e, C) else e * e
        V.assume(m2(al) + m2(be) == 1, "QR: Q^H Q = I, parametrised: Q = [[al, -u conj(be)], [be, u conj(al)]] with "
                                       "|al|^2 + |be|^2 = 1 and |u| = 1 (all unitary 2x2 matrices)")
        V.assume(m2(u) == 1)
    Rm = _upper(V, "R", n, ac)
    A = _fin(V, Q @ Rm)
    _register(V, "qr", (Q, Rm))
    A_in, A = _given(V, A)
    s = SolverDenseQR(A_in)
    return _solve_all(V, P, s, A, _xstar(V, n, xc), "qr", {}, transes=tuple(cfg.get("transes", TRANS)), A_live=A_in)


# ------------------------------------------------------------------------------------------------
def _general(V, name, n, cplx, diag_nz=False, realdiag=False):
    A = _empty(V, (n, n), cplx)
    for i in range(n):
        for j in range(n):
            if i == j and diag_nz and realdiag:
                A[i, j] = _emb(V, V.real("%s_%d_%d" % (name, i, j), nonzero=True, default=2.5 + i), cplx)
            elif i == j and diag_nz:
                A[i, j] = _nz(V, "%s_%d_%d" % (name, i, j), cplx, default=(2.5 + i, 0.5))
            else:
                A[i, j] = _sc(V, "%s_%d_%d" % (name, i, j), cplx, default=(0.5 * (i - j) + 0.25 * (i == j) * (4 + i), 0.25 * (i + j)))
    return A


def sc_sparse_lu(V, P, cfg):
    """trans plumbing of SolverSparseLU: splu(A).solve(rhs, trans=...) is a contract oracle."""
    from pymoto.solvers import SolverSparseLU
    from .catalogue import _mk_sparse
    n, ac, xc = cfg["n"], cfg["ac"], cfg["xc"]
    A = _fin(V, _general(V, "A", n, ac))
    X = _xstar(V, n, xc)
    if cfg.get("prior") == "inplace":
        # the SAME sparse matrix object is given new values in place (A.data[:] = ...) and handed to update() again
        S0 = _mk_sparse(V, _fin(V, _general(V, "A0", n, ac)))
        s = SolverSparseLU(S0)
        if V.symbolic:
            S0._dense[...] = np.asarray(A)
        else:
            import scipy.sparse as _sps
            new_ = _sps.csc_matrix(np.asarray(A))
            if S0.data.shape == new_.data.shape and np.array_equal(S0.indices, new_.indices):
                S0.data[:] = new_.data
            else:       # (a witness with an exact zero entry: other pattern, no in-place update possible)
                S0 = new_
        s.update(S0)
    elif cfg.get("prior"):
        s = SolverSparseLU(_mk_sparse(V, _fin(V, _general(V, "A0", n, ac))))
        s.update(_mk_sparse(V, A))
    else:
        s = SolverSparseLU(_mk_sparse(V, A))
    obs = {"A": A}
    for t in TRANS:
        M = _op(A, t)
        for sk in SHAPEKEYS:
            xs = _shaped(X, sk)
            b = _fin(V, M @ xs)
            if V.symbolic:
                from symx import oracles, ctx as _ctx
                oracles.clear_candidates()
                oracles.add_candidate(xs)
                st = oracles._store(_ctx.current())
                n0 = len(st["log"])
            x = s.solve(b.copy(), trans=t)
            obs["x:%s:%s" % (t, sk)] = x
            obs["b:%s:%s" % (t, sk)] = b
            if P is not None:
                new = st["log"][n0:]
                P.holds("sparselu:%s:%s:one-inner-solve" % (t, sk), len(new) == 1 and new[0][1] == t, kind="sparselu:plumbing")
                P.holds("sparselu:%s:%s:candidate" % (t, sk), len(new) == 1 and new[0][0] == "candidate", kind="sparselu:plumbing")
                P.arrays_eq("sparselu:%s:%s" % (t, sk), x, xs, kind="sparselu:%s" % t)
                P.holds("sparselu:%s:%s:shape" % (t, sk), np.shape(x) == np.shape(b), kind="sparselu:shape")
    return obs


# ------------------------------------------------------------------------------------------------
# preconditioners: M_op @ solve(r, trans) == r for the documented M
def _precond_factors(V, A, w, which):
    """factors (F1, Dmid, F2) of the documented M = F1 @ Dmid @ F2 (Jacobi: M = D / w alone)"""
    A = np.asarray(A)
    n = A.shape[0]
    cplx = is_complex_content(A) if V.symbolic else np.iscomplexobj(A)
    Dm, Lm, Um, Di = (_empty(V, (n, n), cplx) for _ in range(4))
    for i in range(n):
        Dm[i, i] = A[i, i]
        Di[i, i] = 1 / A[i, i]
        for j in range(n):
            if j < i:
                Lm[i, j] = A[i, j]
            elif j > i:
                Um[i, j] = A[i, j]
    if which == "jacobi":
        return [Dm / w]
    return [Dm / w + Lm, Di * (w / (2 - w)), Dm / w + Um]


def _precond_apply(factors, t, x):
    """op(M) @ x as a sequence of matrix-vector products (M is never multiplied out symbolically)"""
    fs = list(factors) if t == "N" else list(reversed(factors))
    y = np.asarray(x)
    for F in reversed(fs):
        y = _op(F, t) @ y
    return y


def _precond_M(factors):
    M = factors[0]
    for F in factors[1:]:
        M = M @ F
    return M


def sc_precond(V, P, cfg):
    from pymoto.solvers import DampedJacobi, SOR
    from .catalogue import _mk_sparse
    n, ac, xc, which = cfg["n"], cfg["ac"], cfg["xc"], cfg["which"]
    A = _fin(V, _general(V, "A", n, ac, diag_nz=True, realdiag=cfg.get("realdiag", False)))
    with warnings.catch_warnings():
        warnings.simplefilter("ignore")          # SparseEfficiencyWarning of the real splu in the concrete twin
        if which == "jacobi":
            w = V.real("w", positive=True, hi=1, default=0.75)
            s = DampedJacobi(_mk_sparse(V, A), w=w)
        else:
            w = V.real("w", positive=True, default=1.25)
            if V.symbolic:
                V.assume(w < 2, "SOR: 0 < w < 2 as documented")
            s = SOR(_mk_sparse(V, A), w=w)
    fac = _precond_factors(V, A, w, which)
    Rr = np.asarray(V.cplxs("r", (n, 2)) if xc else V.reals("r", (n, 2)))
    obs = {} if V.symbolic else {"M": _precond_M(fac)}
    sks = SHAPEKEYS if which == "jacobi" else ("c1", "c2")
    for t in TRANS:
        for sk in sks:
            r = _fin(V, _shaped(Rr, sk))
            x = s.solve(r.copy(), trans=t)
            obs["x:%s:%s" % (t, sk)] = x
            obs["b:%s:%s" % (t, sk)] = r
            if P is not None:
                P.arrays_eq("%s:%s:%s" % (which, t, sk), _precond_apply(fac, t, x), r, kind="%s:%s" % (which, t))
                P.holds("%s:%s:%s:shape" % (which, t, sk), np.shape(x) == np.shape(r), kind="%s:shape" % which)
    return obs


# ------------------------------------------------------------------------------------------------
# auto_determine_solver
CLASSES = ("diagonal", "sym-posdiag", "sym-indef", "complex-symmetric", "hermitian", "hermitian-posdiag", "general",
           "lower-triangular", "upper-triangular", "free")
SOLVER_CODE = {"SolverDiagonal": 1, "SolverDenseQR": 2, "SolverDenseLU": 3, "SolverDenseCholesky": 4, "SolverDenseLDL": 5,
               "SolverSparseLU": 6, "SolverSparsePardiso": 7, "SolverSparseCholeskyScikit": 8, "SolverSparseCholeskyCVXOPT": 9}


def _class_matrix(V, cls, n):
    """(A, complex?, facts) with facts = truthful (isdiagonal, ishermitian, issymmetric) or None when not fixed by the class"""
    cplx = cls in ("complex-symmetric", "hermitian", "hermitian-posdiag") or cls.endswith("-c")
    base = cls[:-2] if cls.endswith("-c") else cls
    A = _empty(V, (n, n), cplx)
    for i in range(n):
        for j in range(n):
            nm = "A_%d_%d" % (i, j)
            lo, hi = min(i, j), max(i, j)
            if base == "diagonal":
                if i == j:
                    A[i, j] = _nz(V, nm, cplx, default=(1.5 - i, 0.5))
            elif base in ("sym-posdiag", "sym-indef", "complex-symmetric"):
                if i <= j:
                    A[i, j] = _sc(V, nm, cplx, default=(1.0 + i + 0.25 * j, 0.5 + 0.25 * i))
                else:
                    A[i, j] = A[j, i]
            elif base in ("hermitian", "hermitian-posdiag"):
                if i == j:
                    A[i, j] = _emb(V, V.real(nm, default=1.0 + i), True)
                elif i < j:
                    A[i, j] = _sc(V, nm, True, default=(0.5, 0.25 + 0.25 * j))
                else:
                    A[i, j] = A[j, i].conjugate()
            elif base == "lower-triangular":
                if i >= j:
                    A[i, j] = _sc(V, nm, cplx, default=(1.0 + i + 0.25 * j, 0.5))
            elif base == "upper-triangular":
                if i <= j:
                    A[i, j] = _sc(V, nm, cplx, default=(1.0 + i + 0.25 * j, 0.5))
            else:
                A[i, j] = _sc(V, nm, cplx, default=(1.0 + i - 0.5 * j, 0.5 - 0.25 * i))
    if V.symbolic:
        def re(e):
            return e.re if isinstance(e, C) else e
        if base in ("sym-posdiag", "hermitian-posdiag"):
            for i in range(n):
                V.assume(re(A[i, i]) > 0, "class %s: positive diagonal" % base)
        if base == "sym-indef":
            V.assume(re(A[0, 0]) < 0, "class sym-indef: A_00 < 0 < A_11")
            V.assume(re(A[1, 1]) > 0)
        if base == "complex-symmetric":
            V.assume(A[0, 1].im != 0, "class complex-symmetric: Im A_01 != 0, hence not Hermitian")
        if base == "hermitian":
            V.assume(A[0, 1].im != 0, "class hermitian (complex): Im A_01 != 0, hence not symmetric")
        if base == "general":
            V.assume(A[0, 1] != A[1, 0], "class general: A_01 != A_10 (not symmetric)")
            if cplx:
                V.assume(A[0, 1] != A[1, 0].conjugate(), "class general: A_01 != conj(A_10) (not Hermitian)")
        if base == "lower-triangular":
            V.assume(A[1, 0] != 0, "class lower-triangular: A_10 != 0 (not diagonal)")
        if base == "upper-triangular":
            V.assume(A[0, 1] != 0, "class upper-triangular: A_01 != 0 (not diagonal)")
    return _fin(V, A), cplx, base


def _truth(base, cplx):
    """truthful values of (isdiagonal, ishermitian, issymmetric) where the class fixes them"""
    if base == "diagonal":
        return dict(isdiagonal=True)
    if base in ("sym-posdiag", "sym-indef"):
        return dict(isdiagonal=None, ishermitian=(None if cplx else True), issymmetric=True)
    if base == "complex-symmetric":
        return dict(isdiagonal=None, ishermitian=False, issymmetric=True)
    if base in ("hermitian", "hermitian-posdiag"):
        return dict(isdiagonal=None, ishermitian=True, issymmetric=(False if base == "hermitian" else None))
    if base in ("general", "lower-triangular", "upper-triangular"):
        return dict(isdiagonal=False, ishermitian=False, issymmetric=False)
    return {}


def _all_true(conds):
    ts = []
    for e in conds:
        if isinstance(e, SB):
            ts.append(e.t)
        elif not e:
            return False
    if not ts:
        return True
    return SB(z3.And(*ts)) if len(ts) > 1 else SB(ts[0])


def _is_herm(A):
    A = np.asarray(A)
    n = A.shape[0]
    return _all_true([A[i, j] == (A[j, i].conjugate() if hasattr(A[j, i], "conjugate") else A[j, i])
                      for i in range(n) for j in range(n) if i <= j])


def _is_sym(A):
    A = np.asarray(A)
    n = A.shape[0]
    return _all_true([A[i, j] == A[j, i] for i in range(n) for j in range(i + 1, n)])


def _is_diag(A):
    A = np.asarray(A)
    n = A.shape[0]
    return _all_true([A[i, j] == 0 for i in range(n) for j in range(n) if i != j])


def sc_auto(V, P, cfg):
    from pymoto.solvers import auto_determine_solver
    from .catalogue import _mk_sparse
    n, cls, ov = cfg["n"], cfg["cls"], cfg["ov"]
    A, cplx, base = _class_matrix(V, cls, n)
    truth = _truth(base, cplx)
    kw = {}
    if ov == "all":
        kw = {k: v for k, v in truth.items() if v is not None}
    elif ov == "herm" and truth.get("ishermitian") is not None:
        kw = dict(ishermitian=truth["ishermitian"])
    elif ov == "sym" and truth.get("issymmetric") is not None:
        kw = dict(issymmetric=truth["issymmetric"])
    Ain = _mk_sparse(V, A) if cfg["sparse"] else A
    with warnings.catch_warnings():
        warnings.simplefilter("ignore")
        s = auto_determine_solver(Ain, **kw)
    name = type(s).__name__
    h = getattr(s, "hermitian", None)
    obs = dict(code=SOLVER_CODE.get(name, 0), herm=(-1 if h is None else int(bool(h))))
    if P is not None:
        k = "auto:%s" % ("sparse" if cfg["sparse"] else "dense")
        P.holds("auto:known-class", name in SOLVER_CODE, kind=k)
        if name == "SolverDiagonal":
            P.holds("auto:diagonal-solver-needs-diagonal-matrix", _is_diag(A), kind=k + ":diagonal")
        if name in ("SolverDenseCholesky", "SolverSparseCholeskyScikit", "SolverSparseCholeskyCVXOPT"):
            P.holds("auto:cholesky-needs-hermitian-matrix", _is_herm(A), kind=k + ":cholesky")
        if name == "SolverDenseLDL":
            if h is None:
                P.holds("auto:ldl-flag-set", False, kind=k + ":ldl")
            elif h:
                P.holds("auto:ldl-hermitian-flag-needs-hermitian-matrix", _is_herm(A), kind=k + ":ldl")
            else:
                P.holds("auto:ldl-symmetric-flag-needs-symmetric-matrix", _is_sym(A), kind=k + ":ldl")
        if cfg["sparse"]:
            # Pardiso / CHOLMOD / cvxopt are absent: every non-diagonal sparse matrix must go to SuperLU
            P.holds("auto:sparse-solver-for-sparse-matrix", name in ("SolverSparseLU", "SolverDiagonal"), kind=k)
        else:
            P.holds("auto:dense-solver-for-dense-matrix", name in ("SolverDiagonal", "SolverDenseLU", "SolverDenseCholesky",
                                                                  "SolverDenseLDL", "SolverDenseQR"), kind=k)
        if base == "diagonal":
            P.holds("auto:diagonal-matrix-gets-diagonal-solver", name == "SolverDiagonal", kind=k + ":diagonal")
    return obs


# ------------------------------------------------------------------------------------------------
# CG: the real CG.solve with maxit 1 / 2
def _hpd(V, cplx):
    """2x2 Hermitian positive definite matrix [[a, c], [conj c, d]] with a > 0, a d - |c|^2 > 0"""
    a = V.real("A_0_0", positive=True, default=2.0)
    d = V.real("A_1_1", positive=True, default=3.0)
    if cplx:
        c = _sc(V, "A_0_1", True, default=(0.5, 0.75))
        cc = c.conjugate()
        m2 = (c.re * c.re + c.im * c.im) if V.symbolic else abs(c) ** 2
    else:
        c = V.real("A_0_1", default=0.5)
        cc, m2 = c, c * c
    if V.symbolic:
        V.assume(a * d - m2 > 0, "CG: A Hermitian positive definite (a > 0, det > 0)")
    A = _empty(V, (2, 2), cplx)
    A[0, 0], A[1, 1], A[0, 1], A[1, 0] = _emb(V, a, cplx), _emb(V, d, cplx), c, cc
    return _fin(V, A)


def _sqnorm_cols(Rm):
    """squared 2-norm of every column (array of reals)"""
    Rm = np.asarray(Rm)
    if Rm.ndim == 1:
        Rm = Rm.reshape(-1, 1)
    out = []
    for j in range(Rm.shape[1]):
        tot = 0
        for i in range(Rm.shape[0]):
            e = Rm[i, j]
            if isinstance(e, C):
                tot = tot + e.re * e.re + e.im * e.im
            elif isinstance(e, (complex, np.complexfloating)):
                tot = tot + e.real ** 2 + e.imag ** 2
            else:
                tot = tot + e * e
        out.append(tot)
    return out


def _unit_direction(V, cplx):
    """Rational parametrisation of the whole unit sphere by homogeneous stereographic coordinates (no pole is missing):
    R^2: u = (a^2 - b^2, 2ab) / (a^2 + b^2);  C^2 = R^4: u = (2 s0 g, 2 s1 g, 2 s2 g, |s|^2 - g^2) / (|s|^2 + g^2)."""
    if not cplx:
        a, b = V.real("dir_a", default=1.0), V.real("dir_b", default=0.5)
        den = a * a + b * b
        if V.symbolic:
            V.assume(den > 0, "CG: direction parameters not all zero")
        return [(a * a - b * b) / den, 2 * a * b / den]
    s0, s1, s2 = V.real("dir_s0", default=0.5), V.real("dir_s1", default=-0.25), V.real("dir_s2", default=0.75)
    g = V.real("dir_g", default=1.0)
    ss = s0 * s0 + s1 * s1 + s2 * s2
    den = ss + g * g
    if V.symbolic:
        V.assume(den > 0, "CG: direction parameters not all zero")
    c = [2 * s0 * g / den, 2 * s1 * g / den, 2 * s2 * g / den, (ss - g * g) / den]
    if V.symbolic:
        return [C(c[0], c[1]), C(c[2], c[3])]
    return [complex(c[0], c[1]), complex(c[2], c[3])]


def sc_cg(V, P, cfg):
    from pymoto.solvers import CG, DampedJacobi, Preconditioner
    from .catalogue import _mk_sparse
    ac, xc, t = cfg["ac"], cfg["xc"], cfg["trans"]
    sk, maxit, restart = cfg["shape"], cfg["maxit"], cfg["restart"]
    A = _hpd(V, ac)
    n = 2
    ncol = 2 if sk == "c2" else 1
    shp = (n,) if sk == "v" else (n, ncol)
    # real data: rational parametrisation (below); complex data: 11 - 15 real unknowns, where the purely polynomial queries
    # send z3's nlsat into long, memory-hungry runs that overshoot its time-out - the SQRT-function encoding is used there
    # (z3 answers `unknown` quickly; every obligation is still closed by the simplifier / the path condition)
    rat = bool(cfg.get("rat", ncol == 1 and not xc))
    x0 = None
    if cfg["x0"] and not cfg.get("x0_is_rhs"):
        x0 = V.cplxs("x0", shp) if xc else V.reals("x0", shp)
    w = V.real("w", positive=True, hi=1, default=0.75) if cfg["prec"] == "jacobi" else None
    roots = []
    z1 = None
    if rat:
        # pre-image for the square root in orth(z, normalize=True): the first preconditioned residual is z := rho * u with u a
        # rationally parametrised unit vector (whole sphere) and rho > 0, so |z| = rho is a rational function; np.sqrt
        # returns the registered root after proving root^2 == argument.  z ranges over all non-zero vectors.
        u = _unit_direction(V, xc)
        rho = V.real("rho", positive=True, default=1.5)
        roots.append(rho)
        z1 = np.empty(shp, dtype=object if V.symbolic else (complex if xc else float))
        for i in range(n):
            z1[(i,) if sk == "v" else (i, 0)] = rho * u[i]
        z1 = _fin(V, z1)
    if rat and cfg["prec"] in ("identity", "jacobi"):
        # initial residual r0 with M^-1 r0 = z  (identity: r0 = z; Jacobi: r0_i = A_ii z_i / w);  b := r0 + op(A) x0
        r0 = z1 if cfg["prec"] == "identity" else _fin(V, np.asarray(
            [[A[i, i] * e / w for e in np.atleast_1d(z1[i])] for i in range(n)], dtype=object if V.symbolic else None).reshape(shp))
        b = r0 if x0 is None else _fin(V, np.asarray(r0) + _op(A, t) @ np.asarray(x0))
    else:
        b = V.cplxs("b", shp) if xc else V.reals("b", shp)
    tol_t = V.real("tol", positive=True, default=0.25)
    if V.symbolic:
        from symx.scalars import NormVal, _split_factors
        # the tolerance is the non-negative number whose square is tol^2: comparisons with norms are decided on squares
        tol = NormVal.make(tol_t * tol_t)
        for s2 in _sqnorm_cols(b):
            V.assume(s2 > 0, "CG: no zero right-hand-side column (the code divides by |b|)")
            coef, facs = _split_factors(z3.simplify(s2.n))
            if coef > 0 and len(facs) == 1 and facs[0][1] == 1:
                V.c.mark_positive(facs[0][0])       # sign of the divisor |b|^2 known: no sign case split in comparisons
    else:
        tol = tol_t
    if cfg["prec"] == "jacobi":
        prec = DampedJacobi(w=w)
    elif cfg["prec"] == "free":
        # abstraction of *any* preconditioner: solve() returns arbitrary values (fresh symbols; the first one in the
        # rho * u form, which is every non-zero vector); the residual invariant and the convergence claim of CG must not
        # depend on what the preconditioner returns
        class FreePreconditioner(Preconditioner):
            calls = 0

            def solve(self, rhs, x0=None, trans='N'):
                FreePreconditioner.calls += 1
                if FreePreconditioner.calls == 1 and z1 is not None:
                    return z1.reshape(np.shape(rhs)).copy()
                nm = "z%d" % FreePreconditioner.calls
                return V.cplxs(nm, np.shape(rhs)) if xc else V.reals(nm, np.shape(rhs))
        prec = FreePreconditioner()
    else:
        prec = Preconditioner()
    Ain = _mk_sparse(V, A) if cfg.get("sparse", True) else A
    if V.symbolic and rat:
        V.c.witness_sampling = 6        # every constraint is rational now: feasible sides are often settled by a sample point
    if V.symbolic and ncol == 1 and cfg.get("inv_exact", True):
        from symx import oracles
        oracles.configure(inv_exact_1x1=True)       # p^H A p is 1x1 for a single right-hand side: inv is the reciprocal
    # observation of the tolerance tests: every np.linalg.norm(r, axis=0) call of CG.solve is intercepted (symbolic mode:
    # the entry of the numpy stand-in; concrete mode: numpy.linalg.norm itself, restored afterwards) and the residual r it
    # is given is recorded together with a snapshot of the iterate x of the calling frame.
    snaps = []
    import sys as _sys
    import numpy.linalg as _npl

    def record(arg):
        fr = _sys._getframe(2)
        loc = fr.f_locals
        if fr.f_code.co_name != "solve" or "x" not in loc or arg is loc.get("b"):
            return
        snaps.append((np.array(arg, copy=True), np.array(loc["x"], copy=True)))
    restore = None
    if V.symbolic:
        from symx import npshim
        from symx.decide import quick_equal
        orig = npshim._linalg._ov["norm"]
        orig_sqrt = npshim.OVERRIDES["sqrt"]

        def norm_spy(x, *a, **k):
            record(x)
            return orig(x, *a, **k)

        def sqrt_preimage(x, *a, **k):
            if isinstance(x, (R, C)) and roots:
                xr = x
                if isinstance(x, C):
                    xr = x.re if quick_equal(x.im, 0) else None
                if xr is not None and xr.q is None:
                    for cand in roots:
                        if quick_equal(cand * cand, xr):
                            V.c.stubs.add("np.sqrt (pre-image: returns the registered positive root after proving root^2 == argument)")
                            return C(cand, 0) if isinstance(x, C) else cand
            return orig_sqrt(x, *a, **k)
        npshim._linalg._ov["norm"] = norm_spy
        npshim.OVERRIDES["sqrt"] = sqrt_preimage
        restore = (npshim._linalg._ov, orig, orig_sqrt)
    else:
        real_norm = _npl.norm

        def norm_spy(x, *a, **k):
            record(x)
            return real_norm(x, *a, **k)
        _npl.norm = norm_spy
    k = "cg:%s:maxit%d:restart%d" % (t, maxit, restart)
    bm = np.asarray(b).reshape(n, ncol)

    def state_invariants():
        # (1) at every tolerance test, the residual the code measures is the true residual of its current iterate.  These are
        #     polynomial identities (closed by the simplifier); a short solver time-out, then the fallback probe
        P.timeout_ms = min(P.timeout_ms, 2500)
        for i_, (r_, x_) in enumerate(snaps):
            obl = P.arrays_eq("cg:invariant[%d] r==b-op(A)x" % i_, np.asarray(r_).reshape(n, ncol),
                              bm - _op(A, t) @ np.asarray(x_).reshape(n, ncol), kind=k + ":invariant")
            _fallback_probe(V.c, obl, np.asarray(r_).reshape(n, ncol), bm - _op(A, t) @ np.asarray(x_).reshape(n, ncol))
    broke = False
    try:
        if cfg.get("prior_matrix"):
            # history on one solver object: set up for another matrix and used in the same mode, then update(A)
            import scipy.sparse as _sps
            A0 = np.array([[2.0, 0.5 - 0.25j], [0.5 + 0.25j, 3.0]]) if ac else np.array([[2.0, 0.5], [0.5, 3.0]])
            b0 = np.array([1.0, -2.0]).reshape((n,) if sk == "v" else (n, 1))
            if V.symbolic:
                from symx.array import wrap as _wrap
                cst = (lambda z: C(R.of(float(np.real(z))), R.of(float(np.imag(z))))) if ac else (lambda z: R.of(float(z)))
                A0 = _wrap(np.array([[cst(e) for e in row] for row in A0], dtype=object))
                b0 = _wrap(np.array([R.of(float(e)) for e in b0.reshape(-1)], dtype=object).reshape(b0.shape))
                A0in = _mk_sparse(V, A0) if cfg.get("sparse", True) else A0
            else:
                A0in = _sps.csc_matrix(A0) if cfg.get("sparse", True) else A0
            s = CG(A0in, preconditioner=Preconditioner(), tol=(R.of("1/1000") if V.symbolic else 1e-3), maxit=1, restart=restart)
            with warnings.catch_warnings():
                warnings.simplefilter("ignore")
                s.solve(b0, trans=t)
            del snaps[:]
            s.preconditioner, s.tol, s.maxit = prec, tol, maxit
            s.update(Ain)
        else:
            s = CG(Ain, preconditioner=prec, tol=tol, maxit=maxit, restart=restart)
        with warnings.catch_warnings(record=True) as wl:
            warnings.simplefilter("always")
            try:
                b_arg = b.copy()
                x0_arg = None if x0 is None else x0.copy()
                if cfg.get("x0_is_rhs"):
                    x0_arg = b_arg          # the caller uses the right-hand side itself as the initial guess (one array)
                x = s.solve(b_arg, x0=x0_arg, trans=t)
            except ValueError as e:
                # np.stack([]) in orth(): every candidate direction was dropped.  Only the exact-zero test `beta_i == 0` taken
                # on its true side (an equality atom as the last branch condition) is accepted as a cut; anything else is
                # an exception of the code under test
                def zero_test(t_):
                    return z3.is_eq(t_) or (z3.is_and(t_) and all(z3.is_eq(ch) for ch in t_.children()))
                if not (V.symbolic and "at least one array" in str(e) and V.c.pc and zero_test(V.c.pc[-1])):
                    raise
                broke = True
        warned = any("Maximum iterations" in str(w_.message) for w_ in wl)
    finally:
        if restore is not None:
            restore[0]["norm"] = restore[1]
            npshim.OVERRIDES["sqrt"] = restore[2]
        else:
            _npl.norm = real_norm
    if broke:
        # orth() dropped the new search direction z + p beta as an exact zero vector (np.stack of nothing raises).  For a
        # positive definite A and preconditioner this needs r = 0 (p^H r = 0 after the step), which contradicts the failed
        # tolerance test on this path; z3 cannot refute the algebraic variety {z + p beta = 0}, so the path is cut after the
        # invariants of the tests seen so far have been stated (assumption "no breakdown", listed in ASSUMPTIONS).
        state_invariants()
        from symx.ctx import PathAbort
        raise _Breakdown("zero search direction (breakdown) excluded")
    obs = dict(x=x, warned=int(warned), A=A, b=b, nsnap=len(snaps))
    if not V.symbolic:
        obs["_chg:rhs"] = float(np.max(np.abs(np.asarray(b_arg, dtype=complex) - np.asarray(b, dtype=complex))))
    for i_, (r_, x_) in enumerate(snaps[:3]):
        obs["snap_r%d" % i_], obs["snap_x%d" % i_] = _fin(V, r_), _fin(V, x_)
    if P is not None:
        # the caller's right-hand side is left alone (A x = b is a statement about the b that was passed)
        t_keep0 = P.timeout_ms
        P.timeout_ms = min(P.timeout_ms, 2500)
        obl_ = P.arrays_eq("cg:rhs-unchanged", np.asarray(b_arg).reshape(n, ncol), bm, kind="cg:arguments-unchanged")
        P.timeout_ms = t_keep0
        if V.symbolic:
            _fallback_probe(V.c, obl_, np.asarray(b_arg).reshape(n, ncol), bm)
        # (decided without the solver: a result stored in the caller's rhs array has overwritten it)
        P.holds("cg:rhs-unchanged:the-result-is-not-stored-in-the-rhs-array",
                not (isinstance(x, np.ndarray) and np.shares_memory(np.asarray(x), np.asarray(b_arg))), kind="cg:arguments-unchanged")
        P.holds("cg:shape", np.shape(x) == shp, kind="cg:shape")
        P.holds("cg:residual-norm-observed", len(snaps) >= 1, kind="cg:invariant")
        t_keep = P.timeout_ms
        state_invariants()
        P.timeout_ms = t_keep
        if snaps:
            # (2) the returned x is the iterate of the last tolerance test
            P.arrays_eq("cg:returned-x-is-tested-x", np.asarray(x).reshape(n, ncol), np.asarray(snaps[-1][1]).reshape(n, ncol),
                        kind=k + ":returned")
            # (3) what the code tested last: returned without the max-iteration warning  =>  |r|^2 <= tol^2 |b|^2 for every
            #     column of that r, and a warning only if some column is above the tolerance.  With (1) and (2) this is
            #     |b - op(A) x|^2 <= tol^2 |b|^2 for the returned x (squares, no sqrt; the code divides by |b|).
            r2, b2 = _sqnorm_cols(np.asarray(snaps[-1][0]).reshape(n, ncol)), _sqnorm_cols(bm)
            if not warned:
                for j in range(ncol):
                    P.holds("cg:converged-claim[%d]" % j, r2[j] / b2[j] <= tol_t * tol_t, kind=k + ":converged")
            else:
                P.holds("cg:warning-only-if-not-converged", _any_true([r2[j] / b2[j] > tol_t * tol_t for j in range(ncol)]),
                        kind=k + ":warning")
    return obs


class _Breakdown(BaseException):
    """raised by sc_cg after the obligations of a cut path have been stated (converted to PathAbort by _cg_entry)"""


def _cg_entry(V, P, cfg):
    try:
        return sc_cg(V, P, cfg)
    except _Breakdown as e:
        from symx.ctx import PathAbort
        # the obligations stated before the cut must survive: common.symbolic_run drops aborted paths, so they are kept in
        # a side list and re-attached by run_item
        _PENDING.extend(P.obls)
        raise PathAbort(str(e))


_PENDING = []


def _fallback_probe(c, obls, lhs, rhs, tries=48):
    """DESIGN.md 3.7 (6): an equality the solver left `unknown` is probed at pseudo-random rational points; a point that
    satisfies assumptions + path condition and violates the equality is a genuine model (status sat, found by the probe).
    Passing the probe never counts as discharge."""
    from symx.decide import _diff_num, model_env
    if not any(o.status == "unknown" for o in obls):
        return
    import zlib
    cs = c.base_constraints()
    diffs = []
    for i in np.ndindex(*lhs.shape):
        a_, b_ = lhs[i], rhs[i]
        parts = [(a_.re, b_.re), (a_.im, b_.im)] if isinstance(a_, C) or isinstance(b_, C) else [(a_, b_)]
        for (u_, v_) in parts:
            if isinstance(u_, R) or isinstance(v_, R):
                diffs.append(_diff_num(u_, v_))
    if not diffs:
        return
    goal = z3.Or(*[d != 0 for d in diffs])
    for j in range(tries):
        s = z3.Solver()
        for name, tsym in c.symbols.items():
            if not z3.is_real(tsym):
                continue
            h = zlib.crc32(("probe|%s|%d" % (name, j)).encode())
            kk = (h % 31) + 1
            if tsym.get_id() in c.known_neg or (tsym.get_id() not in c.known_pos and (h >> 9) & 1):
                kk = -kk
            s.add(tsym == z3.RatVal(kk, 8))
        if s.check() != z3.sat:
            continue
        m = s.model()
        try:
            if all(z3.is_true(m.eval(x_, model_completion=True)) for x_ in cs) and z3.is_true(m.eval(goal, model_completion=True)):
                env = model_env(m, c)
                for o in obls:
                    if o.status == "unknown":
                        o.status, o.stage, o.model = "sat", "fallback-probe", env
                return
        except z3.Z3Exception:
            return


DEG_MATS = {"r1": [[2.0, 0.5], [0.5, 3.0]], "r2": [[1.0, -2.0], [-2.0, 5.0]], "c1": [[2.0, 0.5 + 0.25j], [0.5 - 0.25j, 3.0]]}


def _tri(n, d=2.2):
    return [[d if i == j else (-1.0 if abs(i - j) == 1 else 0.0) for j in range(n)] for i in range(n)]


DEG_MATS["tri12"] = _tri(12)


def sc_cg_degenerate(V, P, cfg):
    """Regression items for the repaired CG-NaN defect (right-hand sides with a zero column / a column the initial guess
    already solves) and for blocks of two right-hand sides (independent, linearly dependent).  Concrete dyadic numbers only (the defect lives exactly where the symbolic run excludes paths: 0/0);
    the clause is evaluated on the real library: no NaN, every column solved, no max-iteration warning."""
    from pymoto.solvers import CG
    import scipy.sparse as sps
    A = np.array(DEG_MATS[cfg["mat"]])
    case = cfg["case"]
    x0 = None
    b1 = np.array([1.0, 1.0], dtype=A.dtype)
    if case == "zero-rhs":
        b = np.zeros(2, dtype=A.dtype)
    elif case == "zero-column":
        b = np.stack([b1, 0 * b1], axis=1)
    elif case == "zero-first-column":
        b = np.stack([0 * b1, b1], axis=1)
    elif case == "two-columns":
        b = np.stack([b1, np.array([2.0, -1.0], dtype=A.dtype)], axis=1)
    elif case == "dependent-columns":
        b = np.stack([b1, 2 * b1], axis=1)
    elif case == "complex-dependent-columns":
        b = np.stack([b1.astype(complex), 1j * b1.astype(complex), (0.5 - 2j) * b1.astype(complex)], axis=1)
    elif case in ("x0-is-the-rhs-array", "x0-is-the-rhs-block"):
        b = b1 * np.array([1.0, -0.5]) if case.endswith("array") else np.stack([b1, np.array([2.0, -1.0], dtype=A.dtype)], axis=1)
    elif case == "columns-of-different-norm":
        # a block whose columns differ in norm by 1e6 and in convergence speed: the large column is (a float approximation of) an
        # eigenvector, solved by the first block iteration; the small one needs several.  The stopping test is per column,
        # relative to THAT column's norm (clause: every column is solved to the tolerance relative to its own norm)
        n_ = A.shape[0]
        big = 1e3 * np.sin(np.pi * np.arange(1, n_ + 1) / (n_ + 1))
        small = 1e-3 * np.array([(-1.0) ** i * (1.0 + ((7 * i) % 5) / 4.0) for i in range(n_)])
        b = np.stack([big, small], axis=1).astype(A.dtype)
    else:   # solved-column: x0[:, 1] solves the second column exactly
        xs = np.array([0.75, 0.875], dtype=A.dtype)
        b = np.stack([b1, A @ xs], axis=1)
        x0 = np.stack([0 * b1, xs], axis=1)
    if V.symbolic:
        from symx import npshim
        npshim.uninstall()          # plain floats on the real NumPy / SciPy: the library stand-ins are not wanted here
    try:
        s = CG(sps.csc_matrix(A), tol=(1e-6 if case == "columns-of-different-norm" else 1e-10))
        with warnings.catch_warnings(record=True) as wl:
            warnings.simplefilter("always")
            if case.startswith("x0-is-the-rhs"):
                barg = b.copy()
                x = s.solve(barg, x0=barg, trans=cfg.get("trans", "N"))     # the caller's ONE array as rhs and as guess
            else:
                x = s.solve(b.copy(), x0=(None if x0 is None else x0.copy()), trans=cfg.get("trans", "N"))
    finally:
        if V.symbolic:
            npshim.install()
    warned = any("Maximum iterations" in str(w_.message) for w_ in wl)
    M = _op(A, cfg.get("trans", "N"))
    res = b - M @ x
    scale = max(1.0, float(np.max(np.abs(b))))
    finite = bool(np.all(np.isfinite(x)))
    ok = finite and bool(np.max(np.abs(res)) <= 1e-8 * scale)
    if case == "columns-of-different-norm":
        ok = finite and all(float(np.linalg.norm(res[:, j])) <= 1e-5 * float(np.linalg.norm(b[:, j])) for j in range(b.shape[1]))
    if P is not None:
        P.holds("cgdeg:finite", finite, kind="cg-degenerate:%s" % case)
        P.holds("cgdeg:solves-every-column", ok, kind="cg-degenerate:%s" % case)
        P.holds("cgdeg:no-max-iteration-warning", not warned, kind="cg-degenerate:%s" % case)
        P.holds("cgdeg:shape", np.shape(x) == np.shape(b), kind="cg-degenerate:%s" % case)
    return dict(x=np.nan_to_num(np.asarray(x, dtype=complex), nan=1e300), warned=int(warned), ok=int(ok))


def _any_true(conds):
    ts = []
    for e in conds:
        if isinstance(e, SB):
            ts.append(e.t)
        elif e:
            return True
    if not ts:
        return False
    return SB(z3.Or(*ts)) if len(ts) > 1 else SB(ts[0])


# ------------------------------------------------------------------------------------------------
def _orth_input(V, cfg):
    """QR pre-image of the input of orth(): u := Q[:, :k] @ T with Q a rationally parametrised orthogonal 3x3 matrix (unit
    quaternion (a,b,c,d), all of SO(3); `flip` negates the last column: O(3) \\ SO(3)) and T upper triangular with a
    non-negative diagonal - every real 3 x k matrix has this form.  Returns (u, list of the diagonal entries of T)."""
    k = cfg["k"]
    a, b, c, d = (V.real("q_%s" % nm, default=df) for nm, df in (("a", 1.0), ("b", 0.5), ("c", -0.25), ("d", 0.75)))
    N = a * a + b * b + c * c + d * d
    if V.symbolic:
        V.assume(N > 0, "orth: quaternion parameters not all zero")
    Q = [[(a * a + b * b - c * c - d * d) / N, 2 * (b * c - a * d) / N, 2 * (b * d + a * c) / N],
         [2 * (b * c + a * d) / N, (a * a - b * b + c * c - d * d) / N, 2 * (c * d - a * b) / N],
         [2 * (b * d - a * c) / N, 2 * (c * d + a * b) / N, (a * a - b * b - c * c + d * d) / N]]
    if cfg.get("flip"):
        for i in range(3):
            Q[i][2] = -Q[i][2]
    T = [[0] * k for _ in range(k)]
    diag = []
    for i in range(k):
        for j in range(i, k):
            if i == j:
                if i == 0 or not cfg.get("dependent_ok", k == 2):
                    T[i][j] = V.real("T_%d_%d" % (i, j), positive=True, default=1.5 + 0.25 * i)
                else:
                    T[i][j] = V.real("T_%d_%d" % (i, j), lo=0, default=0.75)      # 0: linearly dependent column
                diag.append(T[i][j])
            else:
                T[i][j] = V.real("T_%d_%d" % (i, j), default=0.5 - 0.25 * i)
    u = np.empty((3, k), dtype=object if V.symbolic else float)
    for r_ in range(3):
        for j in range(k):
            tot = 0
            for i in range(min(j, k - 1) + 1):
                tot = tot + Q[r_][i] * T[i][j]
            u[r_, j] = tot
    return _fin(V, u), diag


def sc_orth(V, P, cfg):
    """orth(u, normalize=True): orthonormal columns spanning the input columns (up to the zero_rtol test)."""
    from pymoto.solvers.iterative import orth
    k = cfg["k"]
    u, roots = _orth_input(V, cfg)
    rtol = V.const("1e-15")
    if V.symbolic and k >= 3:
        # k = 3: columns that are not numerically dependent (the drop branch of the zero_rtol test is covered for k = 2; after a
        # dropped column the remaining norms are no rational squares any more)
        u2 = _sqnorm_cols(np.asarray(u))
        for j in range(1, k):
            V.assume(roots[j] * roots[j] >= rtol * u2[j], "orth, k = 3: no column within zero_rtol of the span of its predecessors")
    restore = None
    if V.symbolic:
        from symx import npshim
        from symx.decide import quick_equal
        orig_sqrt = npshim.OVERRIDES["sqrt"]

        def sqrt_preimage(x, *a, **kw):
            if isinstance(x, R) and x.q is None:
                for cand in roots:
                    if isinstance(cand, R) and quick_equal(cand * cand, x):
                        V.c.stubs.add("np.sqrt (pre-image: returns the registered non-negative root after proving root^2 == argument)")
                        return cand
            return orig_sqrt(x, *a, **kw)
        npshim.OVERRIDES["sqrt"] = sqrt_preimage
        restore = orig_sqrt
    try:
        v = orth(u.copy(), normalize=True, zero_rtol=rtol)
    finally:
        if restore is not None:
            npshim.OVERRIDES["sqrt"] = restore
    obs = dict(ncols=np.shape(v)[1], v=v)
    if P is not None:
        v_ = np.asarray(v)
        G = v_.T @ v_
        I = np.array([[1 if i == j else 0 for j in range(v_.shape[1])] for i in range(v_.shape[1])], dtype=object)
        P.arrays_eq("orth:V^T V==I", G, I, kind="orth:orthonormal")
        # span: the part of every input column outside span(V) is below the relative tolerance the code applied
        u_ = np.asarray(u)
        proj = v_ @ (v_.T @ u_)
        d2, u2 = _sqnorm_cols(u_ - proj), _sqnorm_cols(u_)
        for j in range(k):
            P.holds("orth:span[%d]" % j, d2[j] <= rtol * u2[j], kind="orth:span")
        P.holds("orth:rank<=k", 1 <= v_.shape[1] <= k, kind="orth:shape")
    return obs


# ------------------------------------------------------------------------------------------------
def sc_multigrid(V, P, cfg):
    """interpolation matrix of GeometricMultigrid: rows sum to one, coarse (multi-)linear fields reproduced."""
    import pymoto as pym
    from pymoto.solvers import GeometricMultigrid
    from .catalogue import _mk_sparse
    nx, ny, nz = cfg["mesh"]
    ndof = cfg["ndof"]
    dom = pym.DomainDefinition(nx, ny, nz)
    mg = GeometricMultigrid(dom)
    nf, nc = ndof * dom.nnodes, ndof * mg.sub_domain.nnodes
    if V.symbolic:
        from symx.spshim import SymSparse
        A = SymSparse((nf, nf))
    else:
        import scipy.sparse as sps
        A = sps.csc_matrix((nf, nf))
    mg.setup_interpolation(A)
    Rm = mg.R
    Rd = np.asarray(Rm._dense) if hasattr(Rm, "_dense") else np.asarray(Rm.toarray())
    dim = dom.dim
    # multilinear field with symbolic coefficients per dof: f_d(p) = sum_S c[d,S] prod_{a in S} p_a
    subsets = [s for r in range(dim + 1) for s in itertools.combinations(range(dim), r)]
    coef = V.reals("c", (ndof, len(subsets)))

    def field(pos, d):
        tot = 0
        for si, S in enumerate(subsets):
            term = coef[d, si]
            for a in S:
                term = term * pos[a]
            tot = tot + term
        return tot
    pf, pc = dom.get_node_position(), mg.sub_domain.get_node_position()
    uf = np.empty(nf, dtype=object if V.symbolic else float)
    uc = np.empty(nc, dtype=object if V.symbolic else float)
    for nd in range(dom.nnodes):
        for d in range(ndof):
            uf[nd * ndof + d] = field([pf[a, nd] for a in range(dim)], d)
    for nd in range(mg.sub_domain.nnodes):
        for d in range(ndof):
            uc[nd * ndof + d] = field([pc[a, nd] for a in range(dim)], d)
    got = Rd @ uc
    obs = dict(R=Rd, interp=_fin(V, got))
    if P is not None:
        P.holds("mg:shape", Rd.shape == (nf, nc), kind="mg:shape")
        for i in range(nf):
            tot = 0
            for j in range(nc):
                tot = tot + Rd[i, j]
            P.eq("mg:rowsum[%d]" % i, tot, 1, kind="mg:rowsum")
        P.arrays_eq("mg:field", got, uf, kind="mg:interpolates-multilinear-field")
        # independent closed form for arbitrary coarse nodal values: tensor product of 1-D linear interpolation
        ucv = np.asarray(V.reals("uc", (nc,)))
        ref = np.empty(nf, dtype=object)
        sub = mg.sub_domain
        for kf in range(dom.nelz + 1):
            for jf in range(dom.nely + 1):
                for i_f in range(dom.nelx + 1):
                    nd = (kf * (dom.nely + 1) + jf) * (dom.nelx + 1) + i_f
                    for d in range(ndof):
                        tot = 0
                        for (ic, wi) in _lin1d(i_f):
                            for (jc, wj) in _lin1d(jf):
                                for (kc, wk) in _lin1d(kf):
                                    ncn = (kc * (sub.nely + 1) + jc) * (sub.nelx + 1) + ic
                                    tot = tot + wi * wj * wk * ucv[ncn * ndof + d]
                        ref[nd * ndof + d] = tot
        P.arrays_eq("mg:nodal", Rd @ ucv, ref, kind="mg:tensor-product-interpolation")
    return obs


def _lin1d(i):
    """coarse indices and weights of fine index i on a twice-refined 1-D grid"""
    from fractions import Fraction
    if i % 2 == 0:
        return [(i // 2, 1)]
    return [((i - 1) // 2, Fraction(1, 2)), ((i + 1) // 2, Fraction(1, 2))]


# ------------------------------------------------------------------------------------------------
SCEN = dict(diagonal=sc_diagonal, lu=sc_lu, ldl=sc_ldl, cholesky=sc_cholesky, qr=sc_qr, sparselu=sc_sparse_lu,
            precond=sc_precond, auto=sc_auto, cg=_cg_entry, cgdeg=sc_cg_degenerate, orth=sc_orth, multigrid=sc_multigrid)


def _perms(n, tier, what):
    allp = [list(p) for p in itertools.permutations(range(n))]
    if n <= 2:
        return allp
    if what == "lu":
        if n == 3:
            return allp
        return [[0, 1, 2, 3], [1, 0, 3, 2], [3, 2, 1, 0], [2, 0, 3, 1], [1, 2, 3, 0]]
    # ldl
    if n == 3:
        return allp if tier == "thorough" else [[0, 1, 2], [2, 0, 1], [1, 0, 2]]
    return [[0, 1, 2, 3], [3, 1, 0, 2], [1, 2, 3, 0]]


def items(tier):
    q = tier == "quick"
    b = BOUNDS[tier]
    out = []

    def add(kind, ident, **kw):
        out.append(dict(kind=kind, id="%s-%s" % (kind, ident), **kw))

    def ptag(p):
        return "".join(map(str, p))
    for n in b["diagonal_n"]:
        for tag, ac, xc in DATA:
            add("diagonal", "n%d-%s" % (n, tag), n=n, ac=ac, xc=xc)
    add("diagonal", "n2-c-sparse", n=2, ac=True, xc=True, sparse=True)
    for n in b["lu_n"]:
        for perm in _perms(n, tier, "lu"):
            for tag, ac, xc in DATA:
                if tag == "rc" and n > 2:
                    continue
                if n == 4 and tag == "c" and perm != [2, 0, 3, 1]:
                    continue
                add("lu", "n%d-p%s-%s" % (n, ptag(perm), tag), n=n, perm=perm, ac=ac, xc=xc)
    for n in b["cholesky_n"]:
        for tag, ac, xc in DATA:
            if tag == "rc" and n > 2:
                continue
            add("cholesky", "success-n%d-%s" % (n, tag), n=n, ac=ac, xc=xc, branch="success")
            if n <= 3:
                for perm in ([[0, 1], [1, 0]] if n == 2 else [[0, 1, 2], [2, 0, 1]]):
                    add("cholesky", "fallback-n%d-p%s-%s" % (n, ptag(perm), tag), n=n, ac=ac, xc=xc, branch="fallback",
                        perm=perm, fherm=True)
    add("cholesky", "fallback-n2-block-c", n=2, ac=True, xc=True, branch="fallback", perm=[0, 1], fherm=True, blocks=[2])
    # every direct solver re-used for a second matrix (stale factors / flags of the first one must not survive)
    for tag, ac, xc in DATA:
        if tag == "rc":
            continue
        add("diagonal", "reupdate-n2-%s" % tag, n=2, ac=ac, xc=xc, prior=True)
        add("lu", "reupdate-n2-p10-%s" % tag, n=2, perm=[1, 0], ac=ac, xc=xc, prior=True)
        add("sparselu", "reupdate-n2-%s" % tag, n=2, ac=ac, xc=xc, prior=True)
        add("sparselu", "reupdate-same-object-n2-%s" % tag, n=2, ac=ac, xc=xc, prior="inplace")
    # update history on one solver object: success then failure, failure then success
    for tag, ac, xc in DATA:
        if tag == "rc":
            continue
        add("cholesky", "fallback-after-success-n2-%s" % tag, n=2, ac=ac, xc=xc, branch="fallback", perm=[0, 1], fherm=True, prior="spd")
        add("cholesky", "success-after-fallback-n2-%s" % tag, n=2, ac=ac, xc=xc, branch="success", prior="indef")
    # LDL: variant = (flag given to the solver, pre-image family)
    for n in b["ldl_n"]:
        for perm in _perms(n, tier, "ldl"):
            for tag, ac, xc in DATA:
                if tag == "rc" and n > 2:
                    continue
                if n == 4 and tag == "c" and perm != [3, 1, 0, 2]:
                    continue
                add("ldl", "herm-n%d-p%s-%s" % (n, ptag(perm), tag), n=n, perm=perm, ac=ac, xc=xc, hermitian=True, fherm=True,
                    variant="herm")
                if ac:
                    add("ldl", "csym-n%d-p%s-%s" % (n, ptag(perm), tag), n=n, perm=perm, ac=ac, xc=xc, hermitian=False,
                        fherm=False, variant="csym")
                else:
                    add("ldl", "rsym-n%d-p%s-%s" % (n, ptag(perm), tag), n=n, perm=perm, ac=ac, xc=xc, hermitian=False,
                        fherm=False, variant="rsym")
    # auto-detection of the flag (hermitian=None)
    for tag, ac, xc in DATA[:2]:
        add("ldl", "auto-herm-n2-%s" % tag, n=2, perm=[1, 0], ac=ac, xc=xc, hermitian=None, fherm=True, variant="auto-herm")
        if tag != "rc":
            # auto-detected flag after the object saw a (real diagonal: symmetric AND Hermitian) matrix first
            add("ldl", "auto-herm-reupdate-n2-%s" % tag, n=2, perm=[1, 0], ac=ac, xc=xc, hermitian=None, fherm=True,
                variant="auto-herm", prior=True)
            add("ldl", "herm-reupdate-n2-%s" % tag, n=2, perm=[1, 0], ac=ac, xc=xc, hermitian=True, fherm=True,
                variant="herm", prior=True)
        if ac:
            add("ldl", "auto-csym-n2-%s" % tag, n=2, perm=[1, 0], ac=ac, xc=xc, hermitian=None, fherm=False, variant="auto-csym")
            add("ldl", "auto-csym-ctor-n2-%s" % tag, n=2, perm=[1, 0], ac=ac, xc=xc, hermitian=None, fherm=False, variant="auto-csym",
                ctor=True)
        if tag != "rc":
            add("ldl", "auto-herm-ctor-n2-%s" % tag, n=2, perm=[1, 0], ac=ac, xc=xc, hermitian=None, fherm=True, variant="auto-herm",
                ctor=True)
            add("ldl", "herm-ctor-n2-%s" % tag, n=2, perm=[0, 1], ac=ac, xc=xc, hermitian=True, fherm=True, variant="herm", ctor=True)
    if not q:
        add("ldl", "auto-herm-n3-c", n=3, perm=[2, 0, 1], ac=True, xc=True, hermitian=None, fherm=True, variant="auto-herm")
        add("ldl", "auto-csym-n3-c", n=3, perm=[2, 0, 1], ac=True, xc=True, hermitian=None, fherm=False, variant="auto-csym")
    # 2x2 blocks in D
    blk = [(2, [2], [0, 1]), (2, [2], [1, 0]), (3, [1, 2], [0, 1, 2])]
    if not q:
        blk += [(3, [2, 1], [2, 0, 1]), (3, [1, 2], [1, 2, 0]), (4, [2, 2], [0, 1, 2, 3])]
    for n, blocks, perm in blk:
        for tag, ac, xc in DATA[:2]:
            if n == 4 and ac:
                continue
            bt = "".join(map(str, blocks))
            add("ldl", "herm-block%s-n%d-p%s-%s" % (bt, n, ptag(perm), tag), n=n, perm=perm, ac=ac, xc=xc, hermitian=True,
                fherm=True, blocks=blocks, variant="herm-block")
            add("ldl", "%s-block%s-n%d-p%s-%s" % ("csym" if ac else "rsym", bt, n, ptag(perm), tag), n=n, perm=perm, ac=ac, xc=xc,
                hermitian=False, fherm=False, blocks=blocks, variant=("csym-block" if ac else "rsym-block"))
    # the code decides "D diagonal?" itself: free off-diagonal entry (both branches of matrix_is_diagonal)
    add("ldl", "herm-block2-fork-n2-c", n=2, perm=[0, 1], ac=True, xc=True, hermitian=True, fherm=True, blocks=[2],
        offdiag_nz=False, variant="herm-block")
    # the same without a pre-image candidate for inv(D): fresh symbols constrained by D B = B D = I only
    add("ldl", "herm-block2-contract-n2-r", n=2, perm=[1, 0], ac=False, xc=False, hermitian=True, fherm=True, blocks=[2],
        inv_candidate=False, variant="herm-block")
    add("ldl", "herm-block2-contract-n2-c", n=2, perm=[0, 1], ac=True, xc=True, hermitian=True, fherm=True, blocks=[2],
        inv_candidate=False, variant="herm-block")
    for tag, ac, xc in DATA:
        if ac:
            for t in TRANS:      # one item per trans mode: the complex identities modulo |al|^2+|be|^2 = 1, |u| = 1 need the solver
                add("qr", "n2-%s-%s" % (tag, t), n=2, ac=ac, xc=xc, transes=[t])
        else:
            add("qr", "n2-%s" % tag, n=2, ac=ac, xc=xc)
    for n in b["sparse_lu_n"]:
        for tag, ac, xc in DATA[:2]:
            add("sparselu", "n%d-%s" % (n, tag), n=n, ac=ac, xc=xc)
    for n in b["precond_n"]:
        for which in ("jacobi", "sor"):
            for tag, ac, xc in DATA:
                if tag == "rc" and n > 2:
                    continue
                if which == "sor" and tag == "rc":
                    continue       # real sparse matrix + complex rhs: scipy's SuperLU raises TypeError (documented limitation)
                if which == "sor" and n == 4 and ac:
                    continue       # complex n = 4: the cross-multiplied identities are not normalised within 15 min
                add("precond", "%s-n%d-%s" % (which, n, tag), n=n, ac=ac, xc=xc, which=which)
    for n in b["auto_n"]:
        for cls in ("diagonal", "diagonal-c", "sym-posdiag", "sym-indef", "complex-symmetric", "hermitian", "hermitian-posdiag",
                    "general", "general-c", "lower-triangular", "upper-triangular", "upper-triangular-c", "free", "free-c"):
            for sparse in (False, True):
                for ov in b["auto_overrides"]:
                    base = cls[:-2] if cls.endswith("-c") else cls
                    tr = _truth(base, cls.endswith("-c") or cls in ("complex-symmetric", "hermitian", "hermitian-posdiag"))
                    if ov != "none" and not tr:
                        continue
                    if ov == "herm" and tr.get("ishermitian") is None:
                        continue
                    if ov == "sym" and tr.get("issymmetric") is None:
                        continue
                    if n == 3 and (ov in ("herm", "sym") or (sparse and ov != "none")):
                        continue
                    add("auto", "n%d-%s-%s-%s" % (n, cls, "sp" if sparse else "de", ov), n=n, cls=cls, sparse=sparse, ov=ov)
    # CG.  maxit = 1: the explicit-restart branch (i % restart == 0 at i = 0 for every restart value); maxit = 2 with
    # restart = 1: explicit restart twice; maxit = 2 with restart = 50: the recursive residual update r -= q @ alpha.
    def cg(t, prec, x0, restart, maxit, tag, ac, xc, shape="v", **kw):
        add("cg", "%s-%s-%s-r%d-m%d-%s%s" % (t, prec, "x0" if x0 else "nox0", restart, maxit, tag, "" if shape == "v" else "-" + shape),
            ac=ac, xc=xc, trans=t, prec=prec, x0=x0, restart=restart, maxit=maxit, shape=shape, **kw)
    for t in TRANS:
        for prec in ("identity", "jacobi"):
            for x0 in (False, True):
                for tag, ac, xc in DATA[:2]:
                    cg(t, prec, x0, 1, 1, tag, ac, xc)
        for prec in ("identity", "jacobi"):
            cg(t, prec, True, 1, 2, "r", False, False)
        # a solver object that was set up for another matrix and used in the same mode before update(A)
        cg(t, "identity", True, 1, 1, "r-x0-is-the-rhs-array", False, False, rat=False, x0_is_rhs=True)
        cg(t, "identity", False, 1, 1, "r-reupdate", False, False, prior_matrix=True)
        cg(t, "identity", True, 1, 1, "c-reupdate", True, True, prior_matrix=True)
        cg(t, "free", True, 50, 2, "r", False, False)
        if not q:
            cg(t, "identity", False, 50, 2, "r", False, False)
            cg(t, "identity", False, 1, 2, "c", True, True)
    for case in ("zero-rhs", "zero-column", "zero-first-column", "solved-column", "two-columns", "dependent-columns",
                 "x0-is-the-rhs-array", "x0-is-the-rhs-block", "complex-dependent-columns"):
        for mat in ("r1", "r2", "c1"):
            for t in (("N",) if mat != "c1" else TRANS):
                add("cgdeg", "%s-%s-%s" % (case, mat, t), case=case, mat=mat, trans=t)
    for t in TRANS:
        add("cgdeg", "columns-of-different-norm-tri12-%s" % t, case="columns-of-different-norm", mat="tri12", trans=t)
    cg("N", "identity", True, 1, 1, "r", False, False, shape="c1")
    cg("H", "jacobi", False, 1, 1, "c", True, True, shape="c1", sparse=False)
    if not q:
        cg("N", "jacobi", False, 50, 2, "r", False, False)
        add("orth", "k2-r", k=2)
        add("orth", "k2-r-flip", k=2, flip=True)
    for mesh in b["multigrid"]:
        dims = [int(s) for s in mesh.split("x")] + [0]
        for ndof in b["multigrid_ndof"]:
            add("multigrid", "%s-ndof%d" % (mesh, ndof), mesh=dims[:3], ndof=ndof)
    # expensive items first (better packing on the worker pool)
    cost = dict(cg=0, qr=1)
    out.sort(key=lambda it: (cost.get(it["kind"], 5), -(it.get("maxit", 0) * 2 + bool(it.get("x0")) + bool(it.get("ac")))))
    return out


MAX_PATHS = dict(auto=400, cg=60, orth=60, ldl=40)


def run_item(cfg, tier):
    kw = {}
    try:
        import resource
        lim = 8 * 1024 ** 3            # safety net: z3's nlsat can overshoot its time-out while allocating memory
        resource.setrlimit(resource.RLIMIT_AS, (lim, lim))
    except Exception:
        pass
    if cfg["kind"] == "cg":
        # feasibility of the deeper CG paths is a non-linear question (SQRT of |z|^2, reciprocal of p^H A p); an undecided
        # side is kept (sound: obligations are still checked under the path condition), so a short time-out only saves time
        kw["feas_timeout_ms"] = 1500 if tier == "quick" else 5000
        # the CG obligations are closed by the simplifier or follow from the path condition; the end-of-path satisfiability
        # check (vacuity guard) shares this time-out and is the expensive query
        kw["obl_timeout_ms"] = 4000 if tier == "quick" else 20000
        if cfg["ac"]:
            kw["feas_timeout_ms"] = 3000        # SQRT-function encoding
    if cfg["kind"] == "qr":
        kw["obl_timeout_ms"] = 30000 if tier == "quick" else 120000    # identities modulo the two unit-norm relations
    del _PENDING[:]
    out = symbolic_run(SCEN[cfg["kind"]], cfg, tier, max_paths=MAX_PATHS.get(cfg["kind"], 20), **kw)
    # obligations stated on CG paths that were cut afterwards (breakdown): decided under that path's condition
    import hashlib
    for i, o in enumerate(_PENDING):
        d = o.as_dict()
        d["path"] = -1
        d["key"] = hashlib.md5(("%s|cut%d|%s" % (cfg.get("id"), i, o.label)).encode()).hexdigest()[:12]
        out["obligations"].append(d)
    del _PENDING[:]
    return out


# ------------------------------------------------------------------------------------------------
def _relres(M, x, b):
    x, b = np.asarray(x, dtype=complex), np.asarray(b, dtype=complex)
    if x.shape != b.shape:
        return float("inf")
    r = M @ x - b
    return float(np.max(np.abs(r))) / max(1e-300, float(np.max(np.abs(b))))


def replay(cfg, label, env, case):
    """Floats: the same scenario on the real NumPy/SciPy and the real solver classes; the violated clause is evaluated numerically."""
    warnings.simplefilter("ignore")
    kind = cfg["kind"]
    V = Vals(env=env)
    tol = 1e-8
    if kind == "cgdeg":
        # concrete regression items: the clause is evaluated on the real library
        try:
            obs = SCEN[kind](V, None, cfg)
        except Exception as e:
            from .common import _raised_in_repo
            # the real solver raises for a right-hand side it documents as admissible: a violation whatever the label was
            return dict(reproduced=(True if _raised_in_repo(e) else None),
                        detail=dict(case=cfg["case"], raised="%s: %s" % (type(e).__name__, str(e)[:200])))
        bad = (not obs["ok"]) or bool(obs["warned"])
        return dict(reproduced=bool(bad), detail=dict(case=cfg["case"], matrix=DEG_MATS[cfg["mat"]], trans=cfg.get("trans", "N"),
                                                      x=[str(v) for v in np.asarray(obs["x"]).ravel()], solves=bool(obs["ok"]),
                                                      max_iteration_warning=bool(obs["warned"])))
    if label.startswith("exception:"):
        try:
            SCEN[kind](V, None, cfg)
        except Exception as e:
            return dict(reproduced=type(e).__name__ == label.split(":", 1)[1], detail="%s: %s" % (type(e).__name__, str(e)[:300]))
        return dict(reproduced=False, detail="no exception on the real library")
    try:
        obs = SCEN[kind](V, None, cfg)
    except Exception as e:
        # the real library / the real solver class raises on an input of the documented class: the clause (a solution is
        # returned) is violated whatever the label was
        return dict(reproduced=True, detail="the real code raised %s: %s" % (type(e).__name__, str(e)[:300]))
    if kind in ("diagonal", "lu", "ldl", "cholesky", "qr", "sparselu", "precond"):
        parts = label.split("[")[0].split(":")
        if len(parts) < 3 or parts[1] not in TRANS:
            if "matrix-unchanged-by-update" in label:
                Al = obs.get("_Alive")
                ch = float(np.max(np.abs(np.asarray(Al, dtype=complex) - np.asarray(obs["A"], dtype=complex)))) if Al is not None else 0.0
                return dict(reproduced=bool(ch > 0), detail=dict(max_abs_change_of_the_callers_matrix=ch, layout="column-major"))
            if label.startswith("cholesky:branch"):
                flag = obs.get("success_flag")
                return dict(reproduced=bool(flag != int(cfg["branch"] == "success")),
                            detail=dict(success_flag_on_real_library=flag, expected=cfg["branch"]))
            if label.startswith("ldl:auto-flag"):
                Am = np.asarray(obs["A"], dtype=complex)
                herm = bool(np.allclose(Am, Am.conj().T, rtol=1e-9, atol=1e-12))
                symm = bool(np.allclose(Am, Am.T, rtol=1e-9, atol=1e-12))
                bad = (obs["flag"] == 1 and not herm) or (obs["flag"] == 0 and not symm)
                return dict(reproduced=bool(bad), detail=dict(hermitian_flag=obs["flag"], is_hermitian=herm, is_symmetric=symm,
                                                              A=Am.tolist()))
            return dict(reproduced=None, detail="no replay for label %s" % label)
        t, sk = parts[1], parts[2]
        M = np.asarray(obs["M"] if kind == "precond" else obs["A"], dtype=complex)
        x, b = obs["x:%s:%s" % (t, sk)], obs["b:%s:%s" % (t, sk)]
        if label.split("[")[0].endswith(":rhs-unchanged"):
            bi = obs.get("_bin:%s:%s" % (t, sk))
            ch = float(np.max(np.abs(np.asarray(bi, dtype=complex) - np.asarray(b, dtype=complex)))) if bi is not None else 0.0
            return dict(reproduced=bool(ch > 0), detail=dict(trans=t, shape=sk, max_abs_change_of_the_callers_rhs=ch))
        if label.endswith(":shape"):
            bad = np.shape(x) != np.shape(b)
            return dict(reproduced=bool(bad), detail=dict(shape_x=list(np.shape(x)), shape_b=list(np.shape(b))))
        if "one-inner-solve" in label or label.endswith(":candidate"):
            r = _relres(_op(M, t), x, b)
            return dict(reproduced=bool(r > tol), detail=dict(note="plumbing clause replayed as a residual", residual=r))
        r = _relres(_op(M, t), x, b)
        return dict(reproduced=bool(r > tol), detail=dict(trans=t, shape=sk, residual=r, matrix=np.asarray(M).tolist(),
                                                          b=np.asarray(b, dtype=complex).tolist(),
                                                          x=np.asarray(x, dtype=complex).tolist()))
    if kind == "auto":
        A, cplx, base = _class_matrix(V, cfg["cls"], cfg["n"])
        A = np.asarray(A, dtype=complex)
        code, herm = obs["code"], obs["herm"]
        name = {v: k for k, v in SOLVER_CODE.items()}.get(code, "?")
        is_h = bool(np.allclose(A, A.conj().T, rtol=1e-9, atol=1e-12))
        is_s = bool(np.allclose(A, A.T, rtol=1e-9, atol=1e-12))
        is_d = bool(np.allclose(A, np.diag(np.diag(A)), rtol=1e-9, atol=1e-12))
        bad = False
        if "diagonal-solver-needs" in label:
            bad = name == "SolverDiagonal" and not is_d
        elif "cholesky-needs" in label:
            bad = "Cholesky" in name and not is_h
        elif "ldl-hermitian-flag" in label:
            bad = name == "SolverDenseLDL" and herm == 1 and not is_h
        elif "ldl-symmetric-flag" in label:
            bad = name == "SolverDenseLDL" and herm == 0 and not is_s
        elif "ldl-flag-set" in label:
            bad = name == "SolverDenseLDL" and herm == -1
        elif "sparse-solver-for" in label:
            bad = name not in ("SolverSparseLU", "SolverDiagonal")
        elif "dense-solver-for" in label:
            bad = name not in ("SolverDiagonal", "SolverDenseLU", "SolverDenseCholesky", "SolverDenseLDL", "SolverDenseQR")
        elif "diagonal-matrix-gets" in label:
            bad = name != "SolverDiagonal"
        elif "known-class" in label:
            bad = name == "?"
        return dict(reproduced=bool(bad), detail=dict(solver=name, hermitian_flag=herm, A=A.tolist(), is_hermitian=is_h,
                                                      is_symmetric=is_s, is_diagonal=is_d))
    if kind == "cg":
        A, b, x = np.asarray(obs["A"], dtype=complex), np.asarray(obs["b"], dtype=complex), np.asarray(obs["x"], dtype=complex)
        if label == "cg:shape":
            return dict(reproduced=bool(x.shape != b.shape), detail=dict(shape_x=list(x.shape), shape_b=list(b.shape)))
        for pre, key in (("cg:rhs-unchanged", "_chg:rhs"),):
            if label.startswith(pre):
                return dict(reproduced=bool(obs.get(key, 0.0) > 0), detail={"clause": pre, "observed_on_the_real_library": obs.get(key, 0.0)})
        ncol = 1 if b.ndim == 1 else b.shape[1]
        M = _op(A, cfg["trans"])
        bm = b.reshape(2, ncol)
        scale = max(1.0, float(np.max(np.abs(bm))))
        if label.startswith("cg:invariant["):
            i_ = int(label.split("[")[1].split("]")[0])
            if "snap_r%d" % i_ not in obs:
                return dict(reproduced=False, detail="the real code made only %d tolerance tests" % obs["nsnap"])
            r_ = np.asarray(obs["snap_r%d" % i_], dtype=complex).reshape(2, ncol)
            x_ = np.asarray(obs["snap_x%d" % i_], dtype=complex).reshape(2, ncol)
            err = float(np.max(np.abs(r_ - (bm - M @ x_)))) / scale
            return dict(reproduced=bool(err > tol), detail=dict(test=i_, tested_residual=r_.tolist(), true_residual=(bm - M @ x_).tolist(),
                                                               x=x_.tolist(), A=A.tolist(), b=b.tolist(), error=err))
        if label.startswith("cg:returned-x"):
            i_ = min(obs["nsnap"], 3) - 1
            x_ = np.asarray(obs["snap_x%d" % i_], dtype=complex).reshape(2, ncol) if i_ >= 0 else None
            bad = x_ is None or (obs["nsnap"] <= 3 and float(np.max(np.abs(x_ - x.reshape(2, ncol)))) > tol * scale)
            return dict(reproduced=bool(bad), detail=dict(returned=x.tolist(), tested=None if x_ is None else x_.tolist()))
        res = bm - M @ x.reshape(2, ncol)
        rel = np.linalg.norm(res, axis=0) / np.linalg.norm(bm, axis=0)
        tl = float(env.get("tol", 0.25))
        warned = bool(obs["warned"])
        bad = (not warned and rel.max() > tl * (1 + 1e-6)) or (warned and rel.max() < tl * (1 - 1e-6))
        return dict(reproduced=bool(bad), detail=dict(warned=warned, relative_residual=rel.tolist(), tol=tl, A=A.tolist(),
                                                      b=b.tolist(), x=x.tolist()))
    if kind == "orth":
        u, _roots = _orth_input(V, cfg)
        u = np.asarray(u, dtype=float)
        v = np.asarray(obs["v"], dtype=float)
        G = v.T @ v
        e1 = float(np.max(np.abs(G - np.eye(v.shape[1]))))
        d = u - v @ (v.T @ u)
        e2 = float(np.max(np.linalg.norm(d, axis=0) / np.linalg.norm(u, axis=0)))
        bad = e1 > 1e-8 if "V^T V" in label else (e2 > 1e-6 if "span" in label else False)
        return dict(reproduced=bool(bad), detail=dict(orthonormality_error=e1, span_error=e2, u=u.tolist(), v=v.tolist()))
    if kind == "multigrid":
        Rd = np.asarray(obs["R"], dtype=float)
        if "rowsum" in label:
            rs = Rd.sum(axis=1)
            return dict(reproduced=bool(np.max(np.abs(rs - 1)) > 1e-12), detail=dict(rowsums=rs.tolist()))
        import pymoto as pym
        nx, ny, nz = cfg["mesh"]
        dom = pym.DomainDefinition(nx, ny, nz)
        sub = pym.DomainDefinition(nx // 2, ny // 2, nz // 2, 2.0, 2.0, 2.0)
        ndof = cfg["ndof"]
        # the field x + 2y (+ 3z) on dof 0 must be reproduced
        pf, pc = dom.get_node_position(), sub.get_node_position()
        wv = np.array([1.0, 2.0, 3.0])[:dom.dim]
        uf = np.zeros(ndof * dom.nnodes)
        uc = np.zeros(ndof * sub.nnodes)
        uf[0::ndof] = wv @ pf
        uc[0::ndof] = wv @ pc
        err = float(np.max(np.abs(Rd @ uc - uf))) if Rd.shape == (uf.size, uc.size) else float("inf")
        return dict(reproduced=bool(err > 1e-12), detail=dict(max_error_linear_field=err, shape=list(Rd.shape)))
    return dict(reproduced=None, detail="no replay for kind %s" % kind)
