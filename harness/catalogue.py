"""Module catalogue shared by C01 / C04 / C03 / C19: for every public module a builder that creates the
input signals (symbolic or concrete through `V`), constructs the module with the real constructor
and describes how to seed its outputs.  Builders are pure functions of (V, cfg)."""
from fractions import Fraction
import itertools
import numpy as np

from symx import R, C, SB
from symx.array import SymArray, wrap, is_complex_content


class Setup:
    def __init__(self, module, inputs, base=None, seed_kinds=None, notes=None, post=None, tangent=None):
        self.tangent = tangent          # callable(y_entries) -> (callable(symbol term) -> [dy_j/ds arrays])
        self.module = module
        self.inputs = inputs            # list of Signals (module.sig_in order)
        self.base = base                # list of real base symbols (R) – None: all entries of the inputs
        self.seed_kinds = seed_kinds or {}   # output index -> "dense" | "dyad" | "sparse"
        self.notes = notes or []
        self.post = post                # optional callable after response (e.g. extra assumptions)


def dense_entries(x):
    """Entries of a signal value as a flat list (dense view for sparse / dyad values)."""
    if x is None:
        return None
    if hasattr(x, "_dense"):
        return np.asarray(x._dense)
    if hasattr(x, "todense") and not isinstance(x, np.ndarray):
        return np.asarray(x.todense())
    if hasattr(x, "toarray") and not isinstance(x, np.ndarray):
        return np.asarray(x.toarray())
    return np.asarray(x)


def domain(V, cfg, symbolic_size=True):
    import pymoto as pym
    nx, ny, nz = cfg["mesh"]
    if symbolic_size and cfg.get("symsize", True):
        ux, uy, uz = V.real("ux", positive=True, default=1.0), V.real("uy", positive=True, default=1.5), \
            V.real("uz", positive=True, default=0.75)
    else:
        ux, uy, uz = V.const(1), V.const(1), V.const(1)
    return pym.DomainDefinition(nx, ny, nz, unitx=ux, unity=uy, unitz=uz)


# ------------------------------------------------------------------------------------------------
# generic / algebraic modules
EINSUM = {
    "vecsum": ("i->", [(3,)]), "elemul": ("i,i->i", [(3,), (3,)]), "dot": ("i,i->", [(3,), (3,)]),
    "outer": ("i,j->ij", [(2,), (3,)]), "trace": ("ii->", [(3, 3)]), "matvec": ("ij,j->i", [(2, 3), (3,)]),
    "quad": ("i,ij,j->", [(2,), (2, 2), (2,)]), "hadamard": ("ij,ij->ij", [(2, 2), (2, 2)]),
    "transmul": ("ji,ij->ij", [(2, 2), (2, 2)]), "proj": ("ji,jk,kl->il", [(2, 2), (2, 2), (2, 2)]),
    "matsum": ("ij->", [(2, 3)]), "batched": ("bij,bj->bi", [(2, 2, 2), (2, 2)]),
    "matmat": ("ij,jk->ik", [(2, 3), (3, 2)]), "selfmat": ("ij,jk->ik", [(2, 2), (2, 2)]),
    # tiny shapes for C19 (finite_difference forks ~3 ways per reported value)
    "dot2": ("i,i->", [(2,), (2,)]), "dot1": ("i,i->", [(1,), (1,)]), "outer11": ("i,j->ij", [(1,), (2,)]),
}


def b_einsum(V, cfg):
    import pymoto as pym
    expr, shapes = EINSUM[cfg["expr"]]
    cplx = cfg.get("cplx", [False] * len(shapes))
    sigs = []
    for i, shp in enumerate(shapes):
        st = V.cplxs("x%d" % i, shp) if cplx[i] else V.reals("x%d" % i, shp)
        sigs.append(pym.Signal("x%d" % i, st))
    same = cfg.get("same")       # operand positions wired to ONE Signal object, e.g. [0, 2] in "i,ij,j->"
    if same:
        wired = list(sigs)
        for pos in same[1:]:
            wired[pos] = sigs[same[0]]
        m = pym.EinSum(wired, expression=expr)
        return Setup(m, [sg for i, sg in enumerate(sigs) if i not in same[1:]],
                     notes=["EinSum with one Signal connected to the operands %s" % same])
    m = pym.EinSum(sigs, expression=expr)
    return Setup(m, sigs)


MATH = {
    "poly": ("inp0*inp1 + inp0^2", [(), ()]),
    "rational": ("inp0/(1+inp1^2)", [(2,), (2,)]),
    "trig": ("sin(inp0)*inp1 + exp(inp1)", [(2,), ()]),
    "bcast": ("inp0*inp1", [(2, 1), (3,)]),
    "sqrtlog": ("sqrt(inp0) + log(inp1)", [(2,), (2,)]),
    "repeat": ("inp0*inp0*inp1", [(2,), (2,)]),
    "trig1": ("sin(inp0)*inp1 + exp(inp1)", [(), ()]),
}


def b_mathgeneral(V, cfg):
    import pymoto as pym
    expr, shapes = MATH[cfg["expr"]]
    sigs = []
    for i, shp in enumerate(shapes):
        pos = cfg["expr"] == "sqrtlog"
        if shp == ():
            st = V.real("x%d" % i, positive=pos)
        else:
            st = V.reals("x%d" % i, shp, positive=pos)
        sigs.append(pym.Signal("", st))
    m = pym.MathGeneral(sigs, expression=expr)
    return Setup(m, sigs)


def b_concat(V, cfg):
    import pymoto as pym
    if cfg.get("mixed"):
        # a real vector first, a complex one after it: the joined vector is complex (NumPy promotion), nothing is dropped
        sigs = [pym.Signal("a", V.reals("a", 2)), pym.Signal("b", V.cplxs("b", 2))]
        return Setup(pym.ConcatSignal(sigs), sigs)
    sigs = [pym.Signal("a", V.reals("a", 2)), pym.Signal("b", V.reals("b", 3)), pym.Signal("c", V.reals("c", 1))]
    return Setup(pym.ConcatSignal(sigs), sigs)


def b_scaling(V, cfg):
    import pymoto as pym
    mode = cfg["mode"]
    s = V.real("scal", positive=True, default=2.0)
    if mode == "objective" and cfg.get("array"):
        # array-valued (mutable) state; the frozen norm of the first value is a root symbol
        x0 = V.reals("x_init", 2, nonzero=True, default=0.75)
        sig = pym.Signal("x", x0)
        m = pym.Scaling(sig, scaling=s)
        m.response()
        sig.state = V.reals("x", 2, default=1.5)
    elif mode == "objective":
        # the documented memory: the norm of the FIRST value is frozen -> evaluate once on x_init, then move on
        sig = pym.Signal("x", V.real("x_init", nonzero=True, default=0.75))
        m = pym.Scaling(sig, scaling=s)
        m.response()
        sig.state = V.real("x", default=1.5)
    elif mode == "min":
        sig = pym.Signal("x", V.real("x"))
        m = pym.Scaling(sig, scaling=s, minval=V.real("minval", nonzero=True, default=0.5))
    else:
        sig = pym.Signal("x", V.real("x"))
        m = pym.Scaling(sig, scaling=s, maxval=V.real("maxval", nonzero=True, default=0.5))
    return Setup(m, [sig])


def b_complex(V, cfg):
    import pymoto as pym
    which = cfg["which"]
    shp = cfg.get("shape", (2,))
    if which == "MakeComplex":
        sigs = [pym.Signal("x", V.reals("x", shp)), pym.Signal("y", V.reals("y", shp))]
        return Setup(pym.MakeComplex(sigs), sigs)
    z = V.cplxs("z", shp)
    sig = pym.Signal("z", z)
    cls = dict(RealPart=pym.RealPart, ImagPart=pym.ImagPart, ComplexNorm=pym.ComplexNorm)[which]
    if which == "ComplexNorm" and V.symbolic and not cfg.get("allow_zero"):
        for e in z.flat:
            V.assume((e.re * e.re + e.im * e.im) > 0)
    return Setup(cls(sig), [sig])


class FrozenScaling:
    """Scaling strategy returning a constant factor (the 'frozen scaling' of the property)."""
    def __init__(self, value):
        self.value = value

    def __call__(self, x, fx):
        return self.value


def b_aggregation(V, cfg):
    import pymoto as pym
    n = cfg.get("n", 3)
    x = V.reals("x", n, positive=True)
    sig = pym.Signal("x", x)
    kw = {}
    if cfg.get("scaling") == "frozen":
        kw["scaling"] = FrozenScaling(V.real("sfac", nonzero=True, default=1.25))
    if cfg.get("active"):
        la, ua = V.real("lower_amt", lo=0, hi=1, default=0.3), V.real("upper_amt", lo=0, hi=1, default=0.9)
        V.assume(la < ua)
        kw["active_set"] = pym.AggActiveSet(lower_amt=la, upper_amt=ua)
    agg = cfg["agg"]
    if agg == "PNorm":
        p = cfg.get("p", "sym")
        pv = V.real("p", nonzero=True, default=3.0) if p == "sym" else (R.of(p) if V.symbolic else p)
        m = pym.PNorm(sig, p=pv, **kw)
    elif agg == "KS":
        m = pym.KSFunction(sig, rho=V.real("rho", nonzero=True, default=1.5), **kw)
    else:
        m = pym.SoftMinMax(sig, alpha=V.real("alpha", nonzero=True, default=-1.5), **kw)
    return Setup(m, [sig])


# ------------------------------------------------------------------------------------------------
# FE assembly and element operators
def _bc(cfg, n):
    bc = cfg.get("bc")
    return None if bc is None else np.array(bc, dtype=int)


def b_assemble(V, cfg):
    import pymoto as pym
    dom = domain(V, cfg)
    which = cfg["which"]
    x = V.cplxs("x", dom.nel) if cfg.get("cplx_x") else V.reals("x", dom.nel)      # complex scaling (damping, PML) is admissible
    sig = pym.Signal("x", x)
    kw = {}
    if cfg.get("bc") is not None:
        kw["bc"] = np.array(cfg["bc"], dtype=int)
    if cfg.get("bcdiagval"):
        kw["bcdiagval"] = V.real("bcdiag", default=3.0)
    if cfg.get("csr"):
        import scipy.sparse as sps
        from symx import spshim
        kw["matrix_type"] = spshim.csr_matrix if V.symbolic else sps.csr_matrix
    if which == "stiffness":
        m = pym.AssembleStiffness(sig, domain=dom, e_modulus=V.real("E", positive=True, default=2.0),
                                  poisson_ratio=V.real("nu", lo="-0.9", hi="0.45", default=0.25),
                                  plane=cfg.get("plane", "strain"), **kw)
    elif which == "mass":
        m = pym.AssembleMass(sig, domain=dom, material_property=V.real("rho", positive=True, default=1.5),
                             ndof=cfg.get("ndof", 1), **kw)
    elif which == "poisson":
        m = pym.AssemblePoisson(sig, domain=dom, material_property=V.real("kappa", positive=True, default=1.5), **kw)
    else:
        nd = cfg.get("ndof", 1) * dom.elemnodes
        if cfg.get("complex_elmat"):
            em = V.cplxs("Ke", (nd, nd))
        else:
            em = V.reals("Ke", (nd, nd))
        if cfg.get("add_constant"):
            n = cfg.get("ndof", 1) * dom.nnodes
            kw["add_constant"] = _mk_sparse(V, V.reals("Kc", (n, n)))
        m = pym.AssembleGeneral(sig, domain=dom, element_matrix=em, **kw)
    return Setup(m, [sig], seed_kinds={0: cfg.get("seed", "dense")})


def _mk_sparse(V, dense):
    if V.symbolic:
        from symx.spshim import SymSparse
        return SymSparse(dense)
    import scipy.sparse as sps
    return sps.csc_matrix(dense)


def b_elemop(V, cfg):
    import pymoto as pym
    dom = domain(V, cfg)
    which = cfg["which"]
    ndof = cfg.get("ndof", dom.dim)
    if which in ("Strain", "Stress"):
        ndof = dom.dim
    u = V.cplxs("u", ndof * dom.nnodes) if cfg.get("cplx_u") else V.reals("u", ndof * dom.nnodes)
    sig = pym.Signal("u", u)
    if which == "Strain":
        m = pym.Strain(sig, domain=dom, voigt=cfg.get("voigt", True))
    elif which == "Stress":
        m = pym.Stress(sig, domain=dom, e_modulus=V.real("E", positive=True, default=2.0),
                       poisson_ratio=V.real("nu", lo="-0.9", hi="0.45", default=0.25), plane=cfg.get("plane", "strain"))
    elif which == "ElementAverage":
        m = pym.ElementAverage(sig, domain=dom)
    else:
        shp = tuple(cfg.get("opshape", ())) + ((ndof if cfg.get("fullmat", True) else 1) * dom.elemnodes,)
        em = V.reals("B", shp)
        m = pym.ElementOperation(sig, domain=dom, element_matrix=em)
    return Setup(m, [sig])


def b_nodalop(V, cfg):
    import pymoto as pym
    dom = domain(V, cfg)
    x = V.reals("x", dom.nel)
    sig = pym.Signal("x", x)
    if cfg["which"] == "ThermoMechanical":
        m = pym.ThermoMechanical(sig, domain=dom, e_modulus=V.real("E", positive=True, default=2.0),
                                 poisson_ratio=V.real("nu", lo="-0.9", hi="0.45", default=0.25),
                                 alpha=V.real("alpha", positive=True, default=0.5), plane=cfg.get("plane", "strain"))
    else:
        ndof = cfg.get("ndof", 1)
        em = V.reals("A", (ndof * dom.elemnodes,))
        m = pym.NodalOperation(sig, domain=dom, element_matrix=em)
    return Setup(m, [sig])


# ------------------------------------------------------------------------------------------------
# filters
def b_filterconv(V, cfg):
    import pymoto as pym
    dom = domain(V, dict(cfg, symsize=False), symbolic_size=False)
    x = V.reals("x", dom.nel)
    sig = pym.Signal("x", x)
    bcs = {}
    for k, v in cfg.get("bcs", {}).items():
        bcs[k + "_bc"] = (V.real("pad_" + k, default=0.5) if v == "value" else v)
    if cfg.get("radius") is not None:
        m = pym.FilterConv(sig, domain=dom, radius=V.const(cfg["radius"]) if not cfg.get("symradius") else
                           V.real("radius", lo=cfg["symradius"][0], hi=cfg["symradius"][1], default=1.5), **bcs)
    else:
        w = V.reals("k", tuple(cfg["kernel"]))
        m = pym.FilterConv(sig, domain=dom, weights=w, **bcs)
    return Setup(m, [sig])


def b_densityfilter(V, cfg):
    import pymoto as pym
    dom = domain(V, dict(cfg, symsize=False), symbolic_size=False)
    x = V.reals("x", dom.nel)
    sig = pym.Signal("x", x)
    kw = {}
    if cfg.get("nonpadding") is not None:
        kw["nonpadding"] = np.array(cfg["nonpadding"], dtype=int)
    if cfg.get("symradius"):
        r = V.real("radius", lo=cfg["symradius"][0], hi=cfg["symradius"][1], default=1.5)
    else:
        r = V.const(cfg.get("radius", "1.5"))
    m = pym.DensityFilter(sig, domain=dom, radius=r, **kw)
    return Setup(m, [sig])


def b_overhang(V, cfg):
    import pymoto as pym
    dom = domain(V, dict(cfg, symsize=False), symbolic_size=False)
    x = V.reals("x", dom.nel, lo=0, hi=1)
    sig = pym.Signal("x", x)
    kw = dict(direction=cfg["direction"])
    if cfg.get("nsampling"):
        kw["nsampling"] = cfg["nsampling"]
    m = pym.OverhangFilter(sig, domain=dom, **kw)
    # parameters through the public attributes (exact / symbolic instead of computed floats)
    if cfg.get("unit_exponents"):
        m.p = V.const(1)
        m.q = V.const(1)
    else:
        m.p = V.real("p", lo=1, hi=40, default=3.0)
        m.q = V.real("q", positive=True, default=2.5)
    m.eps = V.real("eps", positive=True, default=0.01)
    m.shift = V.real("shift", positive=True, default=0.001)
    m.backshift = V.real("backshift", positive=True, default=0.0005)
    if V.symbolic:
        V.assume(m.p > 0)
    return Setup(m, [sig], notes=["OverhangFilter parameters p, q, shift, backshift set through the public attributes "
                                  "to free positive symbols (set_parameters is not run)"])


# ------------------------------------------------------------------------------------------------
# linear algebra
def _matrix(V, cfg, name, n):
    """Symbolic matrix of the requested class; returns (dense object array, list of base symbols or None)."""
    cls = cfg.get("mclass", "general")
    cplx = cfg.get("cplx", False)
    mk = (lambda nm: V.cplx(nm)) if cplx else (lambda nm: V.real(nm))
    A = np.empty((n, n), dtype=object if V.symbolic else (complex if cplx else float))
    for i in range(n):
        for j in range(n):
            if cls == "general":
                A[i, j] = mk("%s_%d_%d" % (name, i, j))
            elif cls in ("symmetric",):
                A[i, j] = mk("%s_%d_%d" % (name, min(i, j), max(i, j)))
            elif cls == "hermitian":
                if i == j:
                    r = V.real("%s_%d_%d" % (name, i, j))
                    A[i, j] = (C(r, 0) if V.symbolic else complex(r)) if cplx else r
                else:
                    e = mk("%s_%d_%d" % (name, min(i, j), max(i, j)))
                    A[i, j] = e if i < j else (e.conjugate() if cplx else e)
            elif cls == "diagonal":
                A[i, j] = mk("%s_%d_%d" % (name, i, j)) if i == j else (0 if V.symbolic else 0.0)
            else:
                raise ValueError(cls)
    return wrap(A) if V.symbolic else A


def det(M):
    """Determinant by Laplace expansion (n <= 4), on symbolic or float entries."""
    M = np.asarray(M)
    n = M.shape[0]
    if n == 1:
        return M[0, 0]
    if n == 2:
        return M[0, 0] * M[1, 1] - M[0, 1] * M[1, 0]
    tot = 0
    for j in range(n):
        minor = np.delete(np.delete(M, 0, axis=0), j, axis=1)
        tot = tot + ((-1) ** j) * M[0, j] * det(minor)
    return tot


def assume_nonsingular(V, M, what="matrix"):
    """Assume det(M) != 0; prefer well-conditioned witnesses (|det| >= 1/8) for the replay."""
    if not V.symbolic:
        return
    d = det(M)
    if isinstance(d, C):
        m2 = d.re * d.re + d.im * d.im
        V.assume(m2 > 0, "%s is non-singular" % what)
        pref = (m2 >= R.of("1/64"))
    else:
        V.assume(d != 0, "%s is non-singular" % what)
        pref = (d * d >= R.of("1/64"))
    c = V.c
    if not hasattr(c, "witness_prefs"):
        c.witness_prefs = []
    if isinstance(pref, SB):
        c.witness_prefs.append(pref.t)


def _solver_for(V, cfg):
    """Symbolic mode: contract oracle as the inner solver (C05 covers the real solvers). Concrete: auto."""
    if V.symbolic:
        from symx.oracles import ContractSolver
        return ContractSolver()
    return None


def b_linsolve(V, cfg):
    import pymoto as pym
    n = cfg.get("n", 2)
    nrhs = cfg.get("nrhs", 0)
    A = _matrix(V, cfg, "A", n)
    cplx_rhs = cfg.get("cplx_rhs", cfg.get("cplx", False))
    shp = (n,) if nrhs == 0 else (n, nrhs)
    assume_nonsingular(V, A, "A")
    xs = V.cplxs("xs", shp) if cplx_rhs else V.reals("xs", shp)       # pre-image: b := A @ xs
    b = A @ xs
    sparse = cfg.get("sparse", False)
    Aval = _mk_sparse(V, A) if sparse else A
    sA, sb = pym.Signal("A", Aval), pym.Signal("b", b)
    kw = {}
    if cfg.get("flags"):
        kw.update(cfg["flags"])
    m = pym.LinSolve([sA, sb], solver=_solver_for(V, cfg), **kw)
    if not cfg.get("lda", True):
        m.use_lda_solver = False
    if V.symbolic:
        from symx import oracles
        oracles.add_candidate(xs)
        # adjoint pre-image is registered by the seed builder
    base = None
    return Setup(m, [sA, sb], seed_kinds={0: "preimage_T"}, notes=["rhs defined as A @ xs for free xs (pre-image)"])


def b_inverse(V, cfg):
    import pymoto as pym
    n = cfg.get("n", 2)
    A = _matrix(V, cfg, "A", n)
    assume_nonsingular(V, A, "A")
    sA = pym.Signal("A", A)
    cplx = cfg.get("cplx", False)

    def tangent(y_entries):
        B = np.asarray(y_entries[0])

        def t(s):
            # tangent rule of the inverse:  dB = -B dA B  for dA = E_ij (or i*E_ij for the imaginary part)
            nm = s.decl().name()
            parts = nm.split("_")
            i, j = int(parts[1]), int(parts[2])
            fac = C(0, 1) if (cplx and parts[-1] == "im") else 1
            dB = np.empty((n, n), dtype=object)
            for k in range(n):
                for l in range(n):
                    dB[k, l] = -(B[k, i] * B[j, l]) * fac
            return [dB]
        return t
    return Setup(pym.Inverse(sA), [sA], tangent=tangent,
                 notes=["Inverse: output defined by the oracle contract A B = I; tangent rule dB = -B dA B (trusted)"])


def b_sysofeq(V, cfg):
    import pymoto as pym
    n = cfg["n"]
    free = np.array(cfg["free"], dtype=int)
    pres = np.array(cfg["pres"] if cfg.get("pres") else [i for i in range(n) if i not in cfg["free"]], dtype=int)
    nrhs = cfg.get("nrhs", 0)
    A = _matrix(V, cfg, "A", n)
    shpf = (len(free),) if nrhs == 0 else (len(free), nrhs)
    shpp = (len(pres),) if nrhs == 0 else (len(pres), nrhs)
    xf = V.cplxs("xf", shpf) if cfg.get("cplx_rhs") else V.reals("xf", shpf)          # pre-image of the free solution
    xp = V.reals("xp", shpp)
    Aff = A[np.ix_(free, free)]
    Afp = A[np.ix_(free, pres)]
    assume_nonsingular(V, Aff, "A_ff")
    bf = Aff @ xf + Afp @ xp
    if cfg.get("real_loads"):
        bf = V.reals("bfree", shpf)      # real applied loads on a complex matrix (no pre-image: explicit solution of A_ff)
    Aval = _mk_sparse(V, A) if cfg.get("sparse", True) else A
    sA, sb, sx = pym.Signal("A", Aval), pym.Signal("bf", bf), pym.Signal("xp", xp)
    how = cfg.get("given", "both")
    kw = {}
    if how in ("both", "free"):
        kw["free"] = free
    if how in ("both", "prescribed"):
        kw["prescribed"] = pres
    m = pym.SystemOfEquations([sA, sb, sx], solver=_solver_for(V, cfg), **kw)
    if not cfg.get("lda", False):
        m.module_LinSolve.use_lda_solver = False      # public attribute; LDAWrapper transparency is C06
    if V.symbolic:
        from symx import oracles
        oracles.add_candidate(xf)
    return Setup(m, [sA, sb, sx], notes=["b_f defined as A_ff x_f + A_fp x_p for free x_f (pre-image)"])


def b_statcond(V, cfg):
    """Symmetric A given by a pre-image: A_ff, X free, A_fm := A_ff X, A_mf := A_fm^T, rest free."""
    import pymoto as pym
    n = cfg["n"]
    main = np.array(cfg["main"], dtype=int)
    free = np.array(cfg["free"], dtype=int)
    general = cfg.get("mclass") == "general"      # response only: the documented adjoint is for symmetric A
    A = _matrix(V, dict(cfg, mclass="general" if general else "symmetric"), "A", n)
    X = V.reals("X", (len(free), len(main)))
    Aff = A[np.ix_(free, free)]
    assume_nonsingular(V, Aff, "A_ff")
    Afm = Aff @ X
    A = np.array(A, dtype=object if V.symbolic else float, copy=True)
    for a, fi in enumerate(free):
        for b, mj in enumerate(main):
            A[fi, mj] = Afm[a, b]
            if not general:
                A[mj, fi] = Afm[a, b]
    A = wrap(A) if V.symbolic else A
    Aval = _mk_sparse(V, A) if cfg.get("sparse", True) else A
    sA = pym.Signal("A", Aval)
    m = pym.StaticCondensation(sA, main=main, free=free, solver=_solver_for(V, cfg))
    if V.symbolic:
        from symx import oracles
        oracles.add_candidate(X)
    return Setup(m, [sA], seed_kinds={0: cfg.get("seed", "dense")},
                 notes=["StaticCondensation: A_fm defined as A_ff X for free X (pre-image), A symmetric"])


def b_eigensolve(V, cfg):
    """Dense EigenSolve with the matrix DEFINED from free eigen-data (pre-image of the class):
    general:   A := B Q diag(W) Q^-1   (Q free 2x2, explicit 2x2 inverse)
    symmetric: A := Q diag(W) Q^T with Q the rotation of the rational parameter t (c=(1-t^2)/(1+t^2), s=2t/(1+t^2)).
    LAPACK is the contract oracle returning exactly (W, Q); sorting, sign and normalisation run for real."""
    import pymoto as pym
    n = 2
    W = V.reals("W", n)
    if V.symbolic:
        V.assume(W[0] != W[1], "simple eigenvalues (the module documents that multiplicity is unsupported)")
    gen = cfg.get("gen", False)
    if cfg.get("sym", False):
        t = V.real("t", default=0.4)
        den = 1 + t * t
        c_, s_ = (1 - t * t) / den, 2 * t / den
        Q = np.array([[c_, -s_], [s_, c_]], dtype=object if V.symbolic else float)
        Qinv = Q.T
        B = None
    else:
        Q = np.asarray(V.reals("Q", (n, n)))
        detQ = Q[0, 0] * Q[1, 1] - Q[0, 1] * Q[1, 0]
        if V.symbolic:
            V.assume(detQ != 0, "eigenvector matrix non-singular")
            for j in range(n):
                V.assume(Q[0, j] * Q[0, j] + Q[1, j] * Q[1, j] > 0)
        Qinv = np.array([[Q[1, 1], -Q[0, 1]], [-Q[1, 0], Q[0, 0]]], dtype=object if V.symbolic else float) / detQ
        B = None
        if gen:
            G = np.asarray(V.reals("G", (n, n)))
            B = G @ G.T
            for i in range(n):
                B[i, i] = B[i, i] + 1
    D = np.array([[W[0], 0], [0, W[1]]], dtype=object if V.symbolic else float)
    A = Q @ D @ Qinv
    if B is not None:
        A = B @ A
    # concrete twin / replay: column-major storage, the layout LAPACK can work in without a copy
    A = wrap(np.asarray(A, dtype=object)) if V.symbolic else np.asfortranarray(np.asarray(A, dtype=float))
    if V.symbolic and not cfg.get("sym", False):
        V.assume(A[0, 1] != A[1, 0], "general class: A not symmetric (the symmetric class has its own items)")
    if V.symbolic:
        # witnesses for the replay: a generic (not nearly diagonal) matrix
        prefs = []
        for cond in (abs(A[0, 1]) * 8 >= 1, abs(A[1, 0]) * 8 >= 1, abs(W[0] - W[1]) * 8 >= 1):
            if isinstance(cond, SB):
                prefs.append(cond.t)
        V.c.witness_prefs = list(getattr(V.c, "witness_prefs", None) or []) + prefs
    sigs = [pym.Signal("A", A)]
    if B is not None:
        sigs.append(pym.Signal("B", wrap(np.asarray(B, dtype=object)) if V.symbolic else np.asfortranarray(np.asarray(B, dtype=float))))
    m = pym.EigenSolve(sigs)
    if V.symbolic:
        from symx import factor
        c = V.c
        # the module skips modes whose seeds are all zero: keep the generic branch (partial seeding has its own items)
        c.seed_nonzero = True
        factor.register("eig", (wrap(np.asarray(W, dtype=object)), wrap(np.asarray(Q, dtype=object)),
                                np.array(np.asarray(A), dtype=object, copy=True),
                                (np.array(np.asarray(B), dtype=object, copy=True) if B is not None else None)))
    return Setup(m, sigs, notes=["EigenSolve: A defined from free eigen-data (pre-image); LAPACK = oracle returning that data"])


def b_eigensolve_cherm(V, cfg):
    """Dense generalised EigenSolve with complex Hermitian A and complex Hermitian positive definite B = G G^H + I (B != B^T).
    Used by the concrete finite-difference items only (floats, real LAPACK): the complex eigenvector contracts of a symbolic
    Hermitian pencil are not decided by the solver in time."""
    import pymoto as pym
    n = 2
    A = np.empty((n, n), dtype=complex)
    G = np.empty((n, n), dtype=complex)
    for i in range(n):
        A[i, i] = V.real("A_%d_%d" % (i, i), default=1.0 + 1.5 * i)
        for j in range(i + 1, n):
            A[i, j] = complex(V.real("A_%d_%d_re" % (i, j), default=0.5), V.real("A_%d_%d_im" % (i, j), default=-0.75))
            A[j, i] = np.conj(A[i, j])
        for j in range(n):
            G[i, j] = complex(V.real("G_%d_%d_re" % (i, j), default=0.25 * (i + 1) - 0.5 * j),
                              V.real("G_%d_%d_im" % (i, j), default=0.375 * (j + 1) - 0.25 * i))
    sigs = [pym.Signal("A", np.asfortranarray(A))]
    if cfg.get("gen", True):
        B = G @ G.conj().T + np.eye(n)
        sigs.append(pym.Signal("B", np.asfortranarray(B)))
    return Setup(pym.EigenSolve(sigs), sigs, notes=["concrete complex Hermitian pencil (finite-difference regression item)"])


class _SingularAdjointOracle:
    """Stand-in for the per-mode solver of EigenSolve._sparse_eigvec_sens: the system (A - lambda_i B)^T v = r is singular
    by construction (and consistent, r being B-orthogonal to the mode); the real LU only succeeds through rounding.
    Contract: ANY solution - fresh unknowns constrained by op(Z) x = r.  The module removes the null-space component
    itself, so its result must not depend on which solution was returned."""
    def __init__(self):
        self.Z = None
        self.n_update = 0

    def update(self, Z):
        self.Z = Z
        self.n_update += 1
        return self

    def solve(self, rhs, x0=None, trans="N"):
        from symx import oracles, ctx as _ctx
        from symx.array import is_complex_content as _icc
        _ctx.current().stubs.add("adjoint solver of the singular system (A - lambda B): contract oracle returning ANY solution")
        M = oracles._op(self.Z, trans)
        rhs = np.asarray(rhs)
        x = oracles.fresh_like(rhs.shape, _icc(M) or _icc(rhs), "vp")
        oracles.add_constraint_eq(M @ x, rhs)
        return x


def b_eigensolve_sparse(V, cfg):
    """Sparse symmetric EigenSolve, n = 3, nmodes = 2 (real ARPACK needs k < n for the replay).
    A := Q diag(W) Q^T with Q = G01(t) G12(s) (two Givens rotations with rational parameters), 0 < W0 < W1 < W2 so
    that the two eigenvalues closest to sigma = 0 are W0, W1 in ascending order (what eigsh returns); generalised:
    B := diag(b) > 0 and A := B^(1/2)-free form  A = Q^-T diag(W) Q^-1 with Q^T B Q = I is avoided - B = I only."""
    import pymoto as pym
    from pymoto.modules import linalg as _la
    n, k = 3, 2
    W = np.array([V.real("W_%d" % i, positive=True, default=0.5 + i) for i in range(n)], dtype=object if V.symbolic else float)
    t = V.real("t", default=0.4)
    s_ = V.real("s", default=-0.3) if cfg.get("rotations", 2) == 2 else (V.const(0) if V.symbolic else 0.0)

    def giv(p, a, b):
        den = 1 + p * p
        c_, s2 = (1 - p * p) / den, 2 * p / den
        G = np.array([[1 if i == j else 0 for j in range(n)] for i in range(n)], dtype=object if V.symbolic else float)
        G[a, a], G[a, b], G[b, a], G[b, b] = c_, -s2, s2, c_
        return G
    Q = giv(t, 0, 1) @ giv(s_, 1, 2)
    D = np.array([[W[i] if i == j else 0 for j in range(n)] for i in range(n)], dtype=object if V.symbolic else float)
    A = Q @ D @ Q.T
    if V.symbolic:
        V.assume(W[0] < W[1], "0 < W0 < W1 < W2: the two eigenvalues closest to sigma = 0, ascending (eigsh contract)")
        V.assume(W[1] < W[2])
        A = wrap(np.asarray(A, dtype=object))
    sA = pym.Signal("A", _mk_sparse(V, A))
    m = pym.EigenSolve([sA], nmodes=k, hermitian=True)
    if V.symbolic:
        from symx import factor
        c = V.c
        c.seed_nonzero = True
        factor.register("eig", (wrap(np.asarray(W, dtype=object)), wrap(np.asarray(Q, dtype=object))))
        if not hasattr(_la, "_symx_real_auto"):
            _la._symx_real_auto = _la.auto_determine_solver
        real_auto = _la._symx_real_auto

        def auto(Z, *a, **kw):
            if kw.get("ispositivedefinite") is False:       # the call inside _sparse_eigvec_sens
                return _SingularAdjointOracle()
            return real_auto(Z, *a, **kw)
        _la.auto_determine_solver = auto
    elif hasattr(_la, "_symx_real_auto"):
        _la.auto_determine_solver = _la._symx_real_auto
    return Setup(m, [sA], seed_kinds={}, notes=["sparse EigenSolve: A = Q diag(W) Q^T (pre-image), ARPACK = oracle, singular adjoint "
                                              "systems answered by a contract oracle (any solution)"])


BUILDERS = dict(eigensolve_cherm=b_eigensolve_cherm, eigensolve_sparse=b_eigensolve_sparse, eigensolve=b_eigensolve, einsum=b_einsum, mathgeneral=b_mathgeneral, concat=b_concat, scaling=b_scaling, complex=b_complex,
                aggregation=b_aggregation, assemble=b_assemble, elemop=b_elemop, nodalop=b_nodalop,
                filterconv=b_filterconv, densityfilter=b_densityfilter, overhang=b_overhang,
                linsolve=b_linsolve, inverse=b_inverse, sysofeq=b_sysofeq, statcond=b_statcond)


# ------------------------------------------------------------------------------------------------
def module_grid(tier):
    """List of module configurations (dicts with 'mod' and a unique 'id')."""
    q = tier == "quick"
    G = []

    def add(mod, ident, **kw):
        G.append(dict(mod=mod, id="%s-%s" % (mod, ident), **kw))

    for k in EINSUM:
        if k not in ("dot2", "dot1", "outer11"):
            add("einsum", k, expr=k)
    # one signal connected to two operands of the same module (non-symmetric in those operands)
    add("einsum", "quad-same-02", expr="quad", same=[0, 2])
    add("einsum", "matmat-same-01", expr="selfmat", same=[0, 1])
    add("einsum", "proj-same-02", expr="proj", same=[0, 2])
    add("einsum", "matvec-cplx", expr="matvec", cplx=[True, True])
    add("einsum", "matvec-cplxA", expr="matvec", cplx=[True, False])
    add("einsum", "dot-cplxb", expr="dot", cplx=[False, True])
    add("einsum", "quad-cplx", expr="quad", cplx=[True, False, True])
    # real-typed seeds (1.0, np.ones(n)) on complex outputs, one operand real
    add("einsum", "dot-cplxb-realseed", expr="dot", cplx=[False, True], real_seed=True, logical_dtype=True, c01_only=True)
    add("einsum", "matvec-cplxA-realseed", expr="matvec", cplx=[True, False], real_seed=True, logical_dtype=True, c01_only=True)
    for k in MATH:
        if k != "trig1":
            add("mathgeneral", k, expr=k)
    add("concat", "3sig")
    add("concat", "real-then-cplx", mixed=True, logical_dtype=True, c01_only=True)
    for mode in ("objective", "min", "max"):
        add("scaling", mode, mode=mode)
    add("scaling", "objective-array", mode="objective", array=True)
    for w in ("MakeComplex", "RealPart", "ImagPart", "ComplexNorm"):
        add("complex", w, which=w)
    for agg in ("PNorm", "KS", "SoftMinMax"):
        add("aggregation", agg, agg=agg)
        add("aggregation", agg + "-frozen", agg=agg, scaling="frozen")
        add("aggregation", agg + "-active", agg=agg, active=True, n=3, p=2, max_paths=200)
    add("aggregation", "PNorm-p2", agg="PNorm", p=2)
    add("aggregation", "PNorm-pm2", agg="PNorm", p=-2)
    meshes2 = [(1, 1, 0), (2, 1, 0), (2, 2, 0)] if q else [(1, 1, 0), (2, 1, 0), (1, 2, 0), (2, 2, 0), (3, 2, 0)]
    meshes3 = [(1, 1, 1)] if q else [(1, 1, 1), (2, 1, 1), (2, 2, 1)]
    for which in ("stiffness", "mass", "poisson", "general"):
        for mesh in meshes2 + meshes3:
            tag = "%dx%dx%d" % mesh
            if which == "stiffness" and mesh[2] > 0 and mesh != (1, 1, 1):
                continue
            add("assemble", "%s-%s" % (which, tag), which=which, mesh=mesh)
        add("assemble", which + "-bc", which=which, mesh=(2, 1, 0), bc=[0, 1], bcdiagval=True)
        add("assemble", which + "-dyad", which=which, mesh=(2, 1, 0), seed="dyad", bc=[0, 3])
    add("assemble", "stiffness-stress", which="stiffness", mesh=(1, 1, 0), plane="stress")
    add("assemble", "general-const", which="general", mesh=(1, 1, 0), add_constant=True)
    add("assemble", "general-csr", which="general", mesh=(2, 1, 0), csr=True)
    add("assemble", "general-complex-x", which="general", mesh=(2, 1, 0), cplx_x=True, logical_dtype=True)
    add("assemble", "general-complex-x-bc", which="general", mesh=(1, 1, 0), cplx_x=True, bc=[0], logical_dtype=True)
    add("assemble", "general-ndof2", which="general", mesh=(1, 1, 0), ndof=2)
    add("assemble", "mass-ndof2", which="mass", mesh=(2, 1, 0), ndof=2)
    for which in ("Strain", "Stress", "ElementAverage", "ElementOperation"):
        for mesh in [(1, 1, 0), (2, 2, 0), (1, 1, 1)] if q else [(1, 1, 0), (2, 1, 0), (2, 2, 0), (3, 2, 0), (1, 1, 1), (2, 1, 1)]:
            add("elemop", "%s-%dx%dx%d" % ((which,) + mesh), which=which, mesh=mesh, ndof=(1 if which in ("ElementAverage", "ElementOperation") else None) or 1)
    add("elemop", "Strain-novoigt", which="Strain", mesh=(2, 1, 0), voigt=False)
    # complex nodal vectors (time-harmonic response): NumPy's real/complex casting rules are modelled (logical dtypes)
    add("elemop", "Strain-cplx-u", which="Strain", mesh=(1, 1, 0), cplx_u=True, logical_dtype=True)
    add("elemop", "ElementAverage-cplx-u", which="ElementAverage", mesh=(2, 1, 0), ndof=1, cplx_u=True, logical_dtype=True)
    add("elemop", "ElementOperation-rep-cplx-u", which="ElementOperation", mesh=(1, 1, 0), ndof=2, fullmat=False, cplx_u=True,
        logical_dtype=True)
    add("elemop", "Stress-planestress", which="Stress", mesh=(2, 1, 0), plane="stress")
    add("elemop", "ElementAverage-ndof2", which="ElementAverage", mesh=(2, 1, 0), ndof=2)
    add("elemop", "ElementOperation-m", which="ElementOperation", mesh=(2, 1, 0), ndof=2, opshape=(2,))
    add("elemop", "ElementOperation-lm", which="ElementOperation", mesh=(1, 1, 0), ndof=1, opshape=(2, 2))
    add("elemop", "ElementOperation-rep", which="ElementOperation", mesh=(2, 1, 0), ndof=2, fullmat=False)
    for which in ("NodalOperation", "ThermoMechanical"):
        for mesh in [(1, 1, 0), (2, 2, 0), (1, 1, 1)]:
            add("nodalop", "%s-%dx%dx%d" % ((which,) + mesh), which=which, mesh=mesh, ndof=1)
    add("nodalop", "NodalOperation-ndof2", which="NodalOperation", mesh=(2, 1, 0), ndof=2)
    add("nodalop", "ThermoMechanical-stress", which="ThermoMechanical", mesh=(2, 1, 0), plane="stress")
    # filters
    modes = ["symmetric", "edge", "wrap", "value"]
    pairs = list(itertools.product(modes, modes))
    for i, (a, b) in enumerate(pairs):
        c, d = pairs[(i * 5 + 3) % len(pairs)]
        add("filterconv", "k3x3-%s-%s-%s-%s" % (a, b, c, d), mesh=(3, 2, 0), kernel=(3, 3),
            bcs=dict(xmin=a, xmax=b, ymin=c, ymax=d))
    add("filterconv", "k3x1", mesh=(3, 2, 0), kernel=(3, 1), bcs=dict(xmin="edge", xmax="value"))
    add("filterconv", "k1x1", mesh=(2, 2, 0), kernel=(1, 1), bcs={})
    add("filterconv", "r1.5-2d", mesh=(3, 2, 0), radius="1.5", bcs={})
    add("filterconv", "r1.5-3d", mesh=(2, 2, 2), radius="1.5", bcs=dict(zmin="value", zmax="wrap"))
    add("filterconv", "k3x3x3", mesh=(2, 2, 2), kernel=(3, 3, 3), bcs=dict(xmin="edge", ymax="wrap", zmin="value"))
    if not q:
        add("filterconv", "k5x3", mesh=(4, 3, 0), kernel=(5, 3), bcs=dict(xmin="wrap", ymin="value"))
    for mesh in [(3, 2, 0), (2, 2, 2)]:
        add("densityfilter", "r1.5-%dx%dx%d" % mesh, mesh=mesh, radius="1.5")
    add("densityfilter", "r2.5-nonpad", mesh=(3, 2, 0), radius="2.5", nonpadding=[0, 1])
    add("densityfilter", "symradius", mesh=(3, 2, 0), symradius=["0.5", "3.5"])
    # overhang
    for d2 in ("+y", "y-", "+x", "-x"):
        add("overhang", "2x2-%s" % d2, mesh=(2, 2, 0), direction=d2)
    add("overhang", "2x3-unit", mesh=(2, 3, 0), direction=[0.0, 1.0], unit_exponents=True)
    add("overhang", "3x1-onelayer", mesh=(3, 1, 0), direction=[0.0, 1.0])
    # 3-D, two layers, NON-square cross-sections orthogonal to the print direction (support masks use both in-layer sizes)
    add("overhang", "2x1x2-z-5", mesh=(2, 1, 2), direction=[0.0, 0.0, 1.0], nsampling=5)
    add("overhang", "1x2x2-mz-9", mesh=(1, 2, 2), direction=[0.0, 0.0, -1.0], nsampling=9)
    add("overhang", "2x2x1-x-5", mesh=(2, 2, 1), direction=[1.0, 0.0, 0.0], nsampling=5)
    add("overhang", "1x2x3-y-9-unit", mesh=(1, 2, 3), direction=[0.0, 1.0, 0.0], nsampling=9, unit_exponents=True)
    if not q:
        add("overhang", "1x2x3-y-9", mesh=(1, 2, 3), direction=[0.0, 1.0, 0.0], nsampling=9)
        add("overhang", "3x2x1-my-5", mesh=(3, 2, 1), direction=[0.0, -1.0, 0.0], nsampling=5)
    if not q:
        add("overhang", "3x2-vec", mesh=(3, 2, 0), direction=[0.0, 1.0])
        add("overhang", "3x3-unit", mesh=(3, 3, 0), direction=[1.0, 0.0], unit_exponents=True)
        add("overhang", "2x2x2-z", mesh=(2, 2, 2), direction=[0.0, 0.0, 1.0])
        add("overhang", "2x2x2-mx-9", mesh=(2, 2, 2), direction=[-1.0, 0.0, 0.0], nsampling=9)
        add("overhang", "4x3-unit", mesh=(4, 3, 0), direction=[0.0, -1.0], unit_exponents=True)
        add("overhang", "2x2x3-unit", mesh=(2, 2, 3), direction=[0.0, 0.0, 1.0], unit_exponents=True)
    # linear algebra
    for n in ([2, 3] if q else [2, 3, 4]):
        for sparse in (False, True):
            for lda in ((False,) if q else (False, True)):
                add("linsolve", "n%d-%s-%s" % (n, "sp" if sparse else "de", "lda" if lda else "nolda"), n=n, sparse=sparse, lda=lda)
    add("linsolve", "n2-sym", n=2, mclass="symmetric", lda=not q)
    add("linsolve", "n2-symflag", n=2, mclass="symmetric", lda=not q, flags=dict(symmetric=True))
    add("linsolve", "n2-cplx", n=2, cplx=True, lda=False)
    add("linsolve", "n2-cplx-realseed", n=2, cplx=True, lda=False, real_seed=True)
    add("linsolve", "n2-cplx-lda", n=2, cplx=True, lda=not q)
    add("linsolve", "n2-herm", n=2, cplx=True, mclass="hermitian", lda=not q)
    add("linsolve", "n2-csym", n=2, cplx=True, mclass="symmetric", lda=not q)
    if not q:
        # user-supplied class flags with the default LDAWrapper (the flags decide which storage / conjugation the adjoint solve
        # uses); complex LDAWrapper runs do not finish in the quick budget and are often inconclusive here too
        add("linsolve", "n2-herm-hermflag-lda", n=2, cplx=True, mclass="hermitian", lda=True, flags=dict(hermitian=True))
        add("linsolve", "n2-csym-symflag-lda", n=2, cplx=True, mclass="symmetric", lda=True, flags=dict(symmetric=True))
    add("linsolve", "n2-2rhs", n=2, nrhs=2, lda=not q)
    add("linsolve", "n2-sp-2rhs", n=2, nrhs=2, sparse=True, lda=False)
    add("linsolve", "n2-cplxrhs", n=2, cplx_rhs=True, lda=False)
    for n in ([2] if q else [2, 3]):
        add("inverse", "n%d" % n, n=n)
    add("inverse", "n2-cplx", n=2, cplx=True)
    for n in ([2, 3] if q else [2, 3, 4]):
        for r in range(1, n):
            for free in itertools.combinations(range(n), r):
                if q and n == 3 and free not in ((0,), (0, 2), (1, 2)):
                    continue
                add("sysofeq", "n%d-f%s" % (n, "".join(map(str, free))), n=n, free=list(free), mclass="symmetric")
    add("sysofeq", "n3-2rhs", n=3, free=[0, 2], nrhs=2, mclass="symmetric")
    add("sysofeq", "n3-freeonly", n=3, free=[0, 1], given="free", mclass="symmetric")
    add("sysofeq", "n3-presonly", n=3, free=[1, 2], given="prescribed", mclass="symmetric")
    add("sysofeq", "n3-general", n=3, free=[0, 2], mclass="general")
    add("sysofeq", "n3-dense", n=3, free=[0, 2], mclass="symmetric", sparse=False)
    add("eigensolve_cherm", "n2-complex-hermitian-generalised-concrete-fd", concrete_fd=True, gen=True,
        symbols=["A_0_0", "A_1_1", "A_0_1_re", "A_0_1_im", "G_0_0_re", "G_0_1_im", "G_1_0_re", "G_1_1_im"])
    add("eigensolve_cherm", "n2-complex-hermitian-standard-concrete-fd", concrete_fd=True, gen=False,
        symbols=["A_0_0", "A_1_1", "A_0_1_re", "A_0_1_im"])
    add("eigensolve", "n2-general", max_paths=40, twin_abs=True)
    add("eigensolve", "n2-symmetric", sym=True, max_paths=40, twin_abs=True)
    add("eigensolve", "n2-general-lambda-only", seeded=[0], max_paths=40, twin_abs=True)
    add("eigensolve", "n2-symmetric-vectors-only", sym=True, seeded=[1], max_paths=40, twin_abs=True)
    if not q:
        add("eigensolve", "n2-generalised", gen=True, max_paths=40, twin_abs=True)
    add("eigensolve_sparse", "n3-k2-vectors", seeded=[1], max_paths=60, twin_abs=True, rotations=1)
    add("eigensolve_sparse", "n3-k2-values", seeded=[0], max_paths=60, twin_abs=True)
    add("eigensolve_sparse", "n3-k2-both", max_paths=60, twin_abs=True, rotations=1)
    add("statcond", "n3-m0-f12", n=3, main=[0], free=[1, 2], mclass="symmetric")
    add("statcond", "n3-m02-f1", n=3, main=[0, 2], free=[1], mclass="symmetric")
    add("statcond", "n4-m0-f12", n=4, main=[0], free=[1, 2], mclass="symmetric")
    add("statcond", "n3-dyad", n=3, main=[0, 1], free=[2], mclass="symmetric", seed="dyad")
    add("statcond", "n3-dense", n=3, main=[0], free=[1, 2], mclass="symmetric", sparse=False)
    # real-typed seeds (1.0, np.ones(n)) on complex outputs: every item with complex data whose seeds are plain dense arrays
    extra = []
    for g in G:
        if g.get("real_seed") or g.get("concrete_fd") or g.get("seed") == "dyad":
            continue
        if (g["id"] in ("einsum-matvec-cplx", "einsum-quad-cplx", "assemble-general-complex-x", "elemop-Strain-cplx-u",
                        "elemop-ElementAverage-cplx-u", "elemop-ElementOperation-rep-cplx-u", "inverse-n2-cplx",
                        "linsolve-n2-cplxrhs", "complex-MakeComplex", "concat-real-then-cplx")):
            extra.append(dict(g, id=g["id"] + "-realseed", real_seed=True, logical_dtype=True, c01_only=True))
    G.extend(extra)
    return G
