"""C11 - EigenSolve returns genuine, normalised, ordered eigenpairs (glue code only).

LAPACK (eigh / eig) and ARPACK (eigsh / eigs) are contract oracles: they hand back arbitrary (W, Q) constrained only
by A Q = B Q diag(W) (ascending order for eigh, arbitrary non-zero column scaling).  Executed for real:
EigenSolve._response (dispatch, sorting function, sign rule, normalisation loop) and _sparse_eigs (shift handling,
solver set-up, operator handed to ARPACK).
"""
import itertools
import numpy as np
import z3

from symx import R, C, SB
from symx.array import wrap
from .common import symbolic_run, Vals, NumProver
from .catalogue import _mk_sparse, assume_nonsingular

PROPERTY = "C11"
BOUNDS = {
    "quick": dict(n=[2, 3], problems=["standard symmetric", "generalised symmetric (B SPD-constrained)", "standard general (real eig)"],
                  sorting=["default ascending", "descending custom function"], sparse="n=2, nmodes=2, sigma in {0, symbolic}",
                  histories="one response per module; a second response with another shift / another B (sparse); a fixed symmetric "
                            "matrix first and the item's matrix afterwards in the same input signal (dense, class change)"),
    "thorough": dict(n=[2, 3], problems="quick + generalised general", sorting="quick + by-absolute-value", sparse="n=3, nmodes 1..3"),
}
OUTSIDE = ["that LAPACK/ARPACK deliver eigenpairs at all, and 'closest to the shift' (contract of the libraries)",
           "complex Hermitian normalisation where q^T B q may vanish", "n > 3", "eigenvalue multiplicity"]
ASSUMPTIONS = ["float64 as exact reals", "oracle eigenvectors are non-zero, q^T B q > 0 for the pairs returned by the oracle "
               "(true for real vectors and positive definite B)", "eigh returns ascending eigenvalues (LAPACK contract)"]
ITEM_TIMEOUT = {"quick": 240, "thorough": 600}


def items(tier):
    q = tier == "quick"
    out = []
    for n in (2, 3):
        for prob in ("std-sym", "gen-sym", "std-gen") + (() if q else ("gen-gen",)):
            for sort in ("default", "desc") + (() if q else ("abs",)):
                if q and n == 3 and (sort != "default" or prob == "gen-sym"):
                    continue
                out.append(dict(kind="dense", id="dense-n%d-%s-%s" % (n, prob, sort), n=n, prob=prob, sort=sort))
    # complex Hermitian pencils (eigh with complex vectors: the bilinear q^T B q is a general complex number)
    for gen in (False, True):
        out.append(dict(kind="dense", id="dense-n2-%s-herm-default" % ("gen" if gen else "std"), n=2,
                        prob=("gen" if gen else "std") + "-herm", sort="default"))
    # history on one module: symmetric matrix first, then a general one (and the reverse classes) in the same input signal
    for n in (2, 3):
        for prob in ("std-gen", "std-sym"):
            if q and n == 3 and prob == "std-sym":
                continue
            out.append(dict(kind="dense", id="dense-n%d-%s-default-after-sym" % (n, prob), n=n, prob=prob, sort="default", after_sym=True))
    for sig in ("zero", "sym"):
        for gen in (False, True):
            for n in ((2,) if q else (2, 3)):
                out.append(dict(kind="sparse", id="sparse-n%d-%s-%s" % (n, "gen" if gen else "std", sig), n=n, gen=gen,
                                sigma=sig, nmodes=2))
    # a complex-conjugate pair with a user sorting function that orders by the imaginary part
    out.append(dict(kind="dense_cpair", id="dense-n2-std-complexpair-sortimag", n=2))
    out.append(dict(kind="dense_cpair", id="dense-n3-std-complexpair-and-real-sortimag", n=3, with_real_eigenvalue=True))
    # complex Hermitian sparse pencils in both storage formats (the operator handed to ARPACK must invert A - sigma B itself)
    for fmt in ("csc", "csr"):
        out.append(dict(kind="sparse", id="sparse-n2-std-herm-%s-zero" % fmt, n=2, gen=False, sigma="zero", nmodes=2, herm=True, fmt=fmt))
    out.append(dict(kind="sparse", id="sparse-n2-std-sym-csr-sym", n=2, gen=False, sigma="sym", nmodes=2, fmt="csr"))
    # history on one module: a second response() with another shift / another B while the A signal still holds the same object
    out.append(dict(kind="sparse", id="sparse-n2-std-herm-csc-sym-again", n=2, gen=False, sigma="sym", nmodes=2, herm=True, fmt="csc",
                    again=True))
    out.append(dict(kind="sparse", id="sparse-n2-gen-herm-csc-sym-again", n=2, gen=True, sigma="sym", nmodes=2, herm=True, fmt="csc",
                    again=True))
    # the largest admissible number of modes for the symmetric driver (nmodes = n - 1)
    out.append(dict(kind="sparse", id="sparse-n3-std-sym-fixeddata-k2", n=3, gen=False, sigma="zero", nmodes=2, fixed=True, fmt="csc",
                    replay_nmodes="n-1"))
    if not q:
        for k in (1, 3):
            out.append(dict(kind="sparse", id="sparse-n3-std-sym-k%d" % k, n=3, gen=False, sigma="sym", nmodes=k))
    return out


def _sym(V, name, n, symmetric):
    A = V.reals(name, (n, n))
    if symmetric:
        A = np.array(A, dtype=object if V.symbolic else float)
        for i in range(n):
            for j in range(i):
                A[i, j] = A[j, i]
        A = wrap(A) if V.symbolic else A
    return A


def _spd(V, n, name="G"):
    """Symmetric positive definite B := G G^T + I for free G (pre-image of the class)."""
    G = np.asarray(V.reals(name, (n, n)))
    B = G @ G.T
    for i in range(n):
        B[i, i] = B[i, i] + 1
    return wrap(np.asarray(B, dtype=object)) if V.symbolic else B


def _herm(V, name, n):
    """Complex Hermitian matrix: real diagonal, free complex upper triangle, conjugated lower triangle."""
    A = np.empty((n, n), dtype=object if V.symbolic else complex)
    for i in range(n):
        A[i, i] = V.real("%s_%d_%d" % (name, i, i)) + (C(R(q=0), R(q=0)) if V.symbolic else 0j)
        for j in range(i + 1, n):
            z = V.cplx("%s_%d_%d" % (name, i, j))
            V.assume(z.imag != 0, "strictly complex off-diagonal (the real symmetric case has its own items)")
            A[i, j] = z
            A[j, i] = z.conjugate()
    return wrap(A) if V.symbolic else A


def _pdiag(V, n):
    """Positive diagonal B (keeps the complex Hermitian generalised item within solver reach)."""
    B = np.zeros((n, n), dtype=object if V.symbolic else float)
    for i in range(n):
        B[i, i] = V.real("Bd_%d" % i, positive=True, default=1.0)
    return wrap(B) if V.symbolic else B


def _sorting(sort):
    if sort == "default":
        return None
    if sort == "desc":
        return lambda W, Q: np.argsort(-W)
    return lambda W, Q: np.argsort(abs(W))


_PRE = {2: ([[2, 1], [1, 2]], [1, 3], [[1, 1], [-1, 1]]),
        3: ([[2, 1, 0], [1, 2, 0], [0, 0, 5]], [1, 3, 5], [[1, 1, 0], [-1, 1, 0], [0, 0, 1]])}


def _prelude_matrix(V, n):
    """A fixed symmetric matrix (rational eigenpairs) the module is evaluated with FIRST in the 'after-sym' histories."""
    A0, W0, Q0 = _PRE[n]
    if V.symbolic:
        k = lambda v: R.of(v)
        return (wrap(np.array([[k(v) for v in r] for r in A0], dtype=object)), [k(v) for v in W0],
                wrap(np.array([[k(v) for v in r] for r in Q0], dtype=object)))
    return np.array(A0, dtype=float), None, None


def sc_dense(V, P, cfg):
    import pymoto as pym
    n, prob, sort = cfg["n"], cfg["prob"], cfg["sort"]
    herm = prob.endswith("herm")
    symm = prob.endswith("sym")
    gen = prob.startswith("gen")
    A = _herm(V, "A", n) if herm else _sym(V, "A", n, symm)
    B = (_pdiag(V, n) if herm else _spd(V, n)) if gen else None
    sigs = [pym.Signal("A", A)] + ([pym.Signal("B", B)] if gen else [])
    kw = {}
    sf = _sorting(sort)
    if sf is not None:
        kw["sorting_func"] = sf
    m = pym.EigenSolve(sigs, **kw)
    if cfg.get("after_sym"):
        # history on one module: a first response() with a symmetric matrix, then the matrix of this item in the same signal
        # (the class of the matrix may change between two evaluations: design-dependent damping, another load case, ...)
        Ap, Wp, Qp = _prelude_matrix(V, n)
        if V.symbolic:
            from symx import factor
            factor.register("eig", (Wp, Qp, np.array(np.asarray(Ap), dtype=object, copy=True), None))
        sigs[0].state = Ap
        m.response()
        sigs[0].state = A
    if V.symbolic:
        from symx import factor
        W = V.reals("W", n)
        Q = V.cplxs("Q", (n, n)) if herm else V.reals("Q", (n, n))
        Bm = np.asarray(B) if gen else np.eye(n, dtype=int).astype(object)
        lhs = np.asarray(A) @ np.asarray(Q)
        rhs = Bm @ np.asarray(Q) @ np.diag(np.asarray(W))
        for i in range(n):
            for j in range(n):
                V.assume(lhs[i, j] == rhs[i, j], "oracle contract A Q = B Q diag(W)")
        for j in range(n):
            qj = np.asarray(Q)[:, j]
            if herm:
                V.assume((qj @ Bm @ qj) != 0, "q^T B q != 0 for oracle eigenvectors (complex: may vanish otherwise)")
            else:
                V.assume((qj @ Bm @ qj) > 0, "q^T B q > 0 for oracle eigenvectors")
        if symm or herm:
            for j in range(n - 1):
                V.assume(W[j] <= W[j + 1], "eigh: ascending eigenvalues")
        factor.register("eig", (W, Q, np.array(np.asarray(A), dtype=object, copy=True),
                                (np.array(np.asarray(B), dtype=object, copy=True) if gen else None)))
    A_before = np.array(np.asarray(A), dtype=object, copy=True) if V.symbolic else None
    B_before = np.array(np.asarray(B), dtype=object, copy=True) if (V.symbolic and gen) else None
    m.response()
    Wo, Qo = m.sig_out[0].state, m.sig_out[1].state
    obs = dict(n_out=int(np.size(Wo)))
    if P is not None:
        Wo_, Qo_ = np.asarray(Wo), np.asarray(Qo)
        P.holds("complete-spectrum", Wo_.shape == (n,) and Qo_.shape == (n, n), kind="shape")
        # the pencil that was handed in (a copy taken before the call: LAPACK work-space flags may destroy the arrays)
        P.arrays_eq("A-unchanged-by-response", np.asarray(m.sig_in[0].state), A_before, kind="input-unchanged")
        if gen:
            P.arrays_eq("B-unchanged-by-response", np.asarray(m.sig_in[1].state), B_before, kind="input-unchanged")
        Bm = B_before if gen else np.eye(n, dtype=int).astype(object)
        for i in range(n):
            qo = Qo_[:, i]
            # paired with an oracle pair (same eigenvalue, parallel vector, non-zero)
            alts = []
            for j in range(n):
                par = [SB._t(qo[a] * np.asarray(Q)[b, j] == qo[b] * np.asarray(Q)[a, j]) for a in range(n) for b in range(a + 1, n)]
                eqw = SB._t(Wo_[i] == np.asarray(W)[j])
                alts.append(z3.And(eqw, *par))
            P.holds("pair[%d]:multiple-of-an-oracle-pair" % i, SB(z3.Or(*alts)), kind="genuine-eigenpair")
            nz = [SB._t(qo[a] != 0) for a in range(n)]
            P.holds("pair[%d]:non-zero" % i, SB(z3.Or(*nz)), kind="genuine-eigenpair")
            P.eq("norm[%d]:q^T B q == 1" % i, qo @ Bm @ qo, 1, kind="normalisation")
            if symm:
                P.holds("sign[%d]:mean>=0" % i, sum(qo) >= 0, kind="sign")
        for i in range(n - 1):
            if sort == "default":
                P.holds("order[%d]" % i, Wo_[i] <= Wo_[i + 1], kind="ordering")
            elif sort == "desc":
                P.holds("order[%d]" % i, Wo_[i] >= Wo_[i + 1], kind="ordering")
            else:
                P.holds("order[%d]" % i, abs(Wo_[i]) <= abs(Wo_[i + 1]), kind="ordering")
        # every oracle eigenvalue appears (multiset equality for distinct values): each W[j] equals some output
        for j in range(n):
            P.holds("spectrum-kept[%d]" % j, SB(z3.Or(*[SB._t(np.asarray(W)[j] == Wo_[i]) for i in range(n)])), kind="spectrum")
    return obs


def sc_sparse(V, P, cfg):
    import pymoto as pym
    n, gen, nm = cfg["n"], cfg["gen"], cfg["nmodes"]
    A = _herm(V, "A", n) if cfg.get("herm") else _sym(V, "A", n, True)
    B = _spd(V, n) if gen else None
    sigma = V.real("sigma", nonzero=True, default=0.5) if cfg["sigma"] == "sym" else 0.0

    def sp(Mx):
        Sx = _mk_sparse(V, Mx)
        if cfg.get("fmt") == "csr":         # row storage (FE assembly can be asked for it with matrix_type=csr_matrix)
            Sx = Sx.asformat("csr") if V.symbolic else Sx.tocsr()
        return Sx
    sigs = [pym.Signal("A", sp(A))] + ([pym.Signal("B", sp(B))] if gen else [])
    m = pym.EigenSolve(sigs, nmodes=nm, sigma=sigma, hermitian=True)
    if V.symbolic:
        V.c.arpack_calls = []
        from symx import factor, oracles
        oracles.CRAMER_MAX_N = 3
        Bm = np.asarray(B) if gen else np.eye(n, dtype=int).astype(object)
        if cfg.get("herm") or cfg.get("fixed"):
            # these items are about the ARGUMENTS and the shift-invert OPERATOR handed to ARPACK; the oracle's answer is
            # fixed data (complex eigenvector contracts of a symbolic Hermitian matrix do not finish)
            from symx import factor, oracles
            oracles.CRAMER_MAX_N = 3
            V.c.arpack_calls = []
            # (not in ascending order: for complex Hermitian input scipy's eigsh hands back ARPACK's own order)
            W = wrap(np.array([R.of(nm - i_) for i_ in range(nm)], dtype=object))
            Qd = np.empty((n, nm), dtype=object)
            for i_ in range(n):
                for j_ in range(nm):
                    Qd[i_, j_] = C(R.of(1 if i_ == (nm - 1 - j_) else 0), R.of(0)) if cfg.get("herm") else R.of(1 if i_ == (nm - 1 - j_) else 0)
            Q = wrap(Qd)
            assume_nonsingular(V, np.asarray(A) - (sigma * Bm if cfg["sigma"] == "sym" else 0), "A - sigma B")
            factor.register("eig", (W, Q))
    if V.symbolic and not (cfg.get("herm") or cfg.get("fixed")):
        W = V.reals("W", n)
        Q = V.cplxs("Q", (n, n)) if cfg.get("herm") else V.reals("Q", (n, n))
        lhs = np.asarray(A) @ np.asarray(Q)
        rhs = Bm @ np.asarray(Q) @ np.diag(np.asarray(W))
        for i in range(n):
            for j in range(n):
                V.assume(lhs[i, j] == rhs[i, j], "oracle contract A Q = B Q diag(W)")
        for j in range(n):
            qj = np.asarray(Q)[:, j]
            if cfg.get("herm"):
                V.assume((qj @ Bm @ qj) != 0, "q^T B q != 0 for oracle eigenvectors (complex: may vanish otherwise)")
            else:
                V.assume((qj @ Bm @ qj) > 0, "q^T B q > 0 for oracle eigenvectors")
        shifted = np.asarray(A) - (sigma * Bm if cfg["sigma"] == "sym" else 0)
        assume_nonsingular(V, shifted, "A - sigma B")
        factor.register("eig", (W, Q))
    m.response()
    Wo, Qo = m.sig_out[0].state, m.sig_out[1].state
    obs = dict(n_out=int(np.size(Wo)))
    if P is not None:
        c = V.c
        calls = getattr(c, "arpack_calls", [])
        P.holds("one-arpack-call", len(calls) == 1, kind="arpack-arguments")
        if calls:
            call = calls[-1]
            P.holds("k==nmodes", call["k"] == nm, kind="arpack-arguments")
            P.holds("eigsh-for-hermitian", call["kind"] == "eigsh", kind="arpack-arguments")
            # shift-invert: 'closest to sigma' are the largest-magnitude eigenvalues of the transformed operator
            P.holds("which=='LM' (closest to the shift)", call.get("which", "LM") == "LM", kind="arpack-arguments")
            P.holds("mode=='normal'", call.get("mode", "normal") == "normal", kind="arpack-arguments")
            P.holds("no-further-arpack-options", not [k_ for k_ in call.get("extra", {}) if k_ not in ("v0", "ncv", "maxiter", "tol")],
                    kind="arpack-arguments")
            if cfg["sigma"] == "sym":
                P.eq("sigma-passed", call["sigma"], sigma, kind="arpack-arguments")
            else:
                P.holds("sigma-passed", call["sigma"] == 0.0, kind="arpack-arguments")
            Aarg = np.asarray(call["A"]._dense if hasattr(call["A"], "_dense") else call["A"])
            P.arrays_eq("A-passed", Aarg, np.asarray(A), kind="arpack-arguments")
            if gen:
                Marg = call["M"]
                P.arrays_eq("M-passed", np.asarray(Marg._dense if hasattr(Marg, "_dense") else Marg), np.asarray(B), kind="arpack-arguments")
            elif cfg["sigma"] == "zero":
                P.holds("M-is-None", call["M"] is None, kind="arpack-arguments")
            # the operator handed to ARPACK solves (A - sigma B) v = r
            r = V.cplxs("r", n) if cfg.get("herm") else V.reals("r", n)
            v = call["OPinv"].matvec(r)
            Bm = np.asarray(B) if gen else np.eye(n, dtype=int).astype(object)
            Sh = np.asarray(A) - (sigma * Bm if cfg["sigma"] == "sym" else 0 * Bm)
            P.arrays_eq("OPinv:(A-sigma B) v == r", Sh @ np.asarray(v), np.asarray(r), kind="shift-invert-operator")
            vt = call["OPinv"].rmatvec(r)
            ShH = wrap(Sh.T.copy()).conj() if cfg.get("herm") else Sh.T
            P.arrays_eq("OPinv^H:(A-sigma B)^H v == r", np.asarray(ShH) @ np.asarray(vt), np.asarray(r), kind="shift-invert-operator")
            if cfg.get("again"):
                # second response: new shift (public attribute) and, for generalised problems, a new B; same A object
                sigma2 = V.real("sigma2", nonzero=True, default=-0.75)
                m.sigma = sigma2
                B2 = _spd(V, n, name="G2") if gen else None
                if gen:
                    sigs[1].state = sp(B2)
                Bm2 = np.asarray(B2) if gen else np.eye(n, dtype=int).astype(object)
                Sh2 = np.asarray(A) - sigma2 * Bm2
                assume_nonsingular(V, Sh2, "A - sigma2 B2")
                factor.register("eig", (W, Q))
                m.response()
                calls = getattr(c, "arpack_calls", [])
                P.holds("second-response:one-more-arpack-call", len(calls) == 2, kind="arpack-arguments")
                if len(calls) == 2:
                    call2 = calls[-1]
                    P.eq("second-response:sigma-passed", call2["sigma"], sigma2, kind="arpack-arguments")
                    r2 = V.cplxs("r2", n) if cfg.get("herm") else V.reals("r2", n)
                    v2 = call2["OPinv"].matvec(r2)
                    P.arrays_eq("second-response:OPinv:(A-sigma B) v == r", Sh2 @ np.asarray(v2), np.asarray(r2),
                                kind="shift-invert-operator")
        Wo_, Qo_ = np.asarray(Wo), np.asarray(Qo)
        P.holds("nmodes-returned", Wo_.shape == (nm,) and Qo_.shape == (n, nm), kind="shape")
        Bm = np.asarray(B) if gen else np.eye(n, dtype=int).astype(object)
        shape_ok = Wo_.shape == (nm,) and Qo_.shape == (n, nm)
        for i in range(nm if shape_ok else 0):
            qo = Qo_[:, i]
            P.eq("norm[%d]:q^T B q == 1" % i, qo @ Bm @ qo, 1, kind="normalisation")
            if not cfg.get("herm"):
                P.holds("sign[%d]:mean>=0" % i, sum(qo) >= 0, kind="sign")
        for i in range(nm - 1 if shape_ok else 0):
            P.holds("order[%d]" % i, Wo_[i] <= Wo_[i + 1], kind="ordering")
    return obs


def _cpair_sort(W, Q):
    """User sorting function that looks at more than the real part: ascending imaginary part (LAPACK's dgeev hands back a
    conjugate pair with the positive imaginary part first, so the module really has to reorder)."""
    return np.argsort(np.imag(W))


def sc_dense_cpair(V, P, cfg):
    """A real non-normal 2x2 matrix with the complex-conjugate pair a +- ib, A = [[a, -b c], [b / c, a]] (b > 0, c > 1),
    eigenvectors (c, -+i); LAPACK = oracle returning the pair in dgeev's order (a + ib, a - ib); a user sorting function that
    orders by ascending imaginary part.  Clauses: genuine pairs, bilinear normalisation, order by the sorting function."""
    import pymoto as pym
    a = V.real("a", default=0.5)
    b = V.real("b", positive=True, default=1.25)
    c = V.real("c", positive=True, default=2.0)
    if V.symbolic:
        V.assume(c > 1, "c > 1 (q^T q = c^2 - 1 > 0: the bilinear normalisation is defined)")
    n3 = bool(cfg.get("with_real_eigenvalue"))
    if n3:
        # a third, exactly real eigenvalue d next to the complex pair (spectrum with real AND complex members)
        dd = V.real("d", default=-0.25)
        A = np.array([[a, -b * c, 0], [b / c, a, 0], [0, 0, dd]], dtype=object if V.symbolic else float)
    else:
        A = np.array([[a, -b * c], [b / c, a]], dtype=object if V.symbolic else float)
    if V.symbolic:
        A = wrap(A)
    else:
        A = np.asfortranarray(A)
    m = pym.EigenSolve([pym.Signal("A", A)], sorting_func=_cpair_sort)
    if V.symbolic:
        from symx import factor
        I_ = C(R.of(0), R.of(1))
        Z_, O_ = C(R.of(0), R.of(0)), C(R.of(1), R.of(0))
        if n3:
            W = wrap(np.array([C(a, b), C(a, -b), C(dd, R.of(0))], dtype=object))
            Q = wrap(np.array([[C(c, R.of(0)), C(c, R.of(0)), Z_], [-I_, I_, Z_], [Z_, Z_, O_]], dtype=object))
        else:
            W = wrap(np.array([C(a, b), C(a, -b)], dtype=object))
            Q = wrap(np.array([[C(c, R.of(0)), C(c, R.of(0))], [-I_, I_]], dtype=object))
        factor.register("eig", (W, Q, np.array(np.asarray(A), dtype=object, copy=True), None))
    A_before = np.array(np.asarray(A), copy=True)
    m.response()
    Wo, Qo = np.asarray(m.sig_out[0].state), np.asarray(m.sig_out[1].state)
    obs = dict(n_out=int(np.size(Wo)))
    from .common import NumProver
    Pn = P if P is not None else NumProver(rtol=1e-7)
    nn = 3 if n3 else 2
    Pn.holds("complete-spectrum", Wo.shape == (nn,) and Qo.shape == (nn, nn), kind="shape")
    if Wo.shape == (nn,) and Qo.shape == (nn, nn):
        for i in range(nn):
            Pn.arrays_eq("pair[%d]:A q == lambda q" % i, A_before @ Qo[:, i], Wo[i] * Qo[:, i], kind="genuine-eigenpair")
            Pn.eq("norm[%d]:q^T q == 1" % i, Qo[:, i] @ Qo[:, i], 1, kind="normalisation")
        im = [(w.im if isinstance(w, C) else (R.of(0) if isinstance(w, R) else float(np.imag(w)))) for w in Wo]
        for i in range(nn - 1):
            Pn.holds("order[%d]:by-the-sorting-function (ascending imaginary part)" % i, im[i] <= im[i + 1], kind="ordering")
        Pn.holds("both-eigenvalues-returned", im[nn - 1] > 0, kind="ordering")
    if P is None:
        obs["_num"] = Pn
    return obs


SCEN = dict(dense=sc_dense, sparse=sc_sparse, dense_cpair=sc_dense_cpair)


def run_item(cfg, tier):
    # the concretised twin cannot feed the oracle's (W, Q) to LAPACK: compare only the sizes
    return symbolic_run(SCEN[cfg["kind"]], cfg, tier, max_paths=200, validate=True)


def replay(cfg, label, env, case):
    """Real library: build A (and B) from the model, run EigenSolve with the real LAPACK/ARPACK and evaluate the clause
    family numerically (the oracle's particular eigenpairs are not reproducible, the clauses are)."""
    import warnings
    warnings.simplefilter("ignore")
    import pymoto as pym
    V = Vals(env=env)
    n = cfg["n"]
    if cfg["kind"] == "dense_cpair":
        obs = sc_dense_cpair(V, None, cfg)
        return obs["_num"].verdict(label)
    try:
        if cfg["kind"] == "dense":
            symm, gen = cfg["prob"].endswith("sym"), cfg["prob"].startswith("gen")
            A = _herm(V, "A", n) if cfg["prob"].endswith("herm") else _sym(V, "A", n, symm)
            B = (_pdiag(V, n) if cfg["prob"].endswith("herm") else _spd(V, n)) if gen else None
            # column-major storage: the layout LAPACK can use without a copy; copies for the clauses
            A = np.asfortranarray(A)
            B = np.asfortranarray(B) if gen else None
            A0, B0 = A.copy(), (B.copy() if gen else None)
            sigs = [pym.Signal("A", A)] + ([pym.Signal("B", B)] if gen else [])
            kw = {}
            if _sorting(cfg["sort"]) is not None:
                kw["sorting_func"] = _sorting(cfg["sort"])
            m = pym.EigenSolve(sigs, **kw)
            if cfg.get("after_sym"):
                sigs[0].state = np.asfortranarray(_prelude_matrix(V, n)[0])
                m.response()
                sigs[0].state = A
            m.response()
            W, Q = m.sig_out[0].state, m.sig_out[1].state
            Bm = B0 if gen else np.eye(n)
            bad = []
            if not np.array_equal(A0, np.asarray(m.sig_in[0].state)):
                bad.append("A-unchanged-by-response")
            if gen and not np.array_equal(B0, np.asarray(m.sig_in[1].state)):
                bad.append("B-unchanged-by-response")
            A = A0
            for i in range(n):
                if np.linalg.norm(A @ Q[:, i] - W[i] * (Bm @ Q[:, i])) > 1e-7 * max(1, np.linalg.norm(A)):
                    bad.append("pair[%d]" % i)
                if abs(Q[:, i] @ Bm @ Q[:, i] - 1) > 1e-7:
                    bad.append("norm[%d]" % i)
                if symm and np.real(np.average(Q[:, i])) < -1e-12:
                    bad.append("sign[%d]" % i)
            Wr = np.real(W)
            for i in range(n - 1):
                ok = {"default": Wr[i] <= Wr[i + 1] + 1e-12, "desc": Wr[i] >= Wr[i + 1] - 1e-12,
                      "abs": abs(W[i]) <= abs(W[i + 1]) + 1e-12}[cfg["sort"]]
                if not ok:
                    bad.append("order[%d]" % i)
            hit = [b for b in bad if label.startswith(b.split("[")[0])]
            if label.startswith("library-precondition:"):
                hit = bad        # LAPACK was called outside the oracle's contract: on the real library any failing clause shows it
            return dict(reproduced=bool(hit), detail=dict(failed=bad, W=np.asarray(W).tolist()))
        return _replay_sparse(cfg, label, V)
    except Exception as e:
        return dict(reproduced=label.startswith("exception:"), detail="%s: %s" % (type(e).__name__, str(e)[:200]))


def _replay_sparse(cfg, label, V):
    """Real ARPACK cannot run the n=2/3 pencil of the encoding (k < n - 1 is required), and the clause families of the
    sparse items do not depend on the matrix entries: the replay runs the real EigenSolve on a fixed 8x8 symmetric
    pencil (same nmodes / sigma / generalised flag), spies on the scipy.sparse.linalg call and evaluates the clauses on
    what real ARPACK returned (compared with the dense spectrum)."""
    import pymoto as pym
    import scipy.sparse as sps
    import scipy.sparse.linalg as spsla
    import scipy.linalg as spla
    bad = []
    for frac in (0.1, 0.9):
        N, nm, gen = 8, cfg["nmodes"], cfg["gen"]
        if cfg.get("replay_nmodes") == "n-1":
            nm = N - 1          # the item is about the largest admissible number of modes of the symmetric driver
        d = np.array([4.0, 7.5, 2.5, 9.0, 5.5, 12.0, 3.25, 8.0])
        Ad = np.diag(d) + np.diag(np.full(N - 1, 1.0), 1) + np.diag(np.full(N - 1, 1.0), -1)
        if cfg.get("herm"):     # complex Hermitian: purely imaginary skew part on the second off-diagonal
            Ad = Ad.astype(complex) + 1j * (np.diag(np.linspace(0.3, 0.9, N - 2), 2) - np.diag(np.linspace(0.3, 0.9, N - 2), -2))
        Bd = np.diag(np.linspace(1.0, 2.0, N)) if gen else np.eye(N)
        sigma = float(V.real("sigma", nonzero=True, default=0.5)) if cfg["sigma"] == "sym" else 0.0
        # indefinite w.r.t. the shift: the eigenvalue closest to sigma lies just below it (frac = 0.1: which/mode arguments
        # matter) or just above it (frac = 0.9: ARPACK's distance-to-shift order is not the ascending order)
        W0 = np.sort(spla.eigh(Ad, Bd, eigvals_only=True))
        Ad = Ad - (W0[3] + frac * (W0[4] - W0[3]) - sigma) * Bd
        mk = sps.csr_matrix if cfg.get("fmt") == "csr" else sps.csc_matrix
        sigs = [pym.Signal("A", mk(Ad))] + ([pym.Signal("B", mk(Bd))] if gen else [])
        m = pym.EigenSolve(sigs, nmodes=nm, sigma=sigma, hermitian=True)
        calls = []
        real = dict(eigsh=spsla.eigsh, eigs=spsla.eigs)

        def spy(kind):
            def f(*a, **kw):
                calls.append(dict(kind=kind, kw=dict(kw)))
                return real[kind](*a, **kw)
            return f
        spsla.eigsh, spsla.eigs = spy("eigsh"), spy("eigs")
        try:
            m.response()
        finally:
            spsla.eigsh, spsla.eigs = real["eigsh"], real["eigs"]
        W, Q = np.asarray(m.sig_out[0].state), np.asarray(m.sig_out[1].state)
        if len(calls) != 1:
            bad.append("one-arpack-call")
        for cl in calls[-1:]:
            kw = cl["kw"]
            if cl["kind"] != "eigsh":
                bad.append("eigsh-for-hermitian")
            if kw.get("k") != nm:
                bad.append("k==nmodes")
            if kw.get("which", "LM") != "LM":
                bad.append("which=='LM'")
            if kw.get("mode", "normal") != "normal":
                bad.append("mode=='normal'")
            if kw.get("sigma") != sigma:
                bad.append("sigma-passed")
            if [k_ for k_ in kw if k_ not in ("k", "M", "OPinv", "sigma", "mode", "which", "v0", "ncv", "maxiter", "tol")]:
                bad.append("no-further-arpack-options")
        Wall = np.sort(spla.eigh(Ad, Bd, eigvals_only=True))
        closest = np.sort(Wall[np.argsort(abs(Wall - sigma))[:nm]])
        if W.shape != (nm,) or Q.shape != (N, nm):
            bad.append("nmodes-returned")
        elif not np.allclose(np.sort(np.real(W)), closest, rtol=1e-7, atol=1e-9):
            bad += ["which=='LM'", "OPinv", "sigma-passed", "A-passed", "M-passed", "M-is-None"]   # not the nm values closest to the shift
        for i in range(min(nm, Q.shape[1] if Q.ndim == 2 else 0)):
            if abs(Q[:, i] @ Bd @ Q[:, i] - 1) > 1e-7:
                bad.append("norm[%d]" % i)
            if np.real(np.average(Q[:, i])) < -1e-12:
                bad.append("sign[%d]" % i)
            if np.linalg.norm(Ad @ Q[:, i] - W[i] * (Bd @ Q[:, i])) > 1e-6 * np.linalg.norm(Ad):
                bad += ["pair[%d]" % i, "OPinv"]      # ARPACK was given an operator that does not invert A - sigma B
        for i in range(len(W) - 1):
            if not np.real(W[i]) <= np.real(W[i + 1]) + 1e-12:
                bad.append("order[%d]" % i)
        if cfg.get("again"):
            # second response on the same module: another shift (and another B), the A signal keeps its matrix object
            sigma2 = sigma + 0.45 * (W0[5] - W0[4])
            B2 = np.diag(np.linspace(1.5, 1.0, N)) if gen else np.eye(N)
            m.sigma = sigma2
            if gen:
                sigs[1].state = mk(B2)
            m.response()
            W2, Q2 = np.asarray(m.sig_out[0].state), np.asarray(m.sig_out[1].state)
            Wall2 = np.sort(spla.eigh(Ad, B2, eigvals_only=True))
            closest2 = np.sort(Wall2[np.argsort(abs(Wall2 - sigma2))[:nm]])
            ok2 = W2.shape == (nm,) and np.allclose(np.sort(np.real(W2)), closest2, rtol=1e-7, atol=1e-9)
            if ok2:
                ok2 = all(np.linalg.norm(Ad @ Q2[:, i] - W2[i] * (B2 @ Q2[:, i])) <= 1e-6 * np.linalg.norm(Ad) for i in range(nm))
            if not ok2:
                bad += ["second-response:OPinv", "second-response:sigma-passed", "second-response:one-more-arpack-call"]
    hit = [b for b in bad if label.startswith(b)]
    return dict(reproduced=bool(hit), detail=dict(failed=bad, W=np.real(W).tolist(), closest=closest.tolist(),
                                                  call=[dict(kind=c_["kind"], kw={k_: repr(v_)[:40] for k_, v_ in c_["kw"].items()}) for c_ in calls]))
