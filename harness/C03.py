"""C03 - results depend only on current inputs and seeds, never on call history.

Executed for real: Network/Module response, sensitivity, reset in sequences, on networks with caching components.
Oracle: a freshly constructed identical network evaluated once on the last inputs and seeds.
"""
import copy
import numpy as np

from symx import R, C, SB
from symx.array import wrap, is_complex_content
from .common import symbolic_run, Vals, NumProver
from .catalogue import dense_entries, assume_nonsingular, _mk_sparse

PROPERTY = "C03"
BOUNDS = {
    "quick": dict(histories="6 history shapes with 2-3 response/seed/sensitivity/reset cycles (<= 14 calls), independent "
                            "symbolic inputs and seeds per cycle", templates=["Poisson(1x1,bc)->LinSolve->EinSum",
                  "LinSolve dense 2x2 (general; symmetric->general class change)", "OverhangFilter 2x2 -> EinSum",
                  "DensityFilter 3x2 -> PNorm", "FilterConv 3x2 -> EinSum", "SystemOfEquations n=3", "StaticCondensation n=3",
                  "AssembleGeneral with add_constant"], lda="LDAWrapper off (public attribute) except one template"),
    "thorough": dict(histories="quick shapes + 3-cycle variants", templates="quick templates + LinSolve with LDAWrapper, 3x3"),
}
OUTSIDE = ["iterative solvers with an initial guess (CG) and the ARPACK caches of the sparse EigenSolve", "longer histories",
           "the documented memories (Scaling's first norm, damped AggScaling, writer counters) are not part of the templates"]
ASSUMPTIONS = ["float64 as exact reals", "linear solves: exact factor models / unique explicit solution, so that both networks "
               "produce comparable terms ('to solver tolerance' becomes exact equality)",
               "matrices non-singular in every cycle"]
ITEM_TIMEOUT = {"quick": 240, "thorough": 600}

HIST = {
    "two-cycles": ["set1", "resp", "seed", "sens", "reset", "set2", "resp", "seed", "sens"],
    "repeats": ["set1", "resp", "resp", "seed", "sens", "sens", "reset", "set2", "resp", "seed", "sens"],
    "no-sens-first": ["set1", "resp", "reset", "set2", "resp", "seed", "sens"],
    "reset-twice": ["set1", "resp", "seed", "sens", "reset", "reset", "set2", "resp", "seed", "sens"],
    "three-cycles": ["set1", "resp", "seed", "sens", "reset", "set3", "resp", "seed", "sens", "reset", "set2", "resp", "seed", "sens"],
    "resp-after-sens": ["set1", "resp", "seed", "sens", "resp", "reset", "set2", "resp", "seed", "sens"],
    # several seed/sensitivity/reset passes after ONE response, seeding different outputs (work buffers of a module that
    # reset() cannot clear): last output first, then the first output only
    "partial-seeds": ["set1", "resp", "seedL", "sens", "reset", "seed0", "sens"],
    # per round two passes seeding different outputs/modes, two rounds (caches kept per mode across response())
    "partial-seeds-rounds": ["set1", "resp", "seed0", "sens", "reset", "seedL", "sens", "reset",
                             "set2", "resp", "seed0", "sens", "reset", "seedL", "sens"],
    "partial-seeds-2": ["set1", "resp", "seed0", "sens", "reset", "seedL", "sens", "reset", "set2", "resp", "seed0", "sens"],
}


def items(tier):
    q = tier == "quick"
    out = []
    temps = ["poisson-linsolve", "linsolve-dense", "linsolve-classchange", "linsolve-diagchange", "linsolve-patternchange", "overhang", "densityfilter", "filterconv",
             "sysofeq", "sysofeq-nonsymcoupling", "statcond", "assemble-const", "aggregation-active", "aggregation-scaled", "eigensolve-sparse", "eigensolve-dense",
             "eigensolve-dense-classchange", "assemble-realthencomplex"]
    if not q:
        temps += ["linsolve-dense-lda", "linsolve-classchange-lda", "linsolve-dense3"]
    for t in temps:
        for h in HIST:
            if q and h in ("three-cycles",) and t not in ("linsolve-dense", "overhang"):
                continue
            if h.startswith("partial-seeds") and t not in ("sysofeq", "linsolve-dense", "poisson-linsolve", "statcond", "eigensolve-sparse"):
                continue
            if t.startswith("eigensolve-dense") and h not in ("two-cycles", "no-sens-first"):
                continue
            if t == "assemble-realthencomplex" and h not in ("two-cycles", "no-sens-first"):
                continue
            if t == "eigensolve-sparse" and (h not in ("partial-seeds", "partial-seeds-rounds", "two-cycles") or (q and h == "two-cycles")):
                continue
            if h == "partial-seeds-rounds" and t not in ("eigensolve-sparse", "sysofeq"):
                continue
            out.append(dict(kind="history", id="%s-%s" % (t, h), template=t, hist=h,
                            **(dict(timeout=600) if t == "eigensolve-sparse" and q else {}),
                            **(dict(logical_dtype=True) if t == "assemble-realthencomplex" else {})))
        if t in ("overhang", "densityfilter", "filterconv", "linsolve-dense", "aggregation-active", "assemble-const", "poisson-linsolve",
                 "eigensolve-dense"):
            out.append(dict(kind="history", id="%s-two-cycles-inplace" % t, template=t, hist="two-cycles", inplace=True))
        out.append(dict(kind="unseeded", id="%s-unseeded" % t, template=t))
    return out


# ------------------------------------------------------------------------------------------------
class Net:
    def __init__(self, net, inputs, outputs, allsig, setter):
        self.net, self.inputs, self.outputs, self.allsig, self.set = net, inputs, outputs, allsig, setter


def make(V, template, ncyc=3):
    """Build the network; returns Net whose .set(k) installs the inputs of cycle k (symbols x<k>_...)."""
    import pymoto as pym
    vals = {}

    if template in ("poisson-linsolve",):
        dom = pym.DomainDefinition(1, 1)
        sx = pym.Signal("x")
        sf = pym.Signal("f")
        bc = np.array([0, 2])
        m1 = pym.AssemblePoisson(sx, domain=dom, bc=bc, bcdiagval=V.const(1))
        m2 = pym.LinSolve([m1.sig_out[0], sf])
        m2.use_lda_solver = False
        m3 = pym.EinSum([m2.sig_out[0], sf], expression="i,i->")
        net = pym.Network(m1, m2, m3)

        def setter(k):
            sx.state = V.reals("x%d" % k, 1, positive=True)
            sf.state = V.reals("f%d" % k, 4)
        return Net(net, [sx, sf], [m3.sig_out[0], m2.sig_out[0]], [sx, sf] + [m.sig_out[0] for m in (m1, m2, m3)], setter)

    if template in ("eigensolve-dense", "eigensolve-dense-classchange"):
        # dense EigenSolve re-used over cycles; "-classchange": symmetric matrix in the first cycle, general afterwards
        n = 2
        sA = pym.Signal("A")
        m = pym.EigenSolve([sA])
        net = pym.Network(m)

        def setter(k):
            W = np.array([V.real("W%d_%d" % (k, i), default=0.5 * k + 1.5 * i) for i in range(n)], dtype=object if V.symbolic else float)
            if V.symbolic:
                V.assume(W[0] < W[1], "simple eigenvalues, ascending (eigh contract; eig returns them in the registered order)")
            symmetric = (k == 1) if template.endswith("classchange") else True
            if symmetric:
                t = V.real("t%d" % k, default=0.2 * k)
                den = 1 + t * t
                c_, s2 = (1 - t * t) / den, 2 * t / den
                Q = np.array([[c_, -s2], [s2, c_]], dtype=object if V.symbolic else float)
                Qinv = Q.T
            else:
                Q = np.asarray(V.reals("Q%d" % k, (n, n)))
                if not V.symbolic:
                    Q = Q + np.array([[1.0, 0.25], [-0.5, 1.0]]) * (0.0 if np.abs(Q).sum() > 0 else 1.0)
                detQ = Q[0, 0] * Q[1, 1] - Q[0, 1] * Q[1, 0]
                if V.symbolic:
                    V.assume(detQ != 0, "eigenvector matrix non-singular")
                Qinv = np.array([[Q[1, 1], -Q[0, 1]], [-Q[1, 0], Q[0, 0]]], dtype=object if V.symbolic else float) / detQ
            D = np.array([[W[0], 0], [0, W[1]]], dtype=object if V.symbolic else float)
            A = Q @ D @ Qinv
            if V.symbolic:
                from symx import factor
                A = wrap(np.asarray(A, dtype=object))
                if not symmetric:
                    V.assume(A[0, 1] != A[1, 0], "general class: not symmetric")
                factor.register("eig", (wrap(np.asarray(W, dtype=object)), wrap(np.asarray(Q, dtype=object)),
                                        np.array(np.asarray(A), dtype=object, copy=True)))
            else:
                A = np.asarray(A, dtype=float)
            sA.state = A
        N = Net(net, [sA], [m.sig_out[0], m.sig_out[1]], [sA, m.sig_out[0], m.sig_out[1]], setter)
        return N

    if template == "eigensolve-sparse":
        # sparse EigenSolve (n = 3, two modes) with eigenvector sensitivities: per-mode adjoint factorisations are cached
        # inside the module between sensitivity() calls and across response() calls
        from pymoto.modules import linalg as _la
        from .catalogue import _SingularAdjointOracle
        n = 3
        sA = pym.Signal("A")
        m = pym.EigenSolve([sA], nmodes=2, hermitian=True)
        net = pym.Network(m)
        if V.symbolic:
            if not hasattr(_la, "_symx_real_auto"):
                _la._symx_real_auto = _la.auto_determine_solver
            real_auto = _la._symx_real_auto

            def auto(Z, *a, **kw):
                if kw.get("ispositivedefinite") is False:
                    return _SingularAdjointOracle()
                return real_auto(Z, *a, **kw)
            _la.auto_determine_solver = auto
        elif hasattr(_la, "_symx_real_auto"):
            _la.auto_determine_solver = _la._symx_real_auto

        def setter(k):
            W = np.array([V.real("W%d_%d" % (k, i), positive=True, default=0.5 * k + i) for i in range(n)],
                         dtype=object if V.symbolic else float)
            t = V.real("t%d" % k, default=0.2 * k)
            den = 1 + t * t
            c_, s2 = (1 - t * t) / den, 2 * t / den
            Q = np.array([[c_, -s2, 0], [s2, c_, 0], [0, 0, 1]], dtype=object if V.symbolic else float)
            D = np.array([[W[i] if i == j else 0 for j in range(n)] for i in range(n)], dtype=object if V.symbolic else float)
            A = Q @ D @ Q.T
            if V.symbolic:
                from symx import factor
                V.assume(W[0] < W[1], "0 < W0 < W1 < W2 (the two eigenvalues closest to sigma = 0, ascending)")
                V.assume(W[1] < W[2])
                factor.register("eig", (wrap(np.asarray(W, dtype=object)), wrap(np.asarray(Q, dtype=object))))
                A = wrap(np.asarray(A, dtype=object))
            sA.state = _mk_sparse(V, A)
        N = Net(net, [sA], [m.sig_out[0], m.sig_out[1]], [sA, m.sig_out[0], m.sig_out[1]], setter)
        N.mode_seeds = True
        return N

    if template.startswith("linsolve"):
        n = 3 if template.endswith("dense3") else 2
        sA, sb = pym.Signal("A"), pym.Signal("b")
        if "patternchange" in template:
            # fixed solver class (so that D11's once-only solver choice does not interfere), LDAWrapper on (default)
            m = pym.LinSolve([sA, sb], solver=pym.solvers.SolverDenseLU())
        else:
            m = pym.LinSolve([sA, sb])
            m.use_lda_solver = template.endswith("-lda")
        m3 = pym.EinSum([m.sig_out[0], sb], expression="i,i->")
        net = pym.Network(m, m3)

        def setter(k):
            A = V.reals("A%d" % k, (n, n))
            if "patternchange" in template:
                # symmetric in every cycle; decoupled (diagonal) in the first cycle, coupled afterwards
                A = np.array(A, dtype=object if V.symbolic else float)
                A[1, 0] = A[0, 1]
                if k == 1:
                    A[0, 1] = A[1, 0] = (0 if V.symbolic else 0.0)
                A = wrap(A) if V.symbolic else A
                if V.symbolic and k != 1:
                    V.assume(A[0, 1] != 0)
            elif "diagchange" in template:
                if k == 1:      # first cycle: diagonal matrix (SolverDiagonal)
                    A = np.array(A, dtype=object if V.symbolic else float)
                    A[0, 1] = A[1, 0] = (0 if V.symbolic else 0.0)
                    A = wrap(A) if V.symbolic else A
                elif V.symbolic:
                    V.assume(A[0, 1] != A[1, 0], "later cycles: non-symmetric matrix")
            elif "classchange" in template:
                if k == 1:      # first cycle: symmetric, indefinite (LDL)
                    A = np.array(A, dtype=object if V.symbolic else float)
                    A[1, 0] = A[0, 1]
                    A = wrap(A) if V.symbolic else A
                    if V.symbolic:
                        V.assume(A[0, 0] < 0)
                        V.assume(A[1, 1] > 0)
                else:
                    if V.symbolic:
                        V.assume(A[0, 1] != A[1, 0], "later cycles: non-symmetric matrix")
            elif "patternchange" not in template:
                if V.symbolic:
                    V.assume(A[0, 1] != A[1, 0], "general class: non-symmetric matrix")
            assume_nonsingular(V, A, "A%d" % k)
            sA.state = A
            sb.state = V.reals("b%d" % k, n)
        return Net(net, [sA, sb], [m3.sig_out[0], m.sig_out[0]], [sA, sb, m.sig_out[0], m3.sig_out[0]], setter)

    if template == "overhang":
        dom = pym.DomainDefinition(2, 2)
        sx = pym.Signal("x")
        m = pym.OverhangFilter(sx, domain=dom, direction=[0.0, 1.0])
        m.p, m.q = V.real("p", lo=1, hi=40, default=3.0), V.real("q", positive=True, default=2.5)
        m.eps, m.shift, m.backshift = V.real("eps", positive=True, default=0.01), V.real("shift", positive=True, default=0.001), \
            V.real("backshift", positive=True, default=0.0005)
        sw = pym.Signal("c", V.reals("c", 4))
        m2 = pym.EinSum([m.sig_out[0], sw], expression="i,i->")
        net = pym.Network(m, m2)

        def setter(k):
            sx.state = V.reals("x%d" % k, 4, lo=0, hi=1)
        return Net(net, [sx], [m2.sig_out[0], m.sig_out[0]], [sx, sw, m.sig_out[0], m2.sig_out[0]], setter)

    if template in ("densityfilter", "filterconv"):
        dom = pym.DomainDefinition(3, 2)
        sx = pym.Signal("x")
        if template == "densityfilter":
            m = pym.DensityFilter(sx, domain=dom, radius=V.const("1.5"))
            m2 = pym.PNorm(m.sig_out[0], p=2)
        else:
            m = pym.FilterConv(sx, domain=dom, weights=V.reals("k", (3, 3)), xmin_bc="edge", ymax_bc=V.real("pad", default=0.5))
            sw = pym.Signal("c", V.reals("c", 6))
            m2 = pym.EinSum([m.sig_out[0], sw], expression="i,i->")
        net = pym.Network(m, m2)

        def setter(k):
            sx.state = V.reals("x%d" % k, 6, positive=True)
        return Net(net, [sx], [m2.sig_out[0], m.sig_out[0]], [sx, m.sig_out[0], m2.sig_out[0]], setter)

    if template in ("sysofeq", "statcond", "sysofeq-nonsymcoupling"):
        nonsym_coupling = template == "sysofeq-nonsymcoupling"
        if nonsym_coupling:
            template = "sysofeq"
        n = 3
        sA = pym.Signal("A")
        if template == "sysofeq":
            sb, sxp = pym.Signal("bf"), pym.Signal("xp")
            m = pym.SystemOfEquations([sA, sb, sxp], free=np.array([0, 2]), prescribed=np.array([1]))
            m.module_LinSolve.use_lda_solver = False
            ins = [sA, sb, sxp]
        else:
            m = pym.StaticCondensation(sA, main=np.array([0]), free=np.array([1, 2]))
            ins = [sA]
        net = pym.Network(m)

        def setter(k):
            A = V.reals("A%d" % k, (n, n))
            A = np.array(A, dtype=object if V.symbolic else float)
            fr = [0, 2] if template == "sysofeq" else [1, 2]
            for i in range(n):
                for j in range(i):
                    if nonsym_coupling and not (i in fr and j in fr):
                        continue        # symmetric free-free block, coupling blocks A_fp and A_pf independent of each other
                    A[i, j] = A[j, i]
            A = wrap(A) if V.symbolic else A
            assume_nonsingular(V, np.asarray(A)[np.ix_(fr, fr)], "A_ff")
            if V.symbolic:
                V.assume(np.asarray(A)[fr[0], fr[1]] != 0, "A_ff keeps its class (symmetric, not diagonal) in every cycle; "
                         "class changes are the linsolve-classchange / linsolve-diagchange templates")
            sA.state = _mk_sparse(V, A)
            if template == "sysofeq":
                sb.state = V.reals("bf%d" % k, 2)
                sxp.state = V.reals("xp%d" % k, 1)
        return Net(net, ins, list(m.sig_out), ins + list(m.sig_out), setter)

    if template in ("assemble-const", "assemble-realthencomplex"):
        dom = pym.DomainDefinition(1, 1)
        sx = pym.Signal("x")
        Kc = _mk_sparse(V, V.reals("Kc", (4, 4)))
        m = pym.AssembleGeneral(sx, domain=dom, element_matrix=V.reals("Ke", (4, 4)), add_constant=Kc, bc=np.array([1]))
        net = pym.Network(m)

        def setter(k):
            if template == "assemble-realthencomplex" and k >= 2:
                # complex scaling in a later cycle (complex-step check, loss-factor damping) on the same module
                sx.state = V.cplxs("x%d" % k, 1)
                return
            sx.state = V.reals("x%d" % k, 1)
        return Net(net, [sx], list(m.sig_out), [sx] + list(m.sig_out), setter)

    if template == "aggregation-active":
        sx = pym.Signal("x")
        m = pym.KSFunction(sx, rho=V.real("rho", positive=True, default=1.5),
                           active_set=pym.AggActiveSet(lower_amt=V.const("0.4")))
        net = pym.Network(m)

        def setter(k):
            sx.state = V.reals("x%d" % k, 3, positive=True)
        return Net(net, [sx], list(m.sig_out), [sx] + list(m.sig_out), setter)
    if template == "aggregation-scaled":
        # undamped AggScaling (damping 0): the correction factor refers to the current input only - no memory
        sx = pym.Signal("x")
        m = pym.KSFunction(sx, rho=V.real("rho", positive=True, default=1.5), scaling=pym.AggScaling("max"))
        net = pym.Network(m)

        def setter(k):
            sx.state = V.reals("x%d" % k, 2, positive=True)
        return Net(net, [sx], list(m.sig_out), [sx] + list(m.sig_out), setter)
    raise ValueError(template)


def _seed(V, N, k, which="all"):
    if getattr(N, "mode_seeds", False) and which != "all":
        # eigen-template: `which` selects the MODE whose eigenvector column is seeded (other columns exactly zero)
        Qs = N.outputs[1]
        ent = np.asarray(dense_entries(Qs.state), dtype=object if V.symbolic else float)
        w = np.zeros(ent.shape, dtype=object if V.symbolic else float)
        col = which[0] if which[0] < ent.shape[1] else ent.shape[1] - 1
        for i in range(ent.shape[0]):
            w[i, col] = V.real("w%d_q%d_%d" % (k, col, i), nonzero=True, default=0.5 + 0.25 * i)
        Qs.sensitivity = wrap(w) if V.symbolic else w
        return
    for j, s in enumerate(N.outputs):
        if which == "all" or j in which:
            ent = dense_entries(s.state)
            if np.ndim(ent) == 0:
                s.sensitivity = V.real("w%d_%d" % (k, j))
            else:
                s.sensitivity = V.reals("w%d_%d" % (k, j), np.shape(ent))


def _snapall(N):
    out = []
    for s in N.allsig:
        st, se = dense_entries(s.state), dense_entries(s.sensitivity)
        out.append((None if st is None else np.array(st, dtype=object, copy=True),
                    None if se is None else np.array(se, dtype=object, copy=True)))
    return out


def sc_history(V, P, cfg):
    N = make(V, cfg["template"])
    last = None
    last_which = "all"
    k = 0
    for stp in HIST[cfg["hist"]]:
        if stp.startswith("set"):
            k = int(stp[3:])
            olds = [sg.state for sg in N.inputs]
            N.set(k)
            if cfg.get("inplace") and last is not None:
                # the user updates the SAME input arrays in place (x[:] = new design) instead of binding new ones
                for sg, old in zip(N.inputs, olds):
                    new = sg.state
                    if isinstance(old, np.ndarray) and isinstance(new, np.ndarray) and old.shape == new.shape and old.dtype == new.dtype:
                        old[...] = new
                        sg.state = old
            last = k
        elif stp == "resp":
            N.net.response()
        elif stp == "seed":
            _seed(V, N, k)
            last_which = "all"
        elif stp in ("seed0", "seedL"):
            last_which = [0] if stp == "seed0" else [len(N.outputs) - 1]
            _seed(V, N, k, which=last_which)
        elif stp == "sens":
            N.net.sensitivity()
        elif stp == "reset":
            N.net.reset()
            if P is not None:
                for i, s in enumerate(N.allsig):
                    P.holds("reset-clears[%d]" % i, s.sensitivity is None, kind="reset-clears")
    hist_snap = _snapall(N)
    # fresh identical network, evaluated once on the last inputs and seeds
    F = make(V, cfg["template"])
    F.set(last)
    F.net.response()
    _seed(V, F, last, which=last_which)
    F.net.sensitivity()
    fresh_snap = _snapall(F)
    obs = {}
    for i, ((st, se), (fst, fse)) in enumerate(zip(hist_snap, fresh_snap)):
        obs["state%d" % i], obs["sens%d" % i] = st, se
        if P is not None:
            _cmp(P, "state[%d]" % i, st, fst, "state-equals-fresh")
            _cmp(P, "sensitivity[%d]" % i, se, fse, "sensitivity-equals-fresh")
    return obs


def sc_unseeded(V, P, cfg):
    """sensitivity() without any seed changes nothing."""
    N = make(V, cfg["template"])
    N.set(1)
    N.net.response()
    before = _snapall(N)
    N.net.sensitivity()
    after = _snapall(N)
    obs = {}
    for i, ((st, se), (st2, se2)) in enumerate(zip(before, after)):
        obs["state%d" % i] = st2
        if P is not None:
            _cmp(P, "state[%d]" % i, st2, st, "unseeded-sensitivity-changes-nothing")
            P.holds("sensitivity-none[%d]" % i, se2 is None, kind="unseeded-sensitivity-changes-nothing")
    return obs


def _cmp(P, label, a, b, kind):
    if a is None or b is None:
        P.holds(label + ".none", (a is None) == (b is None), kind=kind)
        return
    P.arrays_eq(label, a, b, kind=kind)


SCEN = dict(history=sc_history, unseeded=sc_unseeded)


def run_item(cfg, tier):
    from symx import oracles
    oracles.CRAMER_MAX_N = 4
    if cfg.get("logical_dtype"):
        from symx.array import enable_logical_dtype
        enable_logical_dtype(True)      # forked worker only: NumPy's real/complex assignment and in-place rules
    return symbolic_run(SCEN[cfg["kind"]], cfg, tier, max_paths=cfg.get("max_paths", 80), rtol=1e-5)


def replay(cfg, label, env, case):
    import warnings
    warnings.simplefilter("ignore")
    V = Vals(env=env)
    if label.startswith("exception:"):
        try:
            SCEN[cfg["kind"]](V, None, cfg)
        except Exception as e:
            return dict(reproduced=type(e).__name__ == label.split(":", 1)[1], detail="%s: %s" % (type(e).__name__, str(e)[:300]))
        return dict(reproduced=False, detail="no exception on the real library")
    P = NumProver(rtol=1e-6)
    SCEN[cfg["kind"]](V, P, cfg)
    return P.verdict(label)
