"""C14 - the overhang filter prints layer by layer in the requested direction.

Executed for real (pymoto/modules/filter.py): OverhangFilter._prepare (direction parsing, validation),
OverhangFilter._response (layer sweep with support masks), through the public constructor / response().

Work item families (cfg["kind"]):
  string-symx       (a) direction STRINGS of unbounded length: the public constructor runs on a symbolic `str` subclass
                    (symx/symstr.py) whose membership tests are z3 string-theory atoms (`Contains`, lower-casing through
                    Python's own Unicode tables); every path is compared with the clause; witnesses are concrete strings.
  string-crosshair  (a) direction STRINGS, second solver: CrossHair (z3 back end) drives _prepare on an object made
                    with object.__new__ and searches all str with len <= 3 (any characters) for a violation of
                    "ValueError, or the unit vector of the named axis, negative iff the string contains '-'".
                    A printed counterexample is replayed on the real code; "Confirmed over all paths" discharges;
                    anything else is inconclusive.  A second condition (len <= 1) is small enough for CrossHair to
                    exhaust; a reachability twin ("every string is rejected") must be refuted.
  string-enum       (a) cross-check, NOT solver-decided: all 820 strings of length <= 3 over {x,y,z,X,Y,Z,+,-,' '}
                    run concretely through the public constructor.
  vector            (b) direction vectors, lists / tuples / arrays of length 2 and 3, axis-aligned, either sign,
                    SYMBOLIC positive magnitude (the engine's asarray stand-in accepts symbolic entries).
  vector-enum       (b) the same concretely with magnitudes 1, 2.5, 1e-3, 4e5 (real np.asarray path).
  forward           (c) output == reference recursion (Langelaar) written per element with explicit neighbour
                    lists; base layer == input; y_i <= x_i + sqrt(eps)/2; y_i <= smax_i + sqrt(eps)/2.
  equivariance      (d) mirrored / axis-swapped field in the mapped direction == mirrored / swapped result.
"""
import ast
from fractions import Fraction
import itertools
import os
import re
import subprocess
import sys
import time
import numpy as np

from symx import R, SB
from symx import npshim
from symx.array import SymArray
from .common import symbolic_run, Vals, _jsonable

PROPERTY = "C14"
BOUNDS = {
    "quick": dict(strings="all str with len <= 3 (CrossHair, refutation / len <= 1 exhaustive); 820 strings over "
                          "{x,y,z,X,Y,Z,+,-,space} enumerated", vectors="list/tuple/array, length 2 and 3, 6 axis directions, "
                  "symbolic magnitude > 0 (+ enumerated 1, 2.5, 1e-3, 4e5)",
                  forward_meshes=["2x2", "3x2", "2x3", "3x2x2", "2x2x3"], directions="all 4 (2D) / 6 (3D)", nsampling=[3, 5, 9],
                  parameters="symbolic 1 < p <= 40, q > 0, shift > 0, backshift > 0, eps > 0; x in [0,1]",
                  equivariance="mirror x, mirror y, swap x<->y on 2x2, 3x2, 2x3"),
    "thorough": dict(strings="as quick", vectors="as quick",
                     forward_meshes=["2x2", "3x2", "2x3", "3x3", "4x3", "3x4", "2x2x2", "3x2x2", "2x3x2", "2x2x3"],
                     directions="all 4 (2D) / 6 (3D)",
                     nsampling=[3, 5, 9], parameters="as quick",
                     equivariance="mirrors of every axis, swaps x<->y (2D) and x<->y, x<->z, y<->z (3D)"),
}
OUTSIDE = ["the quantitative clauses 'fully supported solid stays solid' / 'unsupported material is removed' (magnitudes of "
           "x^p-type terms for p ~ 40: transcendental, not encodable with uninterpreted POW)",
           "set_parameters (q, shift, backshift computed from xi_0, p and the float type): the parameters are set through the "
           "public attributes to free positive symbols, which covers the values set_parameters produces",
           "meshes beyond the grid", "strings longer than 3 characters; strings of length 2..3 outside the enumerated alphabet "
           "are only searched (CrossHair refutation), not exhausted",
           "IEEE rounding; densities for which a support value + shift is not positive (POW of a non-positive base)",
           "OverhangFilter._sensitivity (C01 / C04)"]
ASSUMPTIONS = ["float64 arithmetic modelled as exact real arithmetic",
               "POW(b, e) (non-integer / symbolic exponents) and SQRT are uninterpreted functions with ground instances of "
               "SQRT(t) >= 0, SQRT(t)^2 == t and the POW axioms of symx.axioms; POW bases are positive on the explored paths "
               "(path-scoped definedness)",
               "element numbering e = i + nelx*(j + nely*k) (C13)",
               "support sets: 2D {-1,0,+1} along the in-layer axis; 3D nsampling 5 = centre + 4 edge neighbours, 9 = 3x3 block "
               "(Langelaar 2016/2017), elements outside the domain are skipped"]
ITEM_TIMEOUT = {"quick": 240, "thorough": 600}
REPLAYS_PER_GROUP = 2

VERIF = os.path.dirname(os.path.dirname(os.path.abspath(__file__)))
ALPHABET = "xyzXYZ+- "
LAST = {}


# ------------------------------------------------------------------------------------------------
class Chk:
    def __init__(self, P):
        self.P = P
        self.fails = {}
        LAST["chk"] = self

    def eq(self, label, a, b, kind, relative=False):
        """relative=True: quantities that are tiny by design (shift ~ 1e-76) are compared relative to their own size."""
        if self.P is not None:
            self.P.eq(label, a, b, kind=kind)
        else:
            try:
                a, b = float(a), float(b)
            except (TypeError, ValueError):
                self.fails[label] = "non-numeric value %r vs %r" % (a, b)
                return
            if not abs(a - b) <= 1e-9 * max(0.0 if relative else 1.0, abs(a), abs(b)):
                self.fails[label] = "%r != %r" % (a, b)

    def le(self, label, a, b, kind):
        if self.P is not None:
            if R.of(a) is None or R.of(b) is None:
                return self.P.holds(label, False, kind=kind)      # a non-numeric output is a failed clause
            return self.P.holds(label, R.of(a) <= R.of(b), kind=kind)
        else:
            try:
                a, b = float(a), float(b)
            except (TypeError, ValueError):
                self.fails[label] = "non-numeric value %r vs %r" % (a, b)
                return
            if not a <= b + 1e-9 * max(1.0, abs(a), abs(b)):
                self.fails[label] = "%r > %r" % (a, b)

    def true(self, label, cond, kind, info=None):
        if self.P is not None:
            self.P.holds(label, cond, kind=kind)
        elif not bool(cond):
            self.fails[label] = info if info is not None else "condition is False"


# ------------------------------------------------------------------------------------------------
# (a) strings
def expected_from_string(s):
    """Unit vector named by the string (property text), None if it does not name exactly one axis."""
    low = s.lower()
    named = [i for i, a in enumerate("xyz") if a in low]
    if len(named) != 1:
        return None
    e = [0.0, 0.0, 0.0]
    e[named[0]] = -1.0 if "-" in s else 1.0
    return e


def documented_forms():
    out = []
    for a in "xyzXYZ":
        out += [a, "+" + a, a + "+", "-" + a, a + "-"]
    return out


_DOMS = {}


def _dom(dim):
    import pymoto as pym
    if dim not in _DOMS:
        _DOMS[dim] = pym.DomainDefinition(2, 2, 2 if dim == 3 else 0)
    return _DOMS[dim]


DOCUMENTED = set(documented_forms())


def parse_public(s, dim=3, bare=False):
    """The real parser; returns ('ok', vector) / ('ValueError', msg) / ('other', msg).
    bare=False: the public constructor OverhangFilter(Signal, domain=..., direction=s);
    bare=True:  OverhangFilter._prepare on an object made with object.__new__ (no Module.__init__, whose
                inspect.stack() calls cost ~50 ms per object) - used for the bulk of the enumeration."""
    import pymoto as pym
    dom = _dom(dim)
    try:
        if bare:
            m = object.__new__(pym.OverhangFilter)
            m._prepare(dom, direction=s)
        else:
            m = pym.OverhangFilter(pym.Signal("x", np.zeros(dom.nel)), domain=dom, direction=s)
    except ValueError as e:
        return "ValueError", str(e)[:80]
    except Exception as e:
        return "other", "%s: %s" % (type(e).__name__, str(e)[:80])
    return "ok", [float(v) for v in m.direction]


def string_verdict(s, dim=3, bare=False):
    """None if the clause holds for s, else a description of the failure."""
    st, val = parse_public(s, dim, bare)
    exp = expected_from_string(s)
    if st == "ValueError":
        if s in DOCUMENTED and not (dim == 2 and "z" in s.lower()):
            return "documented form %r rejected: %s" % (s, val)
        return None
    if st == "other":
        if dim == 2 and exp is not None and exp[2] != 0 and val.startswith("AssertionError"):
            return None          # z direction on a 2D domain is refused by design
        return "raised %s" % val
    if exp is None:
        return "accepted although it does not name exactly one axis: parsed %r" % (val,)
    if val != exp:
        return "parsed %r, expected %r" % (val, exp)
    return None


def all_strings(maxlen=3):
    for n in range(maxlen + 1):
        for t in itertools.product(ALPHABET, repeat=n):
            yield "".join(t)


def failing_strings():
    return [s for s in all_strings() if string_verdict(s, bare=True) is not None]


def sc_string_enum(V, P, cfg):
    K = Chk(P)
    lo, hi = cfg["range"]
    strs = list(all_strings())[lo:hi]
    nacc = 0
    for s in strs:
        v = string_verdict(s, bare=True)
        K.true("string %r" % s, v is None, "direction-string", info=v)
        if v is not None or s in DOCUMENTED:
            # failing strings and the documented forms also through the public constructor
            v2 = string_verdict(s)
            K.true("string(public constructor) %r" % s, v2 is None, "direction-string-public", info=v2)
        if expected_from_string(s) is not None:
            nacc += 1
    if cfg.get("dim2"):
        for s in documented_forms():
            v = string_verdict(s, dim=2)
            K.true("string(2D domain) %r" % s, v is None, "direction-string-2d", info=v)
    return dict(named_one_axis=float(nacc))


CONTRACT = '''"""CrossHair contracts for the direction-string parser of pymoto.OverhangFilter._prepare (C14a).

Generated by harness/C14.py (do not edit by hand).  Run with PYTHONPATH=<repo>:
    python -m crosshair check --report_all --per_condition_timeout 30 crosshair_units/c14_direction.py:<line>

OverhangFilter._prepare is driven on an object made with object.__new__ (Module.__init__ calls
inspect.stack(), which is very slow under tracing - DESIGN.md 3.9).
"""
from pymoto import DomainDefinition
from pymoto.modules.filter import OverhangFilter

_DOM = DomainDefinition(2, 2, 2)


def parse(direction):
    m = object.__new__(OverhangFilter)
    m._prepare(_DOM, direction=direction)
    return [float(v) for v in m.direction]


def expected(direction):
    """Unit vector named by the string, or None if it does not name exactly one axis."""
    low = direction.lower()
    named = [i for i, a in enumerate("xyz") if a in low]
    if len(named) != 1:
        return None
    e = [0.0, 0.0, 0.0]
    e[named[0]] = -1.0 if "-" in direction else 1.0
    return e


def direction_string_ok_len3(direction: str) -> bool:
    """
    pre: len(direction) <= 3
    post: __return__
    """
    try:
        d = parse(direction)
    except ValueError:
        return True
    return d == expected(direction)


def direction_string_ok_len1(direction: str) -> bool:
    """
    pre: len(direction) <= 1
    post: __return__
    """
    try:
        d = parse(direction)
    except ValueError:
        return True
    return d == expected(direction)


def twin_parser_rejects_everything(direction: str) -> bool:
    """
    Reachability twin (must be REFUTED): claims that every string is rejected.
    pre: len(direction) <= 3
    post: __return__
    """
    try:
        parse(direction)
    except ValueError:
        return True
    return False
'''


def _contract_file():
    d = os.path.join(VERIF, "crosshair_units")
    path = os.path.join(d, "c14_direction.py")
    try:
        with open(path) as f:
            if f.read() == CONTRACT:
                return path
    except OSError:
        pass
    os.makedirs(d, exist_ok=True)
    tmp = path + ".%d.tmp" % os.getpid()
    with open(tmp, "w") as f:
        f.write(CONTRACT)
    os.replace(tmp, path)
    return path


def _run_crosshair(func, timeout_s):
    """-> (verdict, counterexample or None, raw output).  verdict: refuted / confirmed / inconclusive."""
    path = _contract_file()
    line = None
    for i, ln in enumerate(CONTRACT.splitlines(), 1):
        if ln.startswith("def %s(" % func):
            line = i + 1
    repo = os.environ.get("SYMX_REPO", "/repo")
    env = dict(os.environ, PYTHONPATH=repo, PYTHONDONTWRITEBYTECODE="1")
    cmd = [sys.executable, "-m", "crosshair", "check", "--report_all", "--per_condition_timeout", str(timeout_s),
           "%s:%d" % (path, line)]
    try:
        r = subprocess.run(cmd, cwd=VERIF, env=env, capture_output=True, text=True, timeout=3 * timeout_s + 60)
        out = (r.stdout or "") + (r.stderr or "")
    except subprocess.TimeoutExpired:
        return "inconclusive", None, "crosshair process timed out"
    m = re.search(r"error: (.*?) when calling %s\((.*?)\)(?: \(which returns|\s*$)" % re.escape(func), out, re.M)
    if m:
        arg = m.group(2).strip()
        arg = re.sub(r"^direction\s*=\s*", "", arg)
        try:
            s = ast.literal_eval(arg)
        except Exception:
            return "inconclusive", None, out[-600:]
        if not isinstance(s, str):
            return "inconclusive", None, out[-600:]
        return "refuted", s, out[-600:]
    if "Confirmed over all paths" in out:
        return "confirmed", None, out[-600:]
    return "inconclusive", None, out[-600:]


def _manual_result(cfg, t0):
    return dict(item=cfg.get("id"), kind=cfg.get("kind"), cfg=_jsonable(cfg), obligations=[], paths=1, aborted=0,
                exceptions=[], errors=[], notes=[], samples=[], validated=0,
                vacuity=dict(paths_sat=1, paths_unknown=0, paths_unsat=0), stats={}, solver_time=0.0,
                stubs=["CrossHair 0.0.x (z3 back end) symbolic str"], assumptions=[], budget_hit=False, wall=0.0)


def run_crosshair_item(cfg, tier):
    t0 = time.time()
    out = _manual_result(cfg, t0)
    func = cfg["func"]
    verdict, cex, raw = _run_crosshair(func, cfg["timeout_s"])
    dt = time.time() - t0
    o = dict(label="crosshair:%s" % func, kind="direction-string-crosshair", nontrivial=True, path=0,
             key="ch-" + func, time=round(dt, 2), model=None)
    if cfg.get("twin"):
        # reachability twin: a refutation shows that accepted strings are reachable under tracing
        if verdict == "refuted":
            out["notes"].append("reachability twin refuted with %r (as it must be)" % (cex,))
            o.update(status="unsat", stage="solver-crosshair-twin-refuted", nontrivial=False)
        else:
            o.update(status="unknown", stage="solver-crosshair-twin:" + verdict)
            out["notes"].append("reachability twin NOT refuted: " + raw[-200:])
    elif verdict == "refuted":
        o.update(status="sat", stage="solver-crosshair", model={"direction": cex})
    elif verdict == "confirmed":
        o.update(status="unsat", stage="solver-crosshair")
    else:
        o.update(status="unknown", stage="solver-crosshair:" + (raw.strip().splitlines()[-1][-80:] if raw.strip() else "no output"))
    out["obligations"].append(o)
    out["solver_time"] = dt
    out["wall"] = dt
    return out


# ------------------------------------------------------------------------------------------------
# (b) vectors
def _unit(axis, sign, length=3):
    e = [0.0] * 3
    e[axis] = float(sign)
    return e


def _container(V, comps, how):
    if how == "list":
        return list(comps)
    if how == "tuple":
        return tuple(comps)
    return np.array(comps, dtype=object) if V.symbolic else np.array(comps, dtype=float)


def sc_vector(V, P, cfg):
    import pymoto as pym
    K = Chk(P)
    obs = {}
    mag = V.real("mag", positive=True, default=2.5)
    for dim, length, axis, sign, how in _vector_grid():
        dom = pym.DomainDefinition(2, 2, 2 if dim == 3 else 0)
        comps = [0.0] * length
        comps[axis] = mag if sign > 0 else -mag
        lab = "%dD-%s%d-%s%s" % (dim, how, length, "+" if sign > 0 else "-", "xyz"[axis])
        if dim == 2 and axis == 2:
            # a z direction on a 2D domain must be refused
            try:
                pym.OverhangFilter(pym.Signal("x", np.zeros(dom.nel)), domain=dom, direction=_container(V, comps, how))
                K.true(lab + ":refused", False, "direction-vector", info="z direction accepted on a 2D domain")
            except AssertionError:
                K.true(lab + ":refused", True, "direction-vector")
            continue
        cont = _container(V, comps, how)
        m = pym.OverhangFilter(pym.Signal("x", np.zeros(dom.nel)), domain=dom, direction=cont)
        d = m.direction
        K.true(lab + ":len", len(d) == 3, "direction-vector")
        exp = _unit(axis, sign)
        for a in range(3):
            K.eq(lab + ":d[%d]" % a, d[a], exp[a], "direction-vector")
        if how == "array":
            # the caller's array is an argument: it keeps its values (a non-unit vector is not normalised in place)
            for a in range(length):
                K.eq(lab + ":argument-unchanged[%d]" % a, cont[a], comps[a], "direction-vector-argument")
        obs[lab] = np.array(d, dtype=(object if V.symbolic else float), copy=True)
    return obs


def _vector_grid():
    for dim in (2, 3):
        for length in (2, 3):
            for axis in range(length):
                for sign in (+1, -1):
                    for how in ("list", "tuple", "array"):
                        yield dim, length, axis, sign, how


def sc_vector_enum(V, P, cfg):
    import pymoto as pym
    K = Chk(P)
    n = 0
    for mag in (1.0, 2.5, 1e-3, 4e5):
        for dim, length, axis, sign, how in _vector_grid():
            if dim == 2 and axis == 2:
                continue
            dom = pym.DomainDefinition(2, 2, 2 if dim == 3 else 0)
            comps = [0.0] * length
            comps[axis] = sign * mag
            c = list(comps) if how == "list" else (tuple(comps) if how == "tuple" else np.array(comps))
            m = pym.OverhangFilter(pym.Signal("x", np.zeros(dom.nel)), domain=dom, direction=c)
            got = [float(v) for v in m.direction]
            K.true("%dD-%s%d-%s%s-mag%g" % (dim, how, length, "+" if sign > 0 else "-", "xyz"[axis], mag),
                   got == _unit(axis, sign), "direction-vector-enum", info=got)
            n += 1
    return dict(n=float(n))


# ------------------------------------------------------------------------------------------------
# (c) the reference recursion
def elem(c, n):
    return c[0] + n[0] * (c[1] + n[1] * c[2])


def _sqrt(v):
    return npshim.sqrt(v)


def ref_overhang(x, n, dim, axis, sign, nsamp, p, q, shift, backshift, eps):
    """Langelaar's layer recursion, per element, explicit neighbour lists.  n = (nx, ny, nz >= 1).
    Returns (y, smax, base elements, roots); smax[e] / roots[e] are None on the base layer; roots[e] is the
    term sqrt((x_e - smax_e)^2 + eps) of the smooth minimum."""
    N = n[0] * n[1] * n[2]
    y = [None] * N
    smax = [None] * N
    roots = [None] * N
    powed = {}
    inplane = [a for a in range(3) if a != axis]
    if dim == 2:
        u_axis = [a for a in (0, 1) if a != axis][0]
        offs = [{u_axis: -1}, {u_axis: 0}, {u_axis: 1}]
    else:
        a1, a2 = inplane
        offs = [{a1: 0, a2: 0}, {a1: -1, a2: 0}, {a1: 1, a2: 0}, {a1: 0, a2: -1}, {a1: 0, a2: 1}]
        if nsamp == 9:
            offs += [{a1: -1, a2: -1}, {a1: -1, a2: 1}, {a1: 1, a2: -1}, {a1: 1, a2: 1}]
    layers = list(range(n[axis])) if sign > 0 else list(range(n[axis] - 1, -1, -1))
    ranges = [range(n[0]), range(n[1]), range(n[2])]
    base = []
    for li, L in enumerate(layers):
        rr = list(ranges)
        rr[axis] = [L]
        for c in itertools.product(*rr):
            e = elem(c, n)
            if li == 0:
                y[e] = x[e]
                base.append(e)
                continue
            keep = 0
            for o in offs:
                s = list(c)
                s[axis] = L - sign
                for a, da in o.items():
                    s[a] = s[a] + da
                if all(0 <= s[a] < n[a] for a in range(3)):
                    es = elem(s, n)
                    if es not in powed:
                        powed[es] = (y[es] + shift) ** p
                    keep = keep + powed[es]
            sm = keep ** (1 / q) - backshift
            smax[e] = sm
            r = x[e] - sm
            roots[e] = _sqrt(r * r + eps)
            y[e] = (x[e] + sm - roots[e] + _sqrt(eps)) / 2
    return y, smax, base, roots


def _dirvec(axis, sign, dim):
    v = [0.0] * dim
    v[axis] = float(sign)
    return v


def _params(V):
    p = V.real("p", lo=1, hi=40, default=3.0)
    if V.symbolic:
        V.assume(p > 1)
    q = V.real("q", positive=True, default=2.5)
    eps = V.real("eps", positive=True, default=0.01)
    shift = V.real("shift", positive=True, default=0.001)
    backshift = V.real("backshift", positive=True, default=0.0005)
    return p, q, shift, backshift, eps


def _make(V, mesh, x, direction, nsamp, prm):
    import pymoto as pym
    dom = pym.DomainDefinition(*mesh)
    kw = {}
    if nsamp is not None:
        kw["nsampling"] = nsamp
    sig = pym.Signal("x", x)
    m = pym.OverhangFilter(sig, domain=dom, direction=direction, **kw)
    m.p, m.q, m.shift, m.backshift, m.eps = prm      # public attributes (set_parameters is not run)
    return m


def sc_forward(V, P, cfg):
    K = Chk(P)
    mesh = tuple(cfg["mesh"])
    dim = 3 if mesh[2] else 2
    n = (mesh[0], mesh[1], max(mesh[2], 1))
    N = n[0] * n[1] * n[2]
    axis, sign, nsamp = cfg["axis"], cfg["sign"], cfg.get("nsampling")
    x = V.reals("x", N, lo=0, hi=1)
    prm = _params(V)
    p, q, shift, backshift, eps = prm
    m = _make(V, mesh, x, _dirvec(axis, sign, dim), None if cfg.get("default_nsampling") else nsamp, prm)
    xin = np.array(x, dtype=object if V.symbolic else float, copy=True)
    m.response()
    y = m.sig_out[0].state
    obs = dict(y=y)
    _sat_hints(V, m, xin, eps)
    yr, sr, base, roots = ref_overhang(xin, n, dim, axis, sign, nsamp or (3 if dim == 2 else 5), p, q, shift, backshift, eps)
    K.true("len(y)", len(y) == N, "shape")
    root0 = _sqrt(eps)
    half = root0 / 2
    for e in range(N):
        K.eq("y[%d]==ref" % e, y[e], yr[e], "value==reference")
        if e in base:
            K.eq("base:y[%d]==x" % e, y[e], xin[e], "base-layer")
        else:
            K.eq("smax[%d]==ref" % e, m.smax[e], sr[e], "smax==reference")
            # the two bounds need only the axioms of this element's own square root and of sqrt(eps)
            for lab, rhs, kd in (("y[%d]<=x+sqrt(eps)/2" % e, xin[e] + half, "bound-x"),
                                 ("y[%d]<=smax+sqrt(eps)/2" % e, sr[e] + half, "bound-smax")):
                with _OnlyAxioms(V, [roots[e], root0]):
                    o = K.le(lab, y[e], rhs, kd)
                if o is not None and o.status != "unsat":
                    P.obls.remove(o)          # not closed with the two instances: decide it with the engine's selection
                    K.le(lab, y[e], rhs, kd)
    return obs


def _sat_hints(V, m, x, eps):
    """Acceleration of the satisfiability checks of the path (vacuity guard, branch feasibility), which are erratic
    for >= 3 layers (nested square roots; measured 0.1 s .. > 60 s for the same query): a model of
    `constraints + hints` is a model of `constraints`, so the context first tries the query together with the hints
    x_e == smax_e, eps == 1/100 (every square root becomes rational) and falls back to the plain query otherwise.
    Nothing is assumed: `sat` is only ever answered with a model of the original constraints, every other answer
    comes from the unmodified query."""
    if not V.symbolic:
        return
    import z3
    c = V.c
    hints = []
    for e in range(len(x)):
        h = (x[e] == m.smax[e])
        if isinstance(h, SB):
            hints.append(h.t)
    h = (eps == R.of("1/100"))
    if isinstance(h, SB):
        hints.append(h.t)
    c._c14_hints = hints
    if getattr(c, "_c14_wrapped", False):
        return
    c._c14_wrapped = True
    orig = type(c).check

    def check(extra=(), timeout_ms=None):
        hs = getattr(c, "_c14_hints", None)
        if hs:
            r, sv = orig(c, list(extra) + list(hs), timeout_ms)
            if r == z3.sat:
                return r, sv
        return orig(c, extra, timeout_ms)
    c.check = check


class _OnlyAxioms:
    """Relevance filter: inside the block the solver gets, of all ground axiom instances, only
    s >= 0 and s*s == t (for t >= 0) of the listed square-root symbols s = sqrt(t) (symx.axioms.root keeps the
    radicand of every root symbol in ctx._root_defs).  The engine's own relevance scoping follows the radicands
    transitively into the roots of the supporting layers; the two bounds do not need those.  Dropping true axiom
    instances can only turn `unsat` into `sat`/`unknown`, never the other way round."""

    def __init__(self, V, roots):
        self.c = V.c if V.symbolic else None
        self.roots = roots

    def __enter__(self):
        if self.c is None:
            return self
        import z3
        defs = getattr(self.c, "_root_defs", {})
        axs = []
        for r in self.roots:
            s = r.n if isinstance(r, R) and r.q is None and not r.d else None
            if s is not None and s.get_id() in defs and defs[s.get_id()][1] == 2:
                t = defs[s.get_id()][0]
                axs.append(z3.Implies(t >= 0, z3.And(s >= 0, s * s == t)))
        if len(axs) != len(self.roots):
            self.c = None              # not the expected representation: leave the engine's selection alone
            return self
        self.saved = (self.c.axioms, getattr(self.c, "_ax_count", None))
        self.c.axioms = axs
        if self.saved[1] is not None:
            self.c._ax_count = -1      # symx.axioms.instances: "list replaced by a harness -> use all of it"
        return self

    def __exit__(self, *a):
        if self.c is not None:
            self.c.axioms = self.saved[0]
            if self.saved[1] is not None:
                self.c._ax_count = self.saved[1]
        return False


# ------------------------------------------------------------------------------------------------
# (d) equivariance
def _coords(n):
    return [(i, j, k) for k in range(n[2]) for j in range(n[1]) for i in range(n[0])]


def sc_equivariance(V, P, cfg):
    K = Chk(P)
    mesh = tuple(cfg["mesh"])
    dim = 3 if mesh[2] else 2
    n = (mesh[0], mesh[1], max(mesh[2], 1))
    N = n[0] * n[1] * n[2]
    axis, sign, nsamp = cfg["axis"], cfg["sign"], cfg.get("nsampling")
    x = V.reals("x", N, lo=0, hi=1)
    prm = _params(V)
    m1 = _make(V, mesh, x, _dirvec(axis, sign, dim), nsamp, prm)
    m1.response()
    y1 = m1.sig_out[0].state
    _sat_hints(V, m1, x, prm[4])
    op = cfg["op"]
    if op[0] == "mirror":
        a = op[1]
        mesh2, n2 = mesh, n
        fmap = lambda c: tuple((n[t] - 1 - c[t]) if t == a else c[t] for t in range(3))
        axis2, sign2 = axis, (-sign if axis == a else sign)
    else:
        a, b = op[1], op[2]
        perm = list(range(3))
        perm[a], perm[b] = b, a
        mesh2 = tuple(mesh[perm[t]] for t in range(3))
        n2 = tuple(n[perm[t]] for t in range(3))
        fmap = lambda c: tuple(c[perm[t]] for t in range(3))
        axis2, sign2 = perm.index(axis), sign
    # transformed field: x2[fmap(c)] = x[c]
    x2 = np.empty(N, dtype=object if V.symbolic else float)
    for c in _coords(n):
        x2[elem(fmap(c), n2)] = x[elem(c, n)]
    if V.symbolic:
        x2 = x2.view(SymArray)
    m2 = _make(V, mesh2, x2, _dirvec(axis2, sign2, dim), nsamp, prm)
    m2.response()
    y2 = m2.sig_out[0].state
    for c in _coords(n):
        K.eq("T(y)[%d,%d,%d]==y'(T(x))" % c, y2[elem(fmap(c), n2)], y1[elem(c, n)], "equivariance")
    return dict(y1=y1, y2=y2)


def sc_params(V, P, cfg):
    """set_parameters(): q, shift and backshift follow Langelaar's rules for the user's xi_0, p and nsampling:
    q = p + ln(ns)/ln(xi_0)  (zero overshoot of the smooth maximum at density xi_0: (ns xi_0^p)^(1/q) = xi_0),
    shift = 100 tiny^(1/p), backshift = 0.95 ns^(1/q) shift^(p/q)."""
    import pymoto as pym
    import math
    K = Chk(P)
    dim, ns = cfg["dim"], cfg["nsampling"]
    dom = _dom(dim)
    xi = V.real("xi_0", lo="1/16", hi="15/16", default=0.25)
    p = V.real("p", lo=1, hi=40, default=3.0)
    if V.symbolic:
        V.assume(xi != Fraction(1, 2), "non-default xi_0 (the default has its own forward items)")
    kw = dict(direction=[0.0, 1.0, 0.0] if dim == 3 else [0.0, 1.0], xi_0=xi, p=p)
    if ns != "default":
        kw["nsampling"] = ns
    epsv = None
    if cfg.get("eps"):
        # the smoothing parameter the user passes ("eps >= 0": zero, the exact minimum, is admissible)
        epsv = V.real("eps", lo=0, default=0.0)
        kw["eps"] = epsv
    m = pym.OverhangFilter(pym.Signal("x", np.zeros(dom.nel)), domain=dom, **kw)
    if epsv is not None:
        K.eq("eps == the value passed to the constructor", m.eps, epsv, "parameters")
    nsv = m.nsampling
    K.true("nsampling-default", nsv == ({2: 3, 3: 5}[dim] if ns == "default" else ns), "parameters", info=nsv)
    m.set_parameters(np.float64)
    tiny = float(np.finfo(np.float64).tiny)
    if V.symbolic:
        from symx import axioms
        lg = lambda v: (R.of(float(np.log(float(v)))) if not isinstance(v, R) or v.q is not None else axioms.log(v))
        pw = lambda b_, e_: axioms.power(R.of(b_), R.of(e_))
    else:
        lg, pw = math.log, lambda b_, e_: float(b_) ** float(e_)
    q_ref = p + lg(1.0 * nsv) / lg(xi)
    K.eq("q == p + ln(ns)/ln(xi_0)", m.q, q_ref, "parameters")
    sh_ref = 100.0 * pw(tiny, 1.0 / p)
    K.eq("shift == 100 tiny^(1/p)", m.shift, sh_ref, "parameters", relative=True)
    K.eq("backshift == 0.95 ns^(1/q) shift^(p/q)", m.backshift, pw(nsv, 1 / q_ref) * pw(sh_ref, p / q_ref) * 0.95, "parameters",
         relative=True)
    return dict(q=m.q)


def _decode_z3_string(t):
    """z3 prints non-ASCII code points as \\u{...}."""
    return re.sub(r"\\u\{([0-9a-fA-F]+)\}", lambda m: chr(int(m.group(1), 16)), t)


def sc_string_symx(V, P, cfg):
    """(a) direction strings of UNBOUNDED length: the real constructor runs on a symbolic str whose membership tests
    ('x' in s.lower(), '-' in s) are z3 string-theory atoms; each of the resulting paths is compared with the clause
    'ValueError unless exactly one axis is named, else the unit vector of that axis, negative iff the string contains -'."""
    import pymoto as pym
    import z3
    dim = cfg["dim"]
    dom = _dom(dim)
    if not V.symbolic:
        sv = V.env.get("dirstr", {"str": "y"})
        sval = _decode_z3_string(sv["str"] if isinstance(sv, dict) else str(sv))
        v = string_verdict(sval, dim)
        LAST["string_symx"] = dict(direction=sval, verdict=v, parsed=parse_public(sval, dim), expected=expected_from_string(sval))
        return dict(ok=float(v is None))
    from symx.symstr import symstr, contains_term
    s = symstr("dirstr")
    named = [contains_term(s.t, a, True) for a in "xyz"]          # independent reference atoms (z3 terms)
    minus = contains_term(s.t, "-", False)
    exactly = [z3.And(named[i], *[z3.Not(named[j]) for j in range(3) if j != i]) for i in range(3)]
    one_axis = z3.Or(*exactly)
    try:
        m = pym.OverhangFilter(pym.Signal("x", np.zeros(dom.nel)), domain=dom, direction=s)
        outcome = ("ok", [float(v) for v in m.direction])
    except ValueError as e:
        outcome = ("ValueError", str(e)[:60])
    except AssertionError as e:
        outcome = ("AssertionError", str(e)[:60])
    if outcome[0] == "ValueError":
        P.holds("rejected => the string does not name exactly one axis", SB(z3.Not(one_axis)), kind="direction-string-unbounded")
    elif outcome[0] == "AssertionError":
        # by design only for the z axis on a 2-D domain
        P.holds("assertion => z axis named on a 2-D domain", SB(exactly[2]) if dim == 2 else False, kind="direction-string-unbounded")
    else:
        d = outcome[1]
        conds = []
        for i in range(3):
            for sg, mc in ((1.0, z3.Not(minus)), (-1.0, minus)):
                e = [0.0, 0.0, 0.0]
                e[i] = sg
                if d == e:
                    conds.append(z3.And(exactly[i], mc))
        P.holds("accepted => unit vector of the one named axis, negative iff '-' occurs",
                SB(z3.Or(*conds)) if conds else False, kind="direction-string-unbounded")
    return dict(ok=1.0)


SCEN = {"params": sc_params, "string-symx": sc_string_symx, "string-enum": sc_string_enum, "vector": sc_vector, "vector-enum": sc_vector_enum, "forward": sc_forward,
        "equivariance": sc_equivariance}


# ------------------------------------------------------------------------------------------------
def _tag(mesh):
    return "x".join(str(s) for s in mesh if s > 0)


def _dtag(axis, sign):
    return ("+" if sign > 0 else "-") + "xyz"[axis]


def VIEWS_LAYOUT_ITEMS(it, tier):
    return True


def items(tier):
    q = tier == "quick"
    out = []
    for dim, ns in ((2, "default"), (3, "default"), (3, 9)):
        out.append(dict(kind="params", id="params-%dd-ns%s" % (dim, ns), dim=dim, nsampling=ns))
        out.append(dict(kind="params", id="params-%dd-ns%s-eps" % (dim, ns), dim=dim, nsampling=ns, eps=True))
    for dim in (3, 2):
        out.append(dict(kind="string-symx", id="string-symx-unbounded-%dd" % dim, dim=dim))
    if not q:    # refutation search only ("Not confirmed" is all CrossHair can say within the budget); the unbounded
        # string-symx items above decide the clause, so the quick tier does not carry a permanently inconclusive line
        out.append(dict(kind="string-crosshair", id="string-crosshair-len3", func="direction_string_ok_len3", timeout_s=30, timeout=400))
    out.append(dict(kind="string-crosshair", id="string-crosshair-len1", func="direction_string_ok_len1", timeout_s=250, timeout=900))
    out.append(dict(kind="string-crosshair", id="string-crosshair-twin", func="twin_parser_rejects_everything", timeout_s=30,
                    twin=True, timeout=400))
    nstr = sum(len(ALPHABET) ** k for k in range(4))
    step = 205
    for lo in range(0, nstr, step):
        out.append(dict(kind="string-enum", id="string-enum-%d" % lo, range=[lo, min(nstr, lo + step)], dim2=(lo == 0)))
    out.append(dict(kind="vector", id="vector-symbolic-magnitude"))
    out.append(dict(kind="vector-enum", id="vector-enum"))
    meshes2 = [(2, 2, 0), (3, 2, 0), (2, 3, 0)] + ([] if q else [(3, 3, 0), (4, 3, 0), (3, 4, 0)])
    meshes3 = [(3, 2, 2), (2, 2, 3)] if q else [(2, 2, 2), (3, 2, 2), (2, 3, 2), (2, 2, 3)]
    for mesh in meshes2:
        for axis in (0, 1):
            for sign in (1, -1):
                out.append(dict(kind="forward", id="forward-%s-%s-n3" % (_tag(mesh), _dtag(axis, sign)), mesh=mesh, axis=axis,
                                sign=sign, nsampling=3, default_nsampling=(sign > 0)))
    for mesh in meshes3:
        for axis in (0, 1, 2):
            for sign in (1, -1):
                for ns in (5, 9):
                    out.append(dict(kind="forward", id="forward-%s-%s-n%d" % (_tag(mesh), _dtag(axis, sign), ns), mesh=mesh,
                                    axis=axis, sign=sign, nsampling=ns, default_nsampling=(ns == 5 and sign > 0)))
    for mesh in meshes2:
        for axis in (0, 1):
            for sign in (1, -1):
                for op in (["mirror", 0], ["mirror", 1], ["swap", 0, 1]):
                    out.append(dict(kind="equivariance", id="equivariance-%s-%s-%s" % (_tag(mesh), _dtag(axis, sign), "".join(map(str, op))),
                                    mesh=mesh, axis=axis, sign=sign, nsampling=3, op=op))
    for mesh in meshes3:
        for axis in (0, 1, 2):
            for sign in (1, -1):
                ops = [["mirror", 0], ["mirror", 1], ["mirror", 2], ["swap", 0, 1], ["swap", 0, 2], ["swap", 1, 2]]
                for oi, op in enumerate(ops):
                    ns = 5 if (oi + axis) % 2 == 0 else 9
                    out.append(dict(kind="equivariance", id="equivariance-%s-%s-%s-n%d" % (_tag(mesh), _dtag(axis, sign), "".join(map(str, op)), ns),
                                    mesh=mesh, axis=axis, sign=sign, nsampling=ns, op=op))
    return out


def run_item(cfg, tier):
    if cfg["kind"] == "string-crosshair":
        return run_crosshair_item(cfg, tier)
    return symbolic_run(SCEN[cfg["kind"]], cfg, tier, max_paths=40)


# ------------------------------------------------------------------------------------------------
def replay(cfg, label, env, case):
    """Floats / concrete strings on the real library."""
    kind = cfg["kind"]
    if kind in ("string-crosshair", "string-enum"):
        if kind == "string-crosshair":
            s = env.get("direction")
        else:
            m = re.match(r"string(?:\(2D domain\)|\(public constructor\))? (.*)$", label)
            s = ast.literal_eval(m.group(1)) if m else None
        if not isinstance(s, str):
            return dict(reproduced=None, detail="no string in the counterexample (%r)" % (label,))
        dim = 2 if label.startswith("string(2D domain)") else 3
        v = string_verdict(s, dim)
        bad = failing_strings()
        return dict(reproduced=v is not None,
                    detail=dict(direction=s, observed=v, parsed=parse_public(s, dim),
                                expected=expected_from_string(s), n_failing_strings_len_le_3_over_alphabet=len(bad),
                                failing_strings=bad))
    if kind == "string-symx":
        LAST.clear()
        SCEN[kind](Vals(env=env), None, cfg)
        r = LAST.get("string_symx", {})
        return dict(reproduced=r.get("verdict") is not None, detail=r)
    V = Vals(env=env)
    LAST.clear()
    inputs = lambda: {k: env[k] for k in V.requested if k in env}
    try:
        SCEN[kind](V, None, cfg)
    except Exception as e:
        want = label.split(":", 1)[1] if label.startswith("exception:") else None
        return dict(reproduced=(want is None or type(e).__name__ == want),
                    detail=dict(raised="%s: %s" % (type(e).__name__, str(e)[:300]), clause=label, inputs=inputs()))
    fails = LAST["chk"].fails if "chk" in LAST else {}
    if label.startswith("exception:"):
        return dict(reproduced=False, detail="no exception on the real code")
    if label == "*":          # any clause failing on the real library with these numbers (used by the runner's fallbacks)
        if fails:
            first = sorted(fails)[0]
            return dict(reproduced=True, detail=dict(clause=first, observed=fails[first], other_failing=[k for k in sorted(fails)[1:7]]))
        return dict(reproduced=False, detail="every clause holds on the real library")
    if label in fails:
        return dict(reproduced=True, detail=dict(clause=label, observed=fails[label], inputs=inputs(),
                                                 other_failing=[k for k in fails if k != label][:6]))
    return dict(reproduced=False, detail=dict(clause=label, inputs=inputs(), failing=list(fails)[:6]))
