"""C02 - network back-propagation is the total derivative of any module graph.

Executed for real: Network.__init__/append/response/sensitivity/reset, Module.__init__/response/
sensitivity/reset (dispatch, None-skipping), Signal/SignalSlice.add_sensitivity and the slice
properties, plus the library modules EinSum, ConcatSignal, Scaling (constraint modes), MathGeneral
(sympy) and a user-defined polynomial module `Poly` written here with the public Module API.

Programs: every wiring (DAG) of <= 3 (quick) / <= 4 (thorough) modules over two source signals
x (3-vector) and z (2-vector); see `topologies`.  Oracle: the total derivative computed by
forward-mode dual numbers through a hand-written reference evaluator of the graph (`ref_forward`),
which uses neither Network/Module.sensitivity nor Module.response.  The library's response is
compared with the reference values as well, so the differentiated function is the executed one.
"""
import itertools
import numpy as np

from symx import R
from .common import symbolic_run, Vals, _raised_in_repo

PROPERTY = "C02"

SRC_LEN = [3, 2]                 # x, z
# whole, basic slice [1:], tuple of slices [(0::2,)], integer array [n-1, 0], tuple holding a list ([n-1, 0],) (a copy)
ACCESS = ["w", "b", "t", "i", "l"]

BOUNDS = {
    "quick": dict(max_modules=3, sources="x (3-vector), z (2-vector)",
                  topologies="ALL wirings of <= 3 modules with slot kinds {1 in/1 out, 2 in/1 out, 1 in/2 out}, inputs taken "
                             "from any earlier signal (also the same signal twice); the two inputs of a 2-input slot are "
                             "unordered (isomorphic duplicates removed); module order = execution order is kept",
                  variants="per topology: v0 = Poly modules, whole-signal access, flat network; v1 = slice access on the edges "
                           "(basic / tuple of slices / integer array / tuple holding an index list, rotated deterministically), library modules "
                           "(EinSum i->, i,i->, i,i->i; ConcatSignal; Scaling minval/maxval; MathGeneral) substituted where "
                           "shapes allow (rotated deterministically), one nested Network over a contiguous module range "
                           "(rotated deterministically)",
                  seeds="every non-empty subset of the sink signals, plus all module outputs seeded at once; subsets after "
                        "the first are run on the same network after Network.reset()",
                  variants_per_topology=2, group_size=20),
    "thorough": dict(max_modules=4, sources="as quick",
                     topologies="ALL wirings of <= 3 modules (as quick) with 4 variants each; wirings of 4 modules: ALL over the "
                                "single source x with 2 variants each; in 4-module graphs only two of the Poly modules carry the "
                                "product term (v0: first two, v1: last two), the others are affine (degree of the composition <= 4)",
                     variants="as quick, v2/v3 with other rotations",
                     seeds="as quick", variants_per_topology=4, group_size=40),
}
OUTSIDE = ["graphs with more modules than the bound; 4-module graphs over two sources; 4-module graphs in which more than two "
           "Poly modules are non-linear (expansion of the degree-16 composition does not finish)",
           "cyclic graphs (not admissible)", "integer index arrays with repeated entries",
           "module outputs written through slices of a pre-allocated signal",
           "library modules other than EinSum/ConcatSignal/Scaling/MathGeneral inside the graphs (their own adjoints are C01)",
           "module-type / slice-kind / nesting assignments other than the deterministic rotations listed in BOUNDS.variants",
           "complex-valued networks", "IEEE rounding"]
ASSUMPTIONS = ["float64 arithmetic modelled as exact real arithmetic",
               "Scaling minval/maxval are non-zero",
               "seed subsets after the first reuse the network after Network.reset() (as an optimisation loop does)"]
ITEM_TIMEOUT = {"quick": 150, "thorough": 900}
REPLAYS_PER_GROUP = 2


# ================================================================================================ enumeration
def topologies(M, nsrc):
    """All module lists of length M; a module is (slot, [input signal ids]); signals are numbered
    sources first, then outputs in creation order.  Slot '1': 1 in/1 out, '2': 2 in/1 out (inputs
    unordered), 'D': 1 in/2 out."""
    out = []

    def rec(mods, nsig):
        if len(mods) == M:
            out.append([(s, list(i)) for s, i in mods])
            return
        for a in range(nsig):
            rec(mods + [("1", (a,))], nsig + 1)
        for a in range(nsig):
            for b in range(a, nsig):
                rec(mods + [("2", (a, b))], nsig + 1)
        for a in range(nsig):
            rec(mods + [("D", (a,))], nsig + 2)
    rec([], nsrc)
    return out


def _acc_len(n, acc):
    """Length of the accessed value (0 = scalar)."""
    if acc == "w":
        return n
    if acc in ("b", "c"):
        return n - 1
    if acc == "t":
        return (n + 1) // 2
    if acc in ("i", "l"):
        return 2
    raise ValueError(acc)


def _out_len(t, lens):
    if t in ("P1", "P2"):
        return [2]
    if t == "PD":
        return [2, 3]
    if t in ("ES", "ED"):
        return [0]
    if t == "EM":
        return [lens[0]]
    if t == "CC":
        return [lens[0] + lens[1]]
    if t in ("SCmin", "SCmax", "MG1"):
        return [lens[0]]
    if t == "MG2":
        return [lens[0]]
    raise ValueError(t)


def _compatible(t, lens):
    if t in ("P1", "P2", "PD", "SCmin", "SCmax"):
        return True
    if t in ("ES", "MG1"):
        return lens[0] >= 1
    if t in ("ED", "EM", "MG2"):
        return lens[0] >= 1 and lens[0] == lens[1]
    if t == "CC":
        return lens[0] >= 1 and lens[1] >= 1
    return False


LIB1 = ["SCmin", "MG1", "ES", "SCmax", "P1"]
LIB2 = ["ED", "CC", "MG2", "EM", "P2"]


def make_graph(topo, tidx, variant, nsrc):
    """Concrete graph (module types, edge access, nesting) for a topology and a variant number."""
    lens = list(SRC_LEN[:nsrc])
    mods = []
    e = 0
    for k, (slot, inps) in enumerate(topo):
        ins = []
        for a in inps:
            acc = "w"
            if variant > 0 and lens[a] >= 2:
                acc = ACCESS[(e + variant + tidx) % len(ACCESS)]
                if variant >= 2 and (e + tidx) % 3 == 0:
                    acc = "w"
                if acc == "b" and (e + tidx) % 2 == 0:
                    acc = "c"       # the same entries through a slice of a slice
            e += 1
            ins.append([a, acc])
        il = [_acc_len(lens[a], acc) for a, acc in ins]
        if slot == "D":
            t = "PD"
        elif variant == 0:
            t = "P1" if slot == "1" else "P2"
        else:
            cands = LIB1 if slot == "1" else LIB2
            r = (k + tidx + variant) % len(cands)
            t = next(c for c in cands[r:] + cands[:r] + ["P1" if slot == "1" else "P2"] if _compatible(c, il))
        mods.append(dict(t=t, inp=ins))
        lens.extend(_out_len(t, il))
    nest = None
    M = len(topo)
    if variant > 0:
        ranges = [(i, j) for i in range(M) for j in range(i + 1, M + 1)]
        nest = list(ranges[(tidx + variant) % len(ranges)])
    # Poly modules carrying the product term t*x_first[0]*x_last[-1] (state-dependent Jacobian).  With four
    # modules the composed polynomial reaches degree 16 and its expansion does not finish (measured: one
    # 4-chain of 1-input Poly modules 19 s, of 2-input Poly modules > 10 min), so 4-module graphs keep the
    # product term in two modules only (v0: the first two, v1: the last two; degree <= 4) - the other Poly
    # modules are affine.  Graphs with <= 3 modules keep it everywhere.
    quad = list(range(M)) if M <= 3 else ([0, 1] if variant % 2 == 0 else [M - 2, M - 1])
    # Network(print_timing=...) takes a separate code path in response()/sensitivity(): off for v0, otherwise rotated over
    # {True, a threshold that never prints, off}; for nested networks the inner one follows every other time
    timing = False if variant == 0 else [True, 1e9, False][(tidx + variant) % 3]
    # networks built in one go (v0 and every other variant) or step by step with Network.append
    incr = variant > 0 and (tidx + variant) % 2 == 0
    second = variant > 0 and (tidx + variant) % 3 == 1
    return dict(nsrc=nsrc, mods=mods, nest=nest, lens=lens, quad=quad, timing=timing, timing_inner=bool((tidx // 3) % 2), incr=incr,
                second=second)


def _graphs(tier):
    b = BOUNDS[tier]
    out = []
    for M in range(1, 4):
        for ti, topo in enumerate(topologies(M, 2)):
            for v in range(b["variants_per_topology"]):
                g = make_graph(topo, ti, v, 2)
                g["name"] = "M%d-t%04d-v%d" % (M, ti, v)
                out.append(g)
    if b["max_modules"] >= 4:
        for ti, topo in enumerate(topologies(4, 1)):
            for v in range(2):
                g = make_graph(topo, ti, v, 1)
                g["name"] = "M4x-t%05d-v%d" % (ti, v)
                out.append(g)
    # identical graphs can arise when a variant changes nothing: keep the first
    seen, uniq = set(), []
    for g in out:
        key = repr((g["nsrc"], g["mods"], g["nest"], g["quad"]))
        if key not in seen:
            seen.add(key)
            uniq.append(g)
    return uniq


def items(tier):
    gs = _graphs(tier)
    n = BOUNDS[tier]["group_size"]
    out = []
    for j in range(0, len(gs), n):
        chunk = gs[j:j + n]
        out.append(dict(kind="dag", id="%s..%s" % (chunk[0]["name"], chunk[-1]["name"].split("-", 1)[1]), first=j, graphs=chunk))
    for nested in (False, True):
        for seed in ("both", "y1", "y2"):
            out.append(dict(kind="dyad-shared", id="dyad-shared-%s-%s" % ("nested" if nested else "flat", seed), nested=nested, seed=seed))
    return out


# ================================================================================================ reference evaluator
class Dual:
    """value + vector of directional derivatives (forward mode), over floats or symx.R."""
    __slots__ = ("v", "d")

    def __init__(self, v, d):
        self.v, self.d = v, d

    @staticmethod
    def lift(x, n):
        return x if isinstance(x, Dual) else Dual(x, [0] * n)

    def __add__(self, o):
        o = Dual.lift(o, len(self.d))
        return Dual(self.v + o.v, [a + b for a, b in zip(self.d, o.d)])

    __radd__ = __add__

    def __neg__(self):
        return Dual(-self.v, [-a for a in self.d])

    def __sub__(self, o):
        return self + (-Dual.lift(o, len(self.d)))

    def __rsub__(self, o):
        return Dual.lift(o, len(self.d)) + (-self)

    def __mul__(self, o):
        o = Dual.lift(o, len(self.d))
        return Dual(self.v * o.v, [a * o.v + self.v * b for a, b in zip(self.d, o.d)])

    __rmul__ = __mul__

    def div_const(self, c):
        return Dual(self.v / c, [a / c for a in self.d])


def _access_idx(n, acc):
    """Positions selected by an access kind in a vector of length n (plain lists)."""
    if acc == "w":
        return list(range(n))
    if acc in ("b", "c"):
        return list(range(1, n))
    if acc == "t":
        return list(range(0, n, 2))
    if acc in ("i", "l"):
        return [n - 1, 0]
    raise ValueError(acc)


def _access_obj(n, acc):
    """The index object handed to Signal.__getitem__."""
    if acc == "b":
        return slice(1, None)
    if acc == "t":
        return (slice(0, None, 2),)
    if acc == "i":
        return np.array([n - 1, 0])
    if acc == "l":
        return ([n - 1, 0],)
    raise ValueError(acc)


def poly_eval(coef, o, xs):
    """Output o of a Poly module: y_j = c_j + sum_k sum_i A_k[j,i] x_k[i] + t_j * x_first[0] * x_last[-1]."""
    m = len(coef["c"][o])
    ys = []
    cross = xs[0][0] * xs[-1][-1]
    for j in range(m):
        y = coef["c"][o][j] + coef["t"][o][j] * cross
        for k, x in enumerate(xs):
            for i in range(len(x)):
                y = y + coef["A"][o][k][j][i] * x[i]
        ys.append(y)
    return ys


def ref_forward(g, src, coefs):
    """src: list of lists (one per source) of numbers/Duals. Returns list of signal values
    (list for vectors, bare value for scalars), in signal numbering."""
    sig = [list(s) for s in src]
    lens = g["lens"]
    for k, m in enumerate(g["mods"]):
        xs = []
        for a, acc in m["inp"]:
            v = sig[a]
            if lens[a] == 0:
                xs.append([v])
            else:
                xs.append([v[p] for p in _access_idx(lens[a], acc)])
        t = m["t"]
        cf = coefs[k]
        if t in ("P1", "P2"):
            outs = [poly_eval(cf, 0, xs)]
        elif t == "PD":
            outs = [poly_eval(cf, 0, xs), poly_eval(cf, 1, xs)]
        elif t == "ES":
            tot = xs[0][0]
            for e in xs[0][1:]:
                tot = tot + e
            outs = [tot]
        elif t == "ED":
            tot = xs[0][0] * xs[1][0]
            for p, q in zip(xs[0][1:], xs[1][1:]):
                tot = tot + p * q
            outs = [tot]
        elif t == "EM":
            outs = [[p * q for p, q in zip(xs[0], xs[1])]]
        elif t == "CC":
            outs = [list(xs[0]) + list(xs[1])]
        elif t == "SCmin":       # y = s * (1 - x / xmin)
            outs = [[_mulc(1 - _divc(p, cf["lim"]), cf["s"]) for p in xs[0]]]
        elif t == "SCmax":       # y = s * (x / xmax - 1)
            outs = [[_mulc(_divc(p, cf["lim"]) - 1, cf["s"]) for p in xs[0]]]
        elif t == "MG1":         # inp0*inp0 + 2*inp0
            outs = [[p * p + 2 * p for p in xs[0]]]
        elif t == "MG2":         # inp0*inp1 + inp1
            outs = [[p * q + q for p, q in zip(xs[0], xs[1])]]
        else:
            raise ValueError(t)
        if t in ("SCmin", "SCmax") and lens[m["inp"][0][0]] == 0 and m["inp"][0][1] == "w":
            outs = [outs[0][0]]
        for o in outs:
            sig.append(o)
    return sig


def _divc(p, c):
    return p.div_const(c) if isinstance(p, Dual) else p / c


def _mulc(p, c):
    return p * c


# ================================================================================================ the network
_POLY = {}


def poly_class():
    """User-defined module with the public Module API (defined lazily: needs pymoto imported)."""
    import pymoto as pym
    if "cls" in _POLY:
        return _POLY["cls"]

    class Poly(pym.Module):
        """y_o[j] = c_o[j] + sum_k A_ok[j,:] . x_k + t_o[j] * x_first[0] * x_last[-1]; exact hand-written adjoint."""

        def _prepare(self, coef=None, nout=1):
            self.coef = coef
            self.nout = nout

        @staticmethod
        def _flat(x):
            return list(x.reshape(-1)) if isinstance(x, np.ndarray) else [x]

        @staticmethod
        def _arr(vals):
            sym = any(isinstance(v, R) for v in vals)
            a = np.empty(len(vals), dtype=object if sym else float)
            for i, v in enumerate(vals):
                a[i] = v
            if sym:
                from symx.array import SymArray
                a = a.view(SymArray)
            return a

        def _response(self, *xs):
            self.xs = [self._flat(x) for x in xs]
            self.shapes = [np.shape(x) if isinstance(x, np.ndarray) else None for x in xs]
            outs = []
            for o in range(self.nout):
                outs.append(self._arr(poly_eval(self.coef, o, self.xs)))
            return outs if self.nout > 1 else outs[0]

        def _sensitivity(self, *dys):
            xs = self.xs
            res = []
            for k, x in enumerate(xs):
                g = [0 * x[0] for _ in x]
                for o, dy in enumerate(dys):
                    if dy is None:
                        continue
                    w = self._flat(dy)
                    for j in range(len(w)):
                        for i in range(len(x)):
                            g[i] = g[i] + w[j] * self.coef["A"][o][k][j][i]
                        if k == 0:
                            g[0] = g[0] + w[j] * self.coef["t"][o][j] * xs[-1][-1]
                        if k == len(xs) - 1:
                            g[-1] = g[-1] + w[j] * self.coef["t"][o][j] * xs[0][0]
                if self.shapes[k] is None:
                    res.append(g[0])
                else:
                    res.append(self._arr(g).reshape(self.shapes[k]))
            return res

    _POLY["cls"] = Poly
    return Poly


def make_coefs(V, g):
    """Symbolic coefficients per module (names are shared by the graphs of an item: independent programs)."""
    lens = g["lens"]
    coefs = []
    for k, m in enumerate(g["mods"]):
        il = [max(1, _acc_len(lens[a], acc)) for a, acc in m["inp"]]
        t = m["t"]
        if t in ("P1", "P2", "PD"):
            outl = _out_len(t, il)
            cf = dict(c=[], A=[], t=[])
            for o, mo in enumerate(outl):
                cf["c"].append([V.real("m%dc%d_%d" % (k, o, j)) for j in range(mo)])
                cf["t"].append([V.real("m%dt%d_%d" % (k, o, j)) if k in g["quad"] else 0 for j in range(mo)])
                cf["A"].append([[[V.real("m%da%d%d_%d_%d" % (k, o, kk, j, i)) for i in range(n)] for j in range(mo)]
                                for kk, n in enumerate(il)])
            coefs.append(cf)
        elif t in ("SCmin", "SCmax"):
            coefs.append(dict(s=V.real("m%ds" % k, default=2.0), lim=V.real("m%dlim" % k, nonzero=True, default=4.0)))
        else:
            coefs.append(None)
    return coefs


def build_network(g, srcvals, coefs):
    """Real pyMOTO objects for the graph. Returns (network, signals, modules)."""
    import pymoto as pym
    Poly = poly_class()
    names = ["x", "z"]
    sigs = [pym.Signal(names[i], srcvals[i]) for i in range(g["nsrc"])]
    lens = g["lens"]
    mods = []
    for k, m in enumerate(g["mods"]):
        ins = []
        for a, acc in m["inp"]:
            if acc == "c":      # chained: a SignalSlice whose base is a SignalSlice
                ins.append(sigs[a][slice(None, None)][slice(1, None)])
            else:
                ins.append(sigs[a] if acc == "w" else sigs[a][_access_obj(lens[a], acc)])
        t = m["t"]
        nout = 2 if t == "PD" else 1
        outs = [pym.Signal("y%d" % (len(sigs) + o)) for o in range(nout)]
        if t in ("P1", "P2", "PD"):
            mod = Poly(ins, outs, coef=coefs[k], nout=nout)
        elif t == "ES":
            mod = pym.EinSum(ins, outs, expression="i->")
        elif t == "ED":
            mod = pym.EinSum(ins, outs, expression="i,i->")
        elif t == "EM":
            mod = pym.EinSum(ins, outs, expression="i,i->i")
        elif t == "CC":
            mod = pym.ConcatSignal(ins, outs)
        elif t == "SCmin":
            mod = pym.Scaling(ins, outs, scaling=coefs[k]["s"], minval=coefs[k]["lim"])
        elif t == "SCmax":
            mod = pym.Scaling(ins, outs, scaling=coefs[k]["s"], maxval=coefs[k]["lim"])
        elif t == "MG1":
            mod = pym.MathGeneral(ins, outs, expression="inp0*inp0+2*inp0")
        elif t == "MG2":
            mod = pym.MathGeneral(ins, outs, expression="inp0*inp1+inp1")
        else:
            raise ValueError(t)
        mods.append(mod)
        sigs.extend(outs)
    # the timing option selects a different code path in Network.response/sensitivity: rotate it deterministically
    timing = g.get("timing", False)
    incr = g.get("incr", False)
    if g["nest"] is None:
        if incr and len(mods) >= 2:
            # built step by step with the public Network.append
            net = pym.Network(mods[0], print_timing=timing)
            net.append(*mods[1:])
        else:
            net = pym.Network(*mods, print_timing=timing)
    else:
        i, j = g["nest"]
        tin = (timing if g.get("timing_inner", True) else False)
        if incr and j - i >= 2:
            # the inner network receives its later modules AFTER it has been placed in the outer network
            inner = pym.Network(mods[i], print_timing=tin)
            net = pym.Network(*(mods[:i] + [inner] + mods[j:]), print_timing=timing)
            inner.append(*mods[i + 1:j])
        else:
            inner = pym.Network(*mods[i:j], print_timing=tin)
            net = pym.Network(*(mods[:i] + [inner] + mods[j:]), print_timing=timing)
    return net, sigs, mods


def graph_meta(g):
    """(producer-independent) consumers, sinks, output signal ids."""
    nsig = len(g["lens"])
    consumed = set()
    outs_of = []
    s = g["nsrc"]
    for m in g["mods"]:
        n = 2 if m["t"] == "PD" else 1
        outs_of.append(list(range(s, s + n)))
        s += n
        for a, _ in m["inp"]:
            consumed.add(a)
    outputs = [i for i in range(g["nsrc"], nsig)]
    sinks = [i for i in outputs if i not in consumed]
    return outs_of, outputs, sinks


def reach(g, seeded):
    """Signals from which a seeded signal is reachable (these, and only these, get a sensitivity)."""
    outs_of, _, _ = graph_meta(g)
    r = set(seeded)
    changed = True
    while changed:
        changed = False
        for k, m in enumerate(g["mods"]):
            if any(o in r for o in outs_of[k]):
                for a, _ in m["inp"]:
                    if a not in r:
                        r.add(a)
                        changed = True
    return r


def seed_sets(g):
    _, outputs, sinks = graph_meta(g)
    sets = []
    for n in range(len(sinks), 0, -1):
        for sub in itertools.combinations(sinks, n):
            sets.append(list(sub))
    if sorted(outputs) != sorted(sinks):
        sets.append(list(outputs))
    return sets


# ================================================================================================ checks
class Checker:
    def __init__(self, P, prefix):
        self.P, self.prefix, self.failed = P, prefix, []
        self._seen = len(P.obls) if P is not None else 0

    def exact(self, label, ok, kind, detail=None):
        label = self.prefix + label
        if self.P is not None:
            self.P.holds(label, bool(ok), kind=kind)
        elif not ok:
            self.failed.append((label, kind, detail))

    def values(self, label, got, exp, kind):
        label = self.prefix + label
        g = np.asarray(got, dtype=object if self.P is not None else float)
        e = np.asarray(exp, dtype=object if self.P is not None else float)
        if self.P is not None:
            self.P.arrays_eq(label, g, e, kind=kind)
        elif g.shape != e.shape:
            self.failed.append((label, kind, "shape %s vs %s" % (g.shape, e.shape)))
        elif g.size:
            scale = max(1.0, float(np.max(np.abs(e))), float(np.max(np.abs(g))))
            if float(np.max(np.abs(g - e))) > 1e-8 * scale:
                self.failed.append((label, kind, "impl %s expected %s" % (g.tolist(), e.tolist())))

    def failed_now(self):
        if self.P is None:
            return False
        new = self.P.obls[self._seen:]
        self._seen = len(self.P.obls)
        return any(o.status != "unsat" for o in new)


def _vec(V, name, n):
    return V.real(name) if n == 0 else V.reals(name, n)


def run_graph(V, P, g, gi, only_set=None):
    """One graph: response, then for each seed set: (reset,) seed, sensitivity, compare."""
    ck = Checker(P, "g%d|" % gi)
    obs = {}
    nsrc = g["nsrc"]
    lens = g["lens"]
    srcvals = [V.reals("xz"[i], SRC_LEN[i]) for i in range(nsrc)]
    coefs = make_coefs(V, g)
    try:
        net, sigs, mods = build_network(g, [np.array(v, dtype=v.dtype).view(type(v)) for v in srcvals], coefs)
        net.response()
    except Exception as e:
        if not _raised_in_repo(e):
            raise
        ck.exact("R|exception:%s" % type(e).__name__, False, "exception", detail=str(e)[:300])
        return ck, obs
    # ---- reference forward values and tangents (one direction per source entry)
    nd = sum(SRC_LEN[:nsrc])
    duals, p = [], 0
    for i in range(nsrc):
        row = []
        for j in range(SRC_LEN[i]):
            d = [0] * nd
            d[p] = 1
            row.append(Dual(srcvals[i][j], d))
            p += 1
        duals.append(row)
    ref = ref_forward(g, duals, coefs)
    for s in range(nsrc, len(lens)):
        want = [q.v for q in ref[s]] if lens[s] > 0 else ref[s].v
        st = sigs[s].state
        ck.exact("R|y%d.shape" % s, np.shape(st) == ((lens[s],) if lens[s] > 0 else ()), "response-shape",
                 detail="state shape %s, expected length %d" % (np.shape(st), lens[s]))
        if np.shape(st) == ((lens[s],) if lens[s] > 0 else ()):
            ck.values("R|y%d.state" % s, st, want, "response")
    if ck.failed_now():
        return ck, obs
    _, outputs, sinks = graph_meta(g)
    for si, sset in enumerate(seed_sets(g)):
        if only_set is not None and si != only_set:
            continue
        tag = "S%d|" % si
        try:
            if si > 0 and only_set is None:
                net.reset()
            seeds = {}
            for s in sset:
                w = _vec(V, "w%d" % s, lens[s])
                seeds[s] = w
                sigs[s].sensitivity = (np.array(w, dtype=w.dtype).view(type(w)) if isinstance(w, np.ndarray) else w)
            net.sensitivity()
        except Exception as e:
            if not _raised_in_repo(e):
                raise
            ck.exact(tag + "exception:%s" % type(e).__name__, False, "exception", detail=str(e)[:300])
            break
        rch = reach(g, sset)
        # None-ness of every signal: exactly the signals from which a seed is reachable carry a sensitivity
        # (after Network.reset() a signal that is only consumed through slices keeps a zeroed allocation -
        #  SignalSlice.reset clears entries, C18 - so on a re-used network "no contribution" is None or all-zero)
        for s in range(len(lens)):
            got = sigs[s].sensitivity
            if s in rch:
                ck.exact(tag + "sig%d.sens-is-set" % s, got is not None, "none-ness",
                         detail="signal %d is upstream of a seed but its sensitivity is None" % s)
            elif si == 0 or only_set is not None:
                ck.exact(tag + "sig%d.sens-is-none" % s, got is None, "none-ness",
                         detail="signal %d received no seed but its sensitivity is not None" % s)
            elif got is not None:
                ck.values(tag + "sig%d.sens-zero" % s, got, np.zeros(np.shape(got), dtype=int), "no-contribution")
        # sources: total derivative
        p = 0
        for i in range(nsrc):
            exp = []
            for j in range(SRC_LEN[i]):
                tot = 0
                for s in sset:
                    if lens[s] == 0:
                        tot = tot + seeds[s] * ref[s].d[p]
                    else:
                        for q in range(lens[s]):
                            tot = tot + seeds[s][q] * ref[s][q].d[p]
                exp.append(tot)
                p += 1
            got = sigs[i].sensitivity
            if got is not None and i in rch:
                if np.shape(got) != (SRC_LEN[i],):
                    ck.exact(tag + "src%d.sens.shape" % i, False, "total-derivative", detail="shape %s" % (np.shape(got),))
                else:
                    ck.values(tag + "src%d.sens" % i, got, exp, "total-derivative")
            if si == 0:     # (a snapshot: the array may legitimately be zeroed in place by a later reset)
                obs["g%d.src%d.sens" % (gi, i)] = (np.array(got, dtype=got.dtype).view(type(got)) if isinstance(got, np.ndarray)
                                                   else got)
        # sinks keep their seed
        for s in sset:
            if s in sinks and sigs[s].sensitivity is not None:
                ck.values(tag + "sink%d.seed-kept" % s, sigs[s].sensitivity, seeds[s], "seed-kept")
        if ck.failed_now():
            break
    for s in sinks:
        obs["g%d.y%d" % (gi, s)] = sigs[s].state
    if g.get("second") and only_set is None and not ck.failed_now():
        # ---- phase T: the same network evaluated again after the source arrays were updated IN PLACE (the way optimisers
        #      and finite_difference change designs): response, all sinks seeded, sensitivity - against the reference at the
        #      new values (slices connected as module inputs must follow the new values)
        tag = "T|"
        try:
            newvals = [V.reals("xz"[i] + "n", SRC_LEN[i]) for i in range(nsrc)]
            for i in range(nsrc):
                sigs[i].state[...] = newvals[i]
            net.reset()
            net.response()
            duals2, p = [], 0
            for i in range(nsrc):
                row = []
                for j in range(SRC_LEN[i]):
                    d = [0] * nd
                    d[p] = 1
                    row.append(Dual(newvals[i][j], d))
                    p += 1
                duals2.append(row)
            ref2 = ref_forward(g, duals2, coefs)
            for s in sinks:
                want = [q.v for q in ref2[s]] if lens[s] > 0 else ref2[s].v
                if np.shape(sigs[s].state) == ((lens[s],) if lens[s] > 0 else ()):
                    ck.values(tag + "y%d.state" % s, sigs[s].state, want, "response-after-in-place-update")
            seeds2 = {}
            for s in sinks:
                w = _vec(V, "wn%d" % s, lens[s])
                seeds2[s] = w
                sigs[s].sensitivity = (np.array(w, dtype=w.dtype).view(type(w)) if isinstance(w, np.ndarray) else w)
            net.sensitivity()
            rch = reach(g, sinks)
            p = 0
            for i in range(nsrc):
                exp = []
                for j in range(SRC_LEN[i]):
                    tot = 0
                    for s in sinks:
                        if lens[s] == 0:
                            tot = tot + seeds2[s] * ref2[s].d[p]
                        else:
                            for q in range(lens[s]):
                                tot = tot + seeds2[s][q] * ref2[s][q].d[p]
                    exp.append(tot)
                    p += 1
                got = sigs[i].sensitivity
                if got is not None and i in rch and np.shape(got) == (SRC_LEN[i],):
                    ck.values(tag + "src%d.sens" % i, got, exp, "total-derivative-after-in-place-update")
                elif i in rch:
                    ck.exact(tag + "src%d.sens-is-set" % i, False, "total-derivative-after-in-place-update",
                             detail="no / wrongly shaped sensitivity on source %d in the second evaluation" % i)
        except Exception as e:
            if not _raised_in_repo(e):
                raise
            ck.exact(tag + "exception:%s" % type(e).__name__, False, "exception", detail=str(e)[:300])
    return ck, obs


MAX_FAILING_GRAPHS_PER_ITEM = 6


def sc_dag(V, P, cfg):
    obs = {}
    nfail = 0
    for j, g in enumerate(cfg["graphs"]):
        n0 = len(P.obls) if P is not None else 0
        ck, o = run_graph(V, P, g, cfg["first"] + j)
        if P is not None and any(ob.status != "unsat" for ob in P.obls[n0:]):
            nfail += 1
            if nfail >= MAX_FAILING_GRAPHS_PER_ITEM and j + 1 < len(cfg["graphs"]):
                import z3
                from symx import SB
                P.holds("g%d|R|skipped-%d-graphs-after-%d-failing" % (cfg["first"] + j + 1, len(cfg["graphs"]) - j - 1, nfail),
                        SB(z3.Bool("skipped!remaining-graphs")), kind="skipped")
                break
        else:
            obs.update(o)
    return obs


def sc_dyad_shared(V, P, cfg):
    """Matrix-valued signals with dyadic (DyadCarrier) sensitivities: M1: K1 -> Y1 = c1*K1 (earlier module);
    M2: (K1, K3) -> Y2 = K1 + K3, whose adjoint hands the SAME object to both inputs (allowed, see the suite's
    test_identical_sensitivity).  Total derivatives: dK1 = c1*S1 + S2, dK3 = S2 - nothing may leak between them."""
    import pymoto as pym
    n = 2
    nested = cfg.get("nested", False)
    c1 = V.real("c1", nonzero=True, default=1.5)

    class ScaleMat(pym.Module):
        def _response(self, K):
            return c1 * K

        def _sensitivity(self, dY):
            return c1 * dY

    class AddMat(pym.Module):
        def _response(self, A, B):
            return A + B

        def _sensitivity(self, dC):
            return dC, dC

    K1, K3 = pym.Signal("K1", V.reals("K1", (n, n))), pym.Signal("K3", V.reals("K3", (n, n)))
    m1 = ScaleMat(K1)
    m2 = AddMat([K1, K3])
    net = pym.Network(pym.Network(m1), m2) if nested else pym.Network(m1, m2)
    net.response()

    def dy(name):
        u, v = V.reals(name + "u", n, nonzero=True), V.reals(name + "v", n, nonzero=True)
        return pym.DyadCarrier(u, v), np.outer(np.asarray(u), np.asarray(v))
    S1, S1d = dy("S1")
    S2, S2d = dy("S2")
    which = cfg.get("seed", "both")
    if which in ("both", "y1"):
        m1.sig_out[0].sensitivity = S1
    if which in ("both", "y2"):
        m2.sig_out[0].sensitivity = S2
    net.sensitivity()
    exp1 = (c1 * S1d if which in ("both", "y1") else 0 * S1d) + (S2d if which in ("both", "y2") else 0 * S2d)
    exp3 = S2d if which in ("both", "y2") else None
    g1, g3 = K1.sensitivity, K3.sensitivity
    obs = dict(g1=None if g1 is None else g1.todense(), g3=None if g3 is None else g3.todense())
    if P is not None:
        P.arrays_eq("dK1", g1.todense(), exp1, kind="dyad-total-derivative")
        if exp3 is None:
            P.holds("dK3.is-none", g3 is None, kind="dyad-total-derivative")
        else:
            P.arrays_eq("dK3", g3.todense(), exp3, kind="dyad-total-derivative")
    return obs


SCEN = {"dag": sc_dag, "dyad-shared": sc_dyad_shared}


def run_item(cfg, tier):
    from .refs_merge import merge_discharged, prime_inspect_cache
    prime_inspect_cache()
    if cfg["kind"] == "dyad-shared":
        return symbolic_run(sc_dyad_shared, cfg, tier, max_paths=8)
    return merge_discharged(symbolic_run(SCEN[cfg["kind"]], cfg, tier, max_paths=4))


# ================================================================================================ replay
def _norm_clause(c):
    c = c.split("[")[0]
    for suf in (".shape",):
        if c.endswith(suf):
            c = c[: -len(suf)]
    return c


def _replay_once(g, gi, phase, want, env):
    V = Vals(env=env)
    only = int(phase[1:]) if phase.startswith("S") else None
    if phase == "T":
        ck, _ = run_graph(V, None, g, gi)            # the second evaluation follows the complete first protocol
    elif only is None or only == 0:
        ck, _ = run_graph(V, None, g, gi, only_set=0 if only == 0 else -1)
    else:
        # seed sets after the first ran after Network.reset(): replay the same protocol (all sets in order)
        ck, _ = run_graph(V, None, g, gi)
    hits = [f for f in ck.failed if f[0].split("|")[1] == phase and _norm_clause(f[0].split("|", 2)[2]) == want]
    return hits, ck.failed


class _ProbeEnv(dict):
    """Deterministic generic assignment: every symbol gets a non-zero multiple of 1/8 in [-3, 3]."""

    def __init__(self, seed):
        super().__init__()
        self.seed = seed

    def __contains__(self, k):
        return True

    def __getitem__(self, k):
        if not dict.__contains__(self, k):
            import hashlib
            h = int(hashlib.md5(("%s/%s" % (self.seed, k)).encode()).hexdigest()[:8], 16)
            v = (h % 48 - 24) / 8.0
            dict.__setitem__(self, k, v if v != 0 else 0.375)
        return dict.__getitem__(self, k)


def replay(cfg, label, env, case):
    if cfg.get("kind") == "dyad-shared":
        from .common import NumProver
        Pn = NumProver()
        sc_dyad_shared(Vals(env=env), Pn, cfg)
        return Pn.verdict(label)
    return _replay_dag(cfg, label, env, case)


def _replay_dag(cfg, label, env, case):
    """Re-run the graph named in the label on the real library with floats; the expected total derivative
    comes from the hand-written forward-mode reference evaluated in floats.  Solver witnesses of polynomial
    disequalities can be numerically degenerate (difference ~1e-12); if the witness itself does not reproduce,
    the same clause is evaluated at three generic rational points (DESIGN 3.7 step 6, `fallback-probe`)."""
    try:
        parts = label.split("|")
        gi = int(parts[0][1:])
        phase = parts[1]
    except Exception:
        return dict(reproduced=None, detail="cannot parse label %r" % label)
    g = cfg["graphs"][gi - cfg["first"]]
    want = _norm_clause(label.split("|", 2)[2])
    sets = seed_sets(g)
    only = int(phase[1:]) if phase.startswith("S") else None
    det = dict(graph=dict(mods=g["mods"], nest=g["nest"], nsrc=g["nsrc"]), seeded=(sets[only] if only is not None else None))
    hits, failed = _replay_once(g, gi, phase, want, env)
    if hits:
        det.update(found_by="solver-model", failed=[(f[0], f[2]) for f in hits[:4]])
        return dict(reproduced=True, detail=det)
    if want.startswith("skipped"):
        return dict(reproduced=False, detail=det)
    for seed in (1, 2, 3):
        penv = _ProbeEnv(seed)
        hits, _ = _replay_once(g, gi, phase, want, penv)
        if hits:
            det.update(found_by="fallback-probe", probe_values=dict(penv), failed=[(f[0], f[2]) for f in hits[:4]])
            return dict(reproduced=True, detail=det)
    det.update(failed=[(f[0], f[2]) for f in failed[:4]])
    return dict(reproduced=False, detail=det)
