"""C18 - signals and slices alias state, isolate accumulations, reset cleanly.

Executed for real: Signal.__init__/add_sensitivity/reset/__getitem__, SignalSlice.__init__, its
state/sensitivity properties (getter and setter), add_sensitivity, reset.

A *history* is a word over the operation alphabet below, applied to two base signals A and B of the
same shape (B only takes part in "same object added to two signals") and to slices taken from A.
Every numeric value is a fresh symbol.  A plain reference model (`Model`, explicit copies, explicit
flat-index gather/scatter loops) is stepped in lock-step; after EVERY operation state and
sensitivity of A, B and of all live slices are compared entry-wise (solver), None-ness and the
identity/aliasing clauses are compared exactly.  Prefixes of a history are therefore covered by the
history itself.

Operation alphabet (tokens):
  stA   A.state = fresh array                    seA   A.sensitivity = fresh array
  adA   A.add_sensitivity(v), v fresh            adAB  A.add_sensitivity(v); B.add_sensitivity(v)  (same object)
  adN   A.add_sensitivity(None)                  mut   overwrite the last added object v in place
  rsA   A.reset()      rsAk  A.reset(keep_alloc=True)      rsAn  A.reset(keep_alloc=False)
  sl    S = A[primary slice]                     sl2   S = A[secondary slice]   (older slices stay live)
  nest  S = S[nested basic slice]   (S must be a view-producing slice and not nested yet)
  adS   S.add_sensitivity(v), v fresh            rsS   S.reset()
  stS   S.state = fresh                          seS   S.sensitivity = fresh
"""
import copy
import random
import numpy as np

from .common import symbolic_run, Vals

PROPERTY = "C18"

SHAPES = {"s": (), "z": (), "1": (4,), "2": (2, 3), "3": (2, 2, 2), "L": (12,)}     # "z": rank-0 NumPy arrays (mutable scalars)
KINDS = {"L": ["I", "J"], "1": ["B", "T", "I", "N", "R"], "2": ["B", "T", "I", "N", "P", "M", "R"], "3": ["B", "T", "I", "N", "P", "M"]}
OPS_SCALAR = ["stA", "seA", "adA", "adAB", "adN", "rsA", "rsAk", "rsAn"]
OPS_ARRAY = OPS_SCALAR + ["mut", "sl", "sl2", "nest", "adS", "rsS", "stS", "seS"]

BOUNDS = {
    "quick": dict(history_length=4, shapes=["scalar", "rank-0 array", "(4,)", "(2,3)", "(2,2,2)"], dtypes=["real", "complex"],
                  slice_kinds="B basic, T tuple of slices, I integer array (no repeats), N single integer, "
                              "R reversed basic slice (negative step), P tuple of integer arrays (rank>=2), M basic slice mixed with an integer array (rank>=2; NumPy returns "
                              "a copy whose .base is not None); nested basic slice on B/T/N parents; two slice "
                              "kinds (primary/secondary) can be live at the same time",
                  initial="A with and without an initial sensitivity (keep_alloc True/False)",
                  configurations="shape x dtype x initial x primary slice kind = 64 array + 4 scalar configurations",
                  enumeration="array configurations: ALL words of length 3 over the 16-letter alphabet (preconditions "
                              "respected; prefixes are checked on the way) plus a deterministic seeded sample "
                              "(random.Random('C18/<config>')) of 100 words of length 4; scalar configurations: ALL "
                              "words of length 3 over the 8-letter alphabet plus 60 sampled words of length 4",
                  exhaustive_len=3, sampled=[(4, 100)], group_size=250),
    "thorough": dict(history_length=6, shapes=["scalar", "(4,)", "(2,3)", "(2,2,2)"], dtypes=["real", "complex"],
                     slice_kinds="as quick", initial="as quick", configurations="as quick",
                     enumeration="1-D configurations (16, real and complex): ALL words of length 4; 2-D and 3-D configurations "
                                 "(40): ALL words of length 3 plus a seeded sample of 150 words of length 4; every array "
                                 "configuration: a seeded sample of 150 words of length 6; scalar configurations: ALL "
                                 "words of length 4 plus 200 sampled words of length 6. Words of length 5-6 and (outside "
                                 "1-D) of length 4 are therefore covered by sampling only",
                     exhaustive_len=3, exhaustive_len_1d=4, sampled=[(4, 150), (6, 150)], group_size=400),
}
OUTSIDE = ["index arrays with repeated entries (excluded by the property)",
           "non-finite values (inf / nan) in sensitivities: outside exact-real arithmetic; two `nonfinite-concrete-*` regression "
           "items run reset() on kept allocations holding inf / nan (evidence kind `concrete-regression`, not a solver verdict)",
           "a basic slice nested on an integer-array slice (the parent getter returns a copy; see report)",
           "histories longer than the bound and the unsampled words of the maximal length (see BOUNDS.enumeration)",
           "mixing real and complex values inside one ARRAY signal (NumPy casting rules; Python scalars are covered by the "
           "`scalar-mixed` configurations)",
           "slices of a signal whose state is None (raises by design), slices of scalar states",
           "user objects with a custom add_sensitivity (DyadCarrier is covered by C15)",
           "aliasing of values given to plain attribute assignment (Signal.state = v / Signal.sensitivity = v "
           "store the object itself by design); only values passed to add_sensitivity are claimed un-aliased"]
ASSUMPTIONS = ["float64 arithmetic modelled as exact real arithmetic",
               "NumPy indexing on dtype=object arrays equals NumPy indexing on float arrays (validated by the "
               "concretised twin of every item)"]
ITEM_TIMEOUT = {"quick": 150, "thorough": 900}
REPLAYS_PER_GROUP = 2
MAX_REPLAYS = 1000


# ------------------------------------------------------------------------------------------------ slices
def spec(shape_key, kind):
    """Index object for A[...]."""
    if shape_key == "1":
        return {"B": slice(1, 3), "T": (slice(0, 4, 2),), "I": np.array([3, 0, 2]), "N": 2, "R": slice(None, None, -1)}[kind]
    if shape_key == "L":      # two different index arrays of six entries each on one base (long index arrays)
        return {"I": np.arange(0, 12, 2), "J": np.arange(1, 12, 2)}[kind]
    if shape_key == "2":
        return {"B": slice(0, 1), "T": (slice(None), slice(1, 3)), "I": np.array([1, 0]), "N": 1,
                "P": (np.array([0, 1]), np.array([2, 0])), "M": (slice(None), np.array([2, 0])),
                "R": (slice(None), slice(None, None, -1))}[kind]
    if shape_key == "3":
        return {"B": slice(1, 2), "T": (slice(None), slice(0, 1), slice(None)), "I": np.array([1, 0]), "N": 0,
                "P": (np.array([1, 0]), np.array([0, 1]), np.array([1, 1])),
                "M": (slice(0, 2), np.array([1, 0]), 1)}[kind]
    raise KeyError(shape_key)


def nested_spec(shape_key, kind):
    """Basic index applied to the result of spec(shape_key, kind); None if the parent is not nestable."""
    tab = {
        "1": {"B": slice(1, None), "T": slice(0, 1), "R": slice(2, None)},          # x[::-1][2:] reaches entry 0
        "2": {"B": (slice(None), slice(0, 2)), "T": (1, slice(None)), "N": slice(1, 3), "R": (slice(None), slice(1, None))},
        "3": {"B": (0, slice(None), slice(1, 2)), "T": (slice(0, 1), 0), "N": (slice(None), 1)},
    }
    return tab.get(shape_key, {}).get(kind)


def nested_on_fancy_spec(shape_key, kind):
    """Outside the default bound: a basic slice on top of an integer-array slice."""
    tab = {"1": {"I": slice(0, 2)}, "2": {"I": slice(0, 1), "P": slice(1, 2)}, "3": {"I": slice(1, 2), "P": slice(0, 1)}}
    return tab.get(shape_key, {}).get(kind)


# ------------------------------------------------------------------------------------------------ histories
def _valid_next(shape_key, st, op, nof=False):
    """st = (has_added_array, cur_kind or None, cur_nested)."""
    has_added, cur, nested = st
    if op == "mut":
        return has_added
    if op in ("adS", "rsS", "stS", "seS"):
        return cur is not None
    if op == "nest":
        if cur is None or nested:
            return False
        return (nested_spec(shape_key, cur) is not None) or (nof and nested_on_fancy_spec(shape_key, cur) is not None)
    return True


def _advance(st, op, k1, k2):
    has_added, cur, nested = st
    if op in ("adA", "adAB", "adS"):
        has_added = True
    if op == "sl":
        cur, nested = k1, False
    if op == "sl2":
        cur, nested = k2, False
    if op == "nest":
        nested = True
    return (has_added, cur, nested)


def all_words(shape_key, ops, L, k1, k2, nof=False):
    out = []

    def rec(word, st):
        if len(word) == L:
            out.append(list(word))
            return
        ext = False
        for op in ops:
            if _valid_next(shape_key, st, op, nof):
                ext = True
                word.append(op)
                rec(word, _advance(st, op, k1, k2))
                word.pop()
        if not ext:
            out.append(list(word))
    rec([], (False, None, False))
    return out


def sample_words(shape_key, ops, L, n, rnd, k1, k2, nof=False):
    """Seeded random words; the first operation after a slice exists is biased towards slice operations."""
    seen, out = set(), []
    tries = 0
    while len(out) < n and tries < 50 * n:
        tries += 1
        st, word = (False, None, False), []
        for _ in range(L):
            cand = [o for o in ops if _valid_next(shape_key, st, o, nof)]
            w = []
            for o in cand:
                wt = 1.0
                if o in ("sl", "sl2") and st[1] is None:
                    wt = 3.0
                if o in ("adS", "seS", "rsS", "nest", "mut", "adAB"):
                    wt = 2.0
                if o in ("stA", "adN"):
                    wt = 0.5
                w.append(wt)
            op = rnd.choices(cand, weights=w)[0]
            word.append(op)
            st = _advance(st, op, k1, k2)
        t = tuple(word)
        if t not in seen:
            seen.add(t)
            out.append(word)
    return out


def _configs():
    cfgs = []
    for cplx in (False, True):
        for init in (False, True):
            cfgs.append(dict(shape="s", cplx=cplx, init=init, k1=None, k2=None))
            cfgs.append(dict(shape="z", cplx=cplx, init=init, k1=None, k2=None))
    for sk in ("1", "2", "3"):
        kinds = KINDS[sk]
        for cplx in (False, True):
            for init in (False, True):
                for i, k1 in enumerate(kinds):
                    cfgs.append(dict(shape=sk, cplx=cplx, init=init, k1=k1, k2=kinds[(i + 1 + (int(init) + 2 * int(cplx)) % (len(kinds) - 1)) % len(kinds)]))
    for init in (False, True):
        cfgs.append(dict(shape="L", cplx=False, init=init, k1="I", k2="J"))
        cfgs.append(dict(shape="s", cplx="mixed", init=init, k1=None, k2=None))
    return cfgs


def _cfg_name(c):
    return "%s-%s-%s-%s%s" % ({"s": "scalar", "z": "rank0", "1": "1d", "2": "2d", "3": "3d", "L": "1dlong"}[c["shape"]], ("mixed" if c["cplx"] == "mixed" else "cplx") if c["cplx"] else "real",
                              "init" if c["init"] else "noinit", c["k1"] or "", c["k2"] or "")


def _words(c, tier, nof=False):
    b = BOUNDS[tier]
    rnd = random.Random("C18/" + _cfg_name(c))
    sk = c["shape"]
    if sk in ("s", "z"):
        ops = OPS_SCALAR + (["mut"] if sk == "z" else [])
        if tier == "quick":
            return all_words(sk, ops, 3, None, None) + sample_words(sk, ops, 4, 60, rnd, None, None)
        return all_words(sk, ops, 4, None, None) + sample_words(sk, ops, 6, 200, rnd, None, None)
    full4 = tier == "thorough" and sk == "1"
    words = all_words(sk, OPS_ARRAY, b["exhaustive_len_1d"] if full4 else b["exhaustive_len"], c["k1"], c["k2"], nof)
    for L, n in b["sampled"]:
        if full4 and L <= 4:
            continue
        words += sample_words(sk, OPS_ARRAY, L, n, rnd, c["k1"], c["k2"], nof)
    return words


def items(tier):
    import os
    b = BOUNDS[tier]
    nof = bool(os.environ.get("C18_NESTED_ON_FANCY"))
    out = []
    for c in _configs():
        name = _cfg_name(c)
        words = _words(c, tier, nof)
        g = b["group_size"] if c["shape"] not in ("s", "z") else 4 * b["group_size"]
        for j in range(0, len(words), g):
            out.append(dict(kind="hist", id="%s-g%02d" % (name, j // g), shape=c["shape"], cplx=c["cplx"], init=c["init"],
                            k1=c["k1"], k2=c["k2"], nof=nof, first=j, hist=words[j:j + g]))
    for w in range(len(DYAD_WORDS)):
        out.append(dict(kind="dyad", id="dyad-w%d" % w, word=w))
    for cplx in (False, True):
        out.append(dict(kind="nonfinite", id="nonfinite-concrete-%s" % ("cplx" if cplx else "real"), cplx=cplx))
    return out


# ------------------------------------------------------------------------------------------------ reference model
def _cp(v):
    """Explicit value copy."""
    if v is None:
        return None
    if isinstance(v, np.ndarray):
        out = np.empty(v.shape, dtype=v.dtype)
        for i in np.ndindex(*v.shape):
            out[i] = v[i]
        return out
    return v


def _zeros_like(v):
    if isinstance(v, np.ndarray):
        out = np.empty(v.shape, dtype=v.dtype)
        for i in np.ndindex(*v.shape):
            out[i] = 0
        return out
    return 0


class MBase:
    """Reference model of a base signal: values only, every assignment copies."""

    def __init__(self, state=None, sens=None):
        self.state = _cp(state)
        self.sens = _cp(sens)
        self.keep = sens is not None

    def set_state(self, v):
        self.state = _cp(v)

    def set_sens(self, v):
        self.sens = _cp(v)

    def add(self, v):
        if v is None:
            return
        if self.sens is None:
            self.sens = _cp(v)
        elif isinstance(self.sens, np.ndarray):
            new = np.empty(self.sens.shape, dtype=self.sens.dtype)
            vb = np.broadcast_to(np.asarray(v, dtype=self.sens.dtype) if not isinstance(v, np.ndarray) else v, self.sens.shape)
            for i in np.ndindex(*self.sens.shape):
                new[i] = vb[i] + self.sens[i]       # commuted on purpose: not the term the library builds
            self.sens = new
        else:
            self.sens = v + self.sens

    def reset(self, keep=None):
        if self.sens is None:
            return
        if keep is None:
            keep = self.keep
        self.sens = _zeros_like(self.sens) if keep else None


class MSlice:
    """Reference model of a (possibly nested) slice: the list of flat positions it selects in the root."""

    def __init__(self, root, shape, path):
        self.root = root
        pos = np.arange(int(np.prod(shape))).reshape(shape)
        for p in path:
            pos = pos[p]
        self.pos = np.asarray(pos)      # flat indices into the root, in the shape of the sliced value
        self.scalar = (self.pos.ndim == 0)

    def _gather(self, arr):
        if arr is None:
            return None
        flat = arr.reshape(-1)
        if self.scalar:
            return flat[int(self.pos)]
        out = np.empty(self.pos.shape, dtype=arr.dtype)
        for i in np.ndindex(*self.pos.shape):
            out[i] = flat[self.pos[i]]
        return out

    def _scatter(self, arr, v, add=False):
        """arr is modified entry-wise (arr is owned by the model)."""
        flat = arr.reshape(-1)            # arr is C-contiguous and owned: reshape is a view
        assert np.shares_memory(flat, arr)
        if self.scalar:
            flat[int(self.pos)] = (v + flat[int(self.pos)]) if add else v
            return
        vb = v if isinstance(v, np.ndarray) else np.full(self.pos.shape, v, dtype=object if arr.dtype == object else arr.dtype)
        vb = np.broadcast_to(vb, self.pos.shape)
        for i in np.ndindex(*self.pos.shape):
            flat[self.pos[i]] = (vb[i] + flat[self.pos[i]]) if add else vb[i]

    @property
    def state(self):
        return self._gather(self.root.state)

    @property
    def sens(self):
        return self._gather(self.root.sens)

    def set_state(self, v):
        self._scatter(self.root.state, v)

    def _alloc(self):
        if self.root.sens is None:
            self.root.sens = _zeros_like(self.root.state)

    def set_sens(self, v):
        if self.root.sens is None and v is None:
            return
        self._alloc()
        self._scatter(self.root.sens, 0 if v is None else v)

    def add(self, v):
        if v is None:
            return
        self._alloc()
        self._scatter(self.root.sens, v, add=True)

    def reset(self):
        if self.root.sens is not None:
            self._scatter(self.root.sens, 0)


# ------------------------------------------------------------------------------------------------ checker
class Checker:
    """Symbolic mode: states obligations on the Prover. Concrete mode: evaluates them numerically."""

    def __init__(self, P, prefix):
        self.P = P
        self.prefix = prefix
        self.failed = []          # concrete mode: list of (label, kind, detail)
        self.n = 0
        self._seen = len(P.obls) if P is not None else 0

    def failed_now(self):
        """True if an obligation stated since the last call is not discharged (symbolic mode)."""
        if self.P is None:
            return False
        new = self.P.obls[self._seen:]
        self._seen = len(self.P.obls)
        return any(o.status != "unsat" for o in new)

    def exact(self, label, ok, kind, detail=None):
        label = self.prefix + label
        self.n += 1
        if self.P is not None:
            self.P.holds(label, bool(ok), kind=kind)
        elif not ok:
            self.failed.append((label, kind, detail))

    def values(self, label, got, exp, kind):
        """None-ness exactly, then shape and entries."""
        self.exact(label + ".is-none", (got is None) == (exp is None), kind + "-none",
                   detail="impl None: %s, model None: %s" % (got is None, exp is None))
        if got is None or exp is None:
            return
        label = self.prefix + label
        self.n += 1
        if self.P is not None:
            g = got if isinstance(got, np.ndarray) else np.array(got, dtype=object)
            e = exp if isinstance(exp, np.ndarray) else np.array(exp, dtype=object)
            self.P.arrays_eq(label, g, e, kind=kind)
        else:
            g, e = np.asarray(got), np.asarray(exp)
            if g.shape != e.shape:
                self.failed.append((label, kind, "shape %s vs %s" % (g.shape, e.shape)))
            elif g.size and not np.allclose(g, e, rtol=1e-9, atol=1e-12):
                self.failed.append((label, kind, "impl %s model %s" % (g.tolist(), e.tolist())))


# ------------------------------------------------------------------------------------------------ one history
class _Vgen:
    def __init__(self, V, h, shape, cplx, rank0=False):
        self.V, self.h, self.shape, self.cplx, self.k, self.rank0 = V, h, shape, cplx, 0, rank0

    def fresh(self, shape=None):
        shape = self.shape if shape is None else shape
        # the histories of one item are independent programs: they share the symbol names v0, v1, ...
        # (every obligation is quantified over all of them), which keeps the number of solver symbols small
        name = "v%d" % self.k
        self.k += 1
        if shape == ():
            if self.cplx == "mixed":      # Python scalars: real and complex contributions alternate (float + complex is complex)
                v = self.V.real(name) if self.k % 2 == 1 else self.V.cplx(name)
            else:
                v = self.V.cplx(name) if self.cplx else self.V.real(name)
            if self.rank0:      # a rank-0 array: what NumPy reductions / upstream modules hand over, and mutable
                return np.array(v, dtype=object) if self.V.symbolic else np.array(v)
            return v
        return self.V.cplxs(name, shape) if self.cplx else self.V.reals(name, shape)


def _shares(a, b):
    return isinstance(a, np.ndarray) and isinstance(b, np.ndarray) and bool(np.shares_memory(a, b))


def run_history(V, P, cfg, h, word, upto=None):
    """Executes one history on the real classes and on the model; returns (checker, observables)."""
    import pymoto as pym
    sk, cplx = cfg["shape"], cfg["cplx"]
    shape = SHAPES[sk]
    gen = _Vgen(V, h, shape, cplx, rank0=(sk == "z"))
    ck = Checker(P, "h%d|" % h)

    x0, y0 = gen.fresh(), gen.fresh()
    if cfg["init"]:
        s0 = gen.fresh()
        A, MA = pym.Signal("A", state=x0, sensitivity=s0), MBase(x0, s0)
    else:
        A, MA = pym.Signal("A", state=x0), MBase(x0)
    B, MB = pym.Signal("B", state=y0), MBase(y0)
    live = []                 # (name, SignalSlice, MSlice, kind, nested)
    added = []                # (name, object, expected values)
    cur = None

    def compare(step):
        pre = "%d|" % step
        for nm, S, M in (("A", A, MA), ("B", B, MB)):
            ck.values(pre + nm + ".state", S.state, M.state, "state")
            ck.values(pre + nm + ".sens", S.sensitivity, M.sens, "sens")
        for nm, S, M, _, _ in live:
            ck.values(pre + nm + ".state", S.state, M.state, "slice-state")
            ck.values(pre + nm + ".sens", S.sensitivity, M.sens, "slice-sens")
        sa, sb = A.sensitivity, B.sensitivity
        ck.exact(pre + "alias.A-B", not _shares(sa, sb) or sa is None, "alias", detail="A.sensitivity shares memory with B.sensitivity")
        for nm, obj, exp in added:
            if isinstance(obj, np.ndarray):
                ck.exact(pre + "alias.%s-A" % nm, (sa is not obj) and not _shares(sa, obj), "alias",
                         detail="A.sensitivity aliases the added object " + nm)
                ck.exact(pre + "alias.%s-B" % nm, (sb is not obj) and not _shares(sb, obj), "alias",
                         detail="B.sensitivity aliases the added object " + nm)
            ck.values(pre + "added.%s.unchanged" % nm, obj, exp, "added-unchanged")

    compare(0)
    for step, op in enumerate(word, start=1):
        if upto is not None and step > upto:
            break
        try:
            if op == "stA":
                v = gen.fresh()
                A.state = v
                MA.set_state(v)
            elif op == "seA":
                v = gen.fresh()
                A.sensitivity = v
                MA.set_sens(v)
            elif op == "adA":
                v = gen.fresh()
                r = A.add_sensitivity(v)
                MA.add(v)
                added.append(("v%d" % (gen.k - 1), v, _cp(v)))
                ck.exact("%d|adA.returns-self" % step, r is A, "api")
            elif op == "adAB":
                v = gen.fresh()
                A.add_sensitivity(v)
                B.add_sensitivity(v)
                MA.add(v)
                MB.add(v)
                added.append(("v%d" % (gen.k - 1), v, _cp(v)))
            elif op == "adN":
                A.add_sensitivity(None)
            elif op == "mut":
                nm, obj, exp = added[-1]
                w = gen.fresh(np.shape(obj))
                if isinstance(obj, np.ndarray):
                    obj[...] = w                         # in place: the caller re-uses its buffer
                    added[-1] = (nm, obj, _cp(w))
                # scalars are immutable: nothing to mutate
            elif op in ("rsA", "rsAk", "rsAn"):
                keep = {"rsA": None, "rsAk": True, "rsAn": False}[op]
                before = A.sensitivity
                r = A.reset() if keep is None else A.reset(keep_alloc=keep)
                eff = MA.keep if keep is None else keep
                MA.reset(keep)
                ck.exact("%d|reset.returns-self" % step, r is A, "api")
                if eff and isinstance(before, np.ndarray):
                    ck.exact("%d|reset.in-place" % step, A.sensitivity is before, "alias",
                             detail="reset(keep_alloc=True) did not keep the allocation")
            elif op in ("sl", "sl2"):
                k = cfg["k1"] if op == "sl" else cfg["k2"]
                sp = spec(sk, k)
                S = A[sp]
                nm = "S%d%s" % (len(live), k)
                cur = (nm, S, MSlice(MA, shape, [sp]), k, False)
                live.append(cur)
                ck.exact("%d|slice.type" % step, isinstance(S, pym.core_objects.SignalSlice) and S.base is A, "api")
            elif op == "nest":
                nm0, S0, M0, k, _ = cur
                nsp = nested_spec(sk, k)
                if nsp is None:
                    nsp = nested_on_fancy_spec(sk, k)
                S = S0[nsp]
                nm = "S%d%sn" % (len(live), k)
                cur = (nm, S, MSlice(MA, shape, [spec(sk, k), nsp]), k, True)
                live.append(cur)
            elif op == "adS":
                nm, S, M, k, _ = cur
                v = gen.fresh(np.shape(M.pos))
                r = S.add_sensitivity(v)
                M.add(v)
                added.append(("v%d" % (gen.k - 1), v, _cp(v)))
                ck.exact("%d|adS.returns-self" % step, r is S, "api")
            elif op == "rsS":
                nm, S, M, k, _ = cur
                r = S.reset()
                M.reset()
                ck.exact("%d|rsS.returns-self" % step, r is S, "api")
            elif op == "stS":
                nm, S, M, k, _ = cur
                v = gen.fresh(np.shape(M.pos))
                S.state = v
                M.set_state(v)
            elif op == "seS":
                nm, S, M, k, _ = cur
                v = gen.fresh(np.shape(M.pos))
                S.sensitivity = v
                M.set_sens(v)
            else:
                raise ValueError("unknown operation %r" % op)
            compare(step)
            if ck.failed_now():
                break                 # everything downstream of a failed step would fail as well
        except Exception as e:       # an exception of the code under test inside a precondition-respecting history
            from .common import _raised_in_repo
            if not _raised_in_repo(e):
                raise
            ck.exact("%d|exception:%s" % (step, type(e).__name__), False, "exception", detail=str(e)[:300])
            break
    obs = {"h%d.A.state" % h: A.state, "h%d.A.sens" % h: A.sensitivity, "h%d.B.sens" % h: B.sensitivity}
    for nm, S, M, _, _ in live:
        try:
            obs["h%d.%s.state" % (h, nm)] = S.state
            obs["h%d.%s.sens" % (h, nm)] = S.sensitivity
        except Exception:
            pass
    return ck, obs


MAX_FAILING_HISTORIES_PER_ITEM = 6


def sc_hist(V, P, cfg):
    obs = {}
    nfail = 0
    for j, word in enumerate(cfg["hist"]):
        n0 = len(P.obls) if P is not None else 0
        ck, o = run_history(V, P, cfg, cfg["first"] + j, word)
        if P is not None and any(ob.status != "unsat" for ob in P.obls[n0:]):
            nfail += 1                # (a failed history was cut short: its observables are not twin-compared)
            if nfail >= MAX_FAILING_HISTORIES_PER_ITEM and j + 1 < len(cfg["hist"]):
                # bounded effort on a broken tree; stated as an undischarged obligation, never as held
                P.holds("h%d|0|skipped-%d-histories-after-%d-failing" % (cfg["first"] + j + 1, len(cfg["hist"]) - j - 1, nfail),
                        _unknown(), kind="skipped")
                break
        else:
            obs.update(o)
    return obs


def _unknown():
    """An obligation the solver cannot discharge and that has no reproducing model is inconclusive."""
    import z3
    from symx import SB
    return SB(z3.Bool("skipped!remaining-histories"))


# ------------------------------------------------------------------------------------------------ dyadic values
DYAD_WORDS = [
    ["addA(D)", "addB(D)", "addA(E)"],                 # same object to two signals, then accumulate into one
    ["addA(D)", "addB(D)", "addB(E)", "addA(E)"],
    ["addA(D)", "mutate(D)"],                          # changing the added object afterwards
    ["addA(D)", "addA(E)", "mutate(E)", "addB(E)"],
    ["addA(D)", "addB(D)", "resetA", "addA(E)"],
    ["addA(D)", "addB(D)", "addA(D)"],                 # the same object twice into one signal
]


def sc_dyad(V, P, cfg):
    """Signals whose sensitivity is a DyadCarrier (what LinSolve/EigenSolve produce for sparse matrices): the value
    passed to add_sensitivity must not be aliased (it has mutable members: the u and v lists)."""
    import pymoto as pym
    from .common import NumProver
    n = 2
    word = DYAD_WORDS[cfg["word"]]

    def mk(name):
        u, v = V.reals(name + "u", n, nonzero=True), V.reals(name + "v", n, nonzero=True)
        return pym.DyadCarrier(u, v), np.outer(np.asarray(u), np.asarray(v))
    D, Dd = mk("D")
    E, Ed = mk("E")
    vals = {"D": [D, Dd], "E": [E, Ed]}
    sigs = {"A": pym.Signal("A"), "B": pym.Signal("B")}
    model = {"A": None, "B": None}
    obs = {}
    for k, op in enumerate(word):
        if op.startswith("add"):
            sg, nm = op[3], op[5]
            sigs[sg].add_sensitivity(vals[nm][0])
            model[sg] = vals[nm][1].copy() if model[sg] is None else model[sg] + vals[nm][1]
        elif op.startswith("mutate"):
            nm = op[7]
            extra_u, extra_v = V.reals("m%du" % k, n, nonzero=True), V.reals("m%dv" % k, n, nonzero=True)
            vals[nm][0].add_dyad(extra_u, extra_v)             # the caller keeps using its own object
            vals[nm][1] = vals[nm][1] + np.outer(np.asarray(extra_u), np.asarray(extra_v))
        elif op.startswith("reset"):
            sigs[op[5]].reset()
            model[op[5]] = None
        for sg in ("A", "B"):
            got = sigs[sg].sensitivity
            lab = "w%d|%d|%s:%s" % (cfg["word"], k + 1, op, sg)
            if P is not None:
                if model[sg] is None or got is None:
                    P.holds(lab + ".is-none", (got is None) == (model[sg] is None), kind="dyad-sensitivity")
                else:
                    P.arrays_eq(lab, got.todense(), model[sg], kind="dyad-sensitivity")
                    for nm in ("D", "E"):
                        P.holds(lab + ".not-the-added-object(%s)" % nm, got is not vals[nm][0], kind="dyad-aliasing")
            obs["s%d%s" % (k, sg)] = None if got is None else got.todense()
    return obs


def sc_nonfinite_concrete(V, P, cfg):
    """Concrete regression items (NOT a solver verdict; evidence kind `concrete-regression`): reset() of a kept allocation that
    holds non-finite entries (a diverged back-propagation) leaves exact zeros; non-finite values are outside the exact-real
    model of the symbolic items."""
    import pymoto as pym
    from .common import NumProver
    Pn = P if P is not None else NumProver()
    if V.symbolic:
        from symx import npshim
        npshim.uninstall()
    try:
        cplx = cfg.get("cplx", False)
        vals = np.array([np.inf, np.nan, 1.5, -np.inf], dtype=complex if cplx else float)
        res = {}
        s1 = pym.Signal("a", np.ones(4, dtype=vals.dtype), sensitivity=vals.copy())
        s1.reset(keep_alloc=True)
        res["base-reset"] = s1.sensitivity
        s2 = pym.Signal("b", np.ones(4, dtype=vals.dtype), sensitivity=vals.copy())
        s2[1:3].reset()
        res["slice-reset"] = None if s2.sensitivity is None else np.asarray(s2.sensitivity)[1:3]
        s3 = pym.Signal("c", np.ones(4, dtype=vals.dtype))
        s3.add_sensitivity(vals.copy())
        s3.reset(keep_alloc=True)
        res["added-then-reset"] = s3.sensitivity
    finally:
        if V.symbolic:
            npshim.install()
    obs = {}
    for k, v in res.items():
        ok = v is not None and np.all(np.asarray(v) == 0)
        Pn.holds("nonfinite:%s-gives-exact-zeros" % k, bool(ok), kind="concrete-regression:non-finite")
        obs[k] = float(bool(ok))
    return obs


SCEN = {"hist": sc_hist, "dyad": sc_dyad, "nonfinite": sc_nonfinite_concrete}


def run_item(cfg, tier):
    from .refs_merge import merge_discharged, prime_inspect_cache
    prime_inspect_cache()
    if cfg["kind"] == "dyad":
        return symbolic_run(sc_dyad, cfg, tier, max_paths=8)
    if cfg["kind"] == "nonfinite":
        return symbolic_run(sc_nonfinite_concrete, cfg, tier, max_paths=2, validate=False)
    return merge_discharged(symbolic_run(SCEN[cfg["kind"]], cfg, tier, max_paths=4))


# ------------------------------------------------------------------------------------------------ replay
def _norm_clause(c):
    """Array-level name of a clause: entry index and .re/.im/.shape/.is-none suffixes removed."""
    c = c.split("[")[0]
    for suf in (".is-none", ".shape", ".re", ".im"):
        if c.endswith(suf):
            c = c[: -len(suf)]
    return c


def replay(cfg, label, env, case):
    """Re-run the one history named in the label on the real library with floats, with the model in lock-step."""
    if cfg.get("kind") == "dyad":
        from .common import NumProver
        P = NumProver()
        sc_dyad(Vals(env=env), P, cfg)
        return P.verdict(label)
    if cfg.get("kind") == "nonfinite":
        from .common import NumProver
        P = NumProver()
        sc_nonfinite_concrete(Vals(env=env), P, cfg)
        return P.verdict(label)
    try:
        h = int(label.split("|")[0][1:])
        step = int(label.split("|")[1])
    except Exception:
        return dict(reproduced=None, detail="cannot parse label %r" % label)
    word = cfg["hist"][h - cfg["first"]]
    V = Vals(env=env)
    ck, _ = run_history(V, None, cfg, h, word, upto=step)
    want = _norm_clause(label.split("|", 2)[2])
    hits = [f for f in ck.failed if int(f[0].split("|")[1]) == step and _norm_clause(f[0].split("|", 2)[2]) == want]
    same_step = [f for f in ck.failed if int(f[0].split("|")[1]) == step]
    det = dict(history=word, step=step, operation=word[step - 1] if 0 < step <= len(word) else "initial",
               config={k: cfg[k] for k in ("shape", "cplx", "init", "k1", "k2")},
               failed=[(f[0], f[2]) for f in (hits or same_step)[:4]])
    if hits:
        return dict(reproduced=True, detail=det)
    return dict(reproduced=False, detail=det)
