"""C01 - every module's sensitivity is the exact adjoint of its response.

Executed for real: Module.__init__/_prepare, response(), seeding, sensitivity() of the modules in
harness/catalogue.py.  Oracle: symx.diffz3 applied to the output terms produced by response().
"""
import itertools
import numpy as np

from symx import R, C, SB
from symx.array import wrap, is_complex_content
from .common import symbolic_run, Vals
from .catalogue import BUILDERS, module_grid, dense_entries
from . import adjoint as adj

PROPERTY = "C01"
BOUNDS = {
    "quick": dict(meshes_2d="<= 2x2 (assembly 2x1 with bc), 3x2 for filters", meshes_3d="1x1x1 / 2x2x2 (filters)",
                  vector_sizes="2..3", matrix_sizes="n <= 3", overhang="2 layers generic exponents; 3 layers p=q=1",
                  seeds="all outputs; each single output for multi-output modules"),
    "thorough": dict(meshes_2d="<= 3x2 (4x3 filters)", meshes_3d="<= 2x2x1 (2x2x3 overhang)", matrix_sizes="n <= 4",
                     overhang="2 layers generic exponents; 3-4 layers p=q=1", seeds="all subsets of outputs"),
}
OUTSIDE = ["AutoMod (jax absent), plotting / IO modules (no sensitivities)", "sizes beyond the grid",
           "OverhangFilter with >= 3 layers and generic exponents", "non-differentiable points (ties, |z|=0)",
           "EigenSolve: dense n=2 only (matrix defined from free eigen-data; sparse ARPACK path and n>2 not covered); complex "
           "Hermitian pencils only through two `*-concrete-fd` regression items (real LAPACK, fixed values, central differences: "
           "evidence kind `concrete-regression`, not a solver verdict)",
           "IEEE rounding"]
ASSUMPTIONS = ["float64 arithmetic modelled as exact real arithmetic",
               "inner linear solver of LinSolve/SystemOfEquations/StaticCondensation is a contract oracle (C05 covers solvers)",
               "obligations are stated per independent real symbol of the (possibly structured) inputs: "
               "Re sum g*dx/ds == d/ds Re sum w*y"]
ITEM_TIMEOUT = {"quick": 240, "thorough": 900}


def VIEWS_LAYOUT_ITEMS(it, tier):
    return not it.get("concrete_fd")


def items(tier):
    out = []
    for g in module_grid(tier):
        out.append(dict(g, kind="adjoint:" + g["mod"]))
    return out


def sc_concrete_fd(V, P, cfg):
    """Concrete regression items (NOT a solver verdict; evidence kind `concrete-regression`): the adjoint obligation
    sum_e Re(g_e dx_e/ds) == d/ds sum_j Re(w_j y_j) evaluated by Richardson-extrapolated central differences on the real
    library at fixed inputs - for module classes whose symbolic contracts the solver does not decide in time."""
    if V.symbolic:
        from symx import npshim
        npshim.uninstall()
    try:
        from .common import GenericEnv
        worst, bad = 0.0, []
        for s_ in cfg["symbols"]:
            r = replay(dict(cfg, concrete_fd=False), "adj:d/d" + s_, GenericEnv(3), None)
            det = r.get("detail") if isinstance(r.get("detail"), dict) else {}
            if r.get("reproduced") is not False:
                bad.append((s_, det.get("analytic"), det.get("numeric")))
    finally:
        if V.symbolic:
            npshim.install()
    if P is not None:
        P.holds("concrete-fd:adjoint-matches-central-differences", not bad, kind="concrete-regression:adjoint-fd")
    return dict(nbad=float(len(bad)), _bad=bad) if P is None else dict(nbad=float(len(bad)))


def scenario(V, P, cfg):
    if cfg.get("concrete_fd"):
        return sc_concrete_fd(V, P, cfg)
    setup = BUILDERS[cfg["mod"]](V, cfg)
    m = setup.module
    in_entries = [np.array(dense_entries(s.state), dtype=object, copy=True) if V.symbolic else
                  np.array(dense_entries(s.state), copy=True) for s in setup.inputs]
    m.response()
    outs = m.sig_out
    y_entries = [dense_entries(s.state) for s in outs]
    obs = {}
    for j, y in enumerate(y_entries):
        obs["y%d" % j] = y
    seeded = cfg.get("seeded")
    if seeded is None:
        seeded = list(range(len(outs)))
    W = []
    for j, s in enumerate(outs):
        if j in seeded:
            kind = setup.seed_kinds.get(j, "dense")
            if kind == "preimage_T" and cfg.get("real_seed"):
                # a real-typed seed on a complex output (np.ones(n), a selection vector, ...): no pre-image, the adjoint
                # system is answered by the oracle's exact small-system fallback
                shp = np.shape(dense_entries(s.state))
                seed = V.reals("wr%d" % j, shp)
                Wd = np.asarray(seed)
            elif kind == "preimage_T":
                seed, Wd = _preimage_seed(V, setup, s.state)
            elif kind == "dense" and cfg.get("real_seed"):
                # a real-typed seed (1.0, np.ones(n)) on an output whose value is complex
                shp = np.shape(dense_entries(s.state))
                seed = V.reals("wr%d" % j, shp) if shp else V.real("wr%d" % j)
                Wd = np.asarray(seed)
            else:
                seed, Wd = adj.make_seed(V, j, s.state, kind, setup)
            W.append(np.array(Wd, dtype=object if V.symbolic else None, copy=True))   # snapshot before the call
            s.sensitivity = seed
        else:
            W.append(None)
    m.sensitivity()
    g = [dense_entries(s.sensitivity) for s in setup.inputs]
    for i, gi in enumerate(g):
        obs["g%d" % i] = gi
    if cfg.get("twin_abs"):
        # eigenvectors are defined up to sign when their mean entry is exactly 0 (LAPACK's sign is then arbitrary):
        # the concretised twin compares sign-invariant observables only
        obs = {k: (None if v is None else np.asarray(v) * np.asarray(v)) for k, v in obs.items() if k.startswith("y")}
    if P is not None:
        n = adj.adjoint_obligations(P, V.c, in_entries, g, y_entries, W, base=setup.base,
                                    tangent=(setup.tangent(y_entries) if setup.tangent else None))
        if n == 0:
            P.holds("no-input-symbols", False, kind="vacuous")
    return obs


def _preimage_seed(V, setup, ystate):
    """Seed of LinSolve's output as w := A^T lam for free lam (adjoint pre-image)."""
    A = dense_entries(setup.inputs[0].state)
    y = dense_entries(ystate)
    shp = np.shape(y)
    cplx = (is_complex_content(A) or is_complex_content(y)) if V.symbolic else (np.iscomplexobj(A) or np.iscomplexobj(y))
    lam = V.cplxs("lam", shp) if cplx else V.reals("lam", shp)
    w = np.asarray(A).T @ np.asarray(lam)
    if V.symbolic:
        from symx import oracles
        oracles.add_candidate(lam)
        oracles.add_candidate(wrap(np.asarray(lam)).conj())
        w = wrap(np.asarray(w, dtype=object))
    return w, np.asarray(w)


def run_item(cfg, tier):
    if cfg.get("logical_dtype"):
        from symx.array import enable_logical_dtype
        enable_logical_dtype(True)      # forked worker: NumPy's real/complex casting rules for in-place operations
    return symbolic_run(scenario, cfg, tier, max_paths=cfg.get("max_paths", 60), twin_exceptions=True)


# ------------------------------------------------------------------------------------------------
def replay(cfg, label, env, case):
    """Numeric check of the violated adjoint obligation on the real library."""
    import warnings
    warnings.simplefilter("ignore")
    if cfg.get("concrete_fd"):
        obs = sc_concrete_fd(Vals(env=env), None, cfg)
        return dict(reproduced=bool(obs["nbad"] > 0), detail=dict(mismatching_symbols=[list(map(str, b)) for b in obs["_bad"]]))
    if label.startswith("exception:"):
        try:
            scenario(Vals(env=env), None, cfg)
        except Exception as e:
            return dict(reproduced=type(e).__name__ == label.split(":", 1)[1], detail="%s: %s" % (type(e).__name__, str(e)[:200]))
        return dict(reproduced=False, detail="no exception on the real library")
    if label == "*":
        # any clause of the item (twin disagreement): the adjoint clause of every symbol of the model, first failing one
        last = None
        for sname in sorted(k for k in env if not (k.startswith("w") or k.startswith("lam") or k.startswith("rnd"))):
            try:
                r = replay(cfg, "adj:d/d" + sname, env, case)
            except Exception as e:
                from .common import _raised_in_repo
                if _raised_in_repo(e):
                    return dict(reproduced=True, detail=dict(clause="completes without raising", raised="%s: %s" % (type(e).__name__, str(e)[:200])))
                continue
            if r.get("reproduced") is True:
                r["detail"] = dict(r.get("detail") or {}, clause="adj:d/d" + sname)
                return r
            last = r
        return dict(reproduced=False, detail="every adjoint clause holds on the real library") if last is not None else \
            dict(reproduced=None, detail="no symbols to differentiate")
    if label.startswith("adj:shape(d/d") and label.endswith(")"):
        label = "adj:d/d" + label[len("adj:shape(d/d"):-1]       # decided by the value clause of the same symbol
    if not label.startswith("adj:d/d"):
        return dict(reproduced=None, detail="no replay for label " + label)
    s = label[len("adj:d/d"):]

    def run(e):
        V = Vals(env=e)
        setup = BUILDERS[cfg["mod"]](V, cfg)
        m = setup.module
        xin = [np.array(dense_entries(sg.state), dtype=complex).reshape(-1) for sg in setup.inputs]
        m.response()
        ys = [np.array(dense_entries(sg.state), dtype=complex).reshape(-1) for sg in m.sig_out]
        seeded = cfg.get("seeded")
        if seeded is None:
            seeded = list(range(len(m.sig_out)))
        Ws = []
        for j, sg in enumerate(m.sig_out):
            if j in seeded:
                kind = setup.seed_kinds.get(j, "dense")
                if kind == "preimage_T" and cfg.get("real_seed"):
                    seed = V.reals("wr%d" % j, np.shape(dense_entries(sg.state)))
                    Wd = np.asarray(seed)
                elif kind == "preimage_T":
                    seed, Wd = _preimage_seed(V, setup, sg.state)
                elif kind == "dense" and cfg.get("real_seed"):
                    shp = np.shape(dense_entries(sg.state))
                    seed = V.reals("wr%d" % j, shp) if shp else V.real("wr%d" % j)
                    Wd = np.asarray(seed)
                else:
                    seed, Wd = adj.make_seed(V, j, sg.state, kind, setup)
                sg.sensitivity = seed
                Ws.append(np.array(Wd, dtype=complex).reshape(-1))
            else:
                Ws.append(None)
        return setup, m, xin, ys, Ws

    setup, m, x0, y0, Ws = run(env)
    m.sensitivity()
    g = []
    for sg, x in zip(setup.inputs, x0):
        gi = dense_entries(sg.sensitivity)
        gi = None if gi is None else np.array(gi, dtype=complex).reshape(-1)
        g.append(np.zeros_like(x) if gi is None or gi.size == 0 else gi)      # (an unshaped empty DyadCarrier is a zero)

    def F_and_x(t):
        e = dict(env)
        e[s] = env.get(s, 0.0) + t
        _, _, xin, ys, _ = run(e)
        F = sum(float(np.real(np.sum(W * y))) for W, y in zip(Ws, ys) if W is not None)
        return F, xin

    h = 1e-4 * max(1.0, abs(env.get(s, 0.0)))

    def cd(hh):
        Fp, xp = F_and_x(hh)
        Fm, xm = F_and_x(-hh)
        return (Fp - Fm) / (2 * hh), [(a - b) / (2 * hh) for a, b in zip(xp, xm)]
    d1, dx1 = cd(h)
    d2, dx2 = cd(h / 2)
    dF = (4 * d2 - d1) / 3
    dx = [(4 * b - a) / 3 for a, b in zip(dx1, dx2)]
    lhs = sum(float(np.real(np.sum(gi * dxi))) for gi, dxi in zip(g, dx))
    scale = max(1.0, abs(dF), abs(lhs))
    bad = abs(lhs - dF) > 1e-5 * scale
    return dict(reproduced=bool(bad), detail=dict(symbol=s, analytic=lhs, numeric=dF))
