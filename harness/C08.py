"""C08 - FE assembly equals the scaled element sum and keeps its physics.

Executed for real: DomainDefinition.__init__/get_elemconnectivity/get_dofconnectivity/eval_shape_fun(_der),
AssembleGeneral/AssembleStiffness/AssembleMass/AssemblePoisson._prepare (Gauss loops, get_B, get_D) and
_response (value scaling, bc masking, sparse construction, add_constant).

Reference (written here, independent of domain.conn / dofconn): Cartesian numbering
node(i,j,k) = (k*(nely+1)+j)*(nelx+1)+i, element(i,j,k) = (k*nely+j)*nelx+i, local node order x fastest,
dof = node*ndof + d, plain loops.
"""
import numpy as np

from symx import R, SB
from .common import symbolic_run
from .refs_fe import (Mesh, Chk, dense, ref_scatter, ref_elmat, prefer_moderate, generic_replay, dot as _dot,
                      matvec as _matvec, tot as _tot, lame as _lame)

PROPERTY = "C08"

_M2Q = [(1, 1, 0), (2, 1, 0), (1, 2, 0), (2, 2, 0)]
_M2T = _M2Q + [(3, 2, 0)]
_M3Q = [(1, 1, 1)]
_M3T = _M3Q + [(2, 1, 1), (2, 2, 1)]
_SIZES = ["1/2", "1", "2"]
_NUS = ["-1/2", "0", "3/10", "9/20"]

BOUNDS = {
    "quick": dict(meshes_2d=_M2Q, meshes_3d=_M3Q, dofs_per_node=[1, 2, 3], bc_sets=["none", "one dof", "several dofs"],
                  plane=["strain", "stress"], matrix_type=["csc", "csr"],
                  symbolic="x, element sizes ux,uy,uz > 0 (uz = out-of-plane thickness in 2D), E > 0, -1 < nu < 1/2, rho, "
                           "kappa, bcdiagval, all entries of the general element matrix and of add_constant, rigid-body / "
                           "linear-field coefficients",
                  psd_2d=dict(a=_SIZES, b=_SIZES, nu=_NUS, plane=["strain", "stress"], E=1, thickness=1),
                  psd_3d=dict(sizes=[["1", "1", "1"], ["1/2", "1", "2"]], nu=["0", "3/10"], E=1)),
    "thorough": dict(meshes_2d=_M2T, meshes_3d=_M3T, dofs_per_node=[1, 2, 3],
                     bc_sets=["none", "one dof", "several dofs"], plane=["strain", "stress"], matrix_type=["csc", "csr"],
                     symbolic="as quick",
                     psd_2d=dict(a=_SIZES, b=_SIZES, nu=_NUS, plane=["strain", "stress"], E=1, thickness=1),
                     psd_3d=dict(a=_SIZES, b=_SIZES, c=_SIZES, nu=_NUS, E=1)),
}
OUTSIDE = ["meshes larger than the grid, 1D domains, user-overridden node_numbering",
           "positive semi-definiteness for element sizes / Poisson ratios outside the rational grid (symbolic sizes and "
           "material time out, DESIGN.md section 4)",
           "bc lists with repeated dofs (the diagonal value is then added twice)",
           "complex element matrices (covered by the adjoint check C01)", "IEEE rounding", "sparse storage details "
           "(explicit zeros, index dtype): SymSparse is a dense stand-in"]
ASSUMPTIONS = ["float64 arithmetic modelled as exact real arithmetic; np.sqrt(3) is an algebraic constant s>0, s*s=3",
               "scipy.sparse constructor replaced by SymSparse (dense object array, duplicates summed like scipy); "
               "validated against the real scipy matrix by the concretised twin on every item",
               "PSD (clause 4): K(x) = sum_e x_e S_e K_e S_e^T with S_e the 0/1 scatter of element e (clause 1, proved for "
               "every configuration of the grid), hence u^T K(x) u = sum_e x_e (S_e^T u)^T K_e (S_e^T u) >= 0 whenever "
               "x >= 0 and u_e^T K_e u_e >= 0 for all u_e; the latter is what the solver is asked, per element, on the "
               "rational grid of element sizes / Poisson ratios, with E = 1 and unit thickness (K_e is linear in E > 0 and "
               "in the thickness > 0, proved by the obligations of kind 'elmat-linear-in-E')",
               "clause 1 for Stiffness/Mass/Poisson reads K_e from the module (m.elmat); K_e itself is pinned by symmetry, "
               "rigid-body null space, PSD, total mass, Poisson energy and by two clauses added here: the strain energy of "
               "an affine displacement field with the textbook isotropic law (kind stiffness-affine-energy, implied by C12's "
               "energy clause) and, on the one-element meshes, entry-wise equality of K_e / M_e / P_e with the EXACT integral "
               "of the definition over the bilinear shape functions written in harness/refs_fe.py (kind "
               "elmat-exact-integral; 2-point Gauss is exact for these integrands, so a wrong Gauss point is a violation)",
               "replay witnesses are preferred (not required) to have sizes, E, rho, kappa, x >= 1/4 so that the float "
               "replay is well scaled"]
ITEM_TIMEOUT = {"quick": 240, "thorough": 900}


# ------------------------------------------------------------------------------------------------
def _matrix_type(V, cfg):
    if not cfg.get("csr"):
        return {}
    if V.symbolic:
        from symx import spshim
        return dict(matrix_type=spshim.csr_matrix)
    import scipy.sparse as sps
    return dict(matrix_type=sps.csr_matrix)


def _mk_sparse(V, densearr):
    if V.symbolic:
        from symx.spshim import SymSparse
        return SymSparse(densearr)
    import scipy.sparse as sps
    return sps.csc_matrix(densearr)


def _maxentry(Ke, symbolic):
    flat = list(np.asarray(Ke).reshape(-1))
    if not symbolic:
        return max(float(v) for v in flat)
    from symx.npshim import _max2
    r = flat[0]
    for v in flat[1:]:
        r = _max2(r, v)
    return r


def sc_assembly(V, P, cfg, chk=None):
    import pymoto as pym
    chk = chk or Chk(P)
    M = Mesh(cfg["mesh"])
    which = cfg["which"]
    dim = M.dim
    ux = V.real("ux", positive=True, default=1.0)
    uy = V.real("uy", positive=True, default=1.5)
    uz = V.real("uz", positive=True, default=0.75)
    siz = [ux, uy, uz]
    dom = pym.DomainDefinition(M.nx, M.ny, M.nz, unitx=ux, unity=uy, unitz=uz)
    x = V.reals("x", M.nel)
    prefer_moderate(V, [ux, uy, uz] + list(x))      # replay witnesses of moderate size (preference only)
    sig = pym.Signal("x", x)
    kw = dict(_matrix_type(V, cfg))
    bc = cfg.get("bc")
    if bc is not None:
        kw["bc"] = np.array(bc, dtype=int)
    bcdiag = None
    if cfg.get("bcdefault"):
        pass                  # documented default of AssembleGeneral/Stiffness/Poisson: max entry of the element matrix
    elif cfg.get("bcdiagval", bc is not None and which != "mass"):
        bcdiag = V.real("bcdiag", default=3.0)
        kw["bcdiagval"] = bcdiag
    elif which == "mass":
        bcdiag = 0            # documented default of AssembleMass
    const = None
    ndof = cfg.get("ndof", 1)
    if which == "stiffness":
        ndof = dim
        E = V.real("E", positive=True, default=2.0)
        nu = V.real("nu", default=0.25)
        V.assume(nu > -1, "-1 < nu < 1/2")
        V.assume(nu * 2 < 1)
        prefer_moderate(V, [E])
        m = pym.AssembleStiffness(sig, domain=dom, e_modulus=E, poisson_ratio=nu, plane=cfg.get("plane", "strain"), **kw)
    elif which == "mass":
        rho = V.real("rho", default=1.5)
        prefer_moderate(V, [rho])
        m = pym.AssembleMass(sig, domain=dom, material_property=rho, ndof=ndof, **kw)
    elif which == "poisson":
        ndof = 1
        kappa = V.real("kappa", default=1.5)
        prefer_moderate(V, [kappa])
        m = pym.AssemblePoisson(sig, domain=dom, material_property=kappa, **kw)
    else:
        nd = ndof * len(M.local)
        if cfg.get("symmetric_elmat"):
            em = np.empty((nd, nd), dtype=object if V.symbolic else float)
            for a in range(nd):
                for b in range(nd):
                    em[a, b] = V.real("Ke_%d_%d" % (min(a, b), max(a, b)))
            if V.symbolic:
                from symx.array import wrap
                em = wrap(em)
        else:
            em = V.reals("Ke", (nd, nd))
        if cfg.get("elmat_layout") == "transposed-view":
            # the same matrix handed over as a view that is not C-contiguous (e.g. loaded column-major, or `.T` of a work array)
            store = np.array(np.asarray(em).T, order="C")
            em = store.T
            if V.symbolic:
                from symx.array import wrap
                em = wrap(em)
            assert not em.flags["C_CONTIGUOUS"]
        if cfg.get("add_constant"):
            n = ndof * M.nnodes
            const = V.reals("Kc", (n, n))
            kw["add_constant"] = _mk_sparse(V, const)
        m = pym.AssembleGeneral(sig, domain=dom, element_matrix=em, **kw)
    n = ndof * M.nnodes
    m.response()
    Kout = m.sig_out[0].state
    K = dense(Kout)
    obs = dict(K=K)

    # ---- clause 1: scatter
    if which == "general":
        Ke = em                       # the matrix handed in
    else:
        Ke = np.asarray(m.elmat)      # element matrix computed by the module; pinned by the physics clauses
        chk.true("elmat-shape", tuple(Ke.shape) == (ndof * len(M.local),) * 2, "scatter")
    chk.true("shape", tuple(K.shape) == (n, n), "scatter")
    if cfg.get("bcdefault"):
        bcdiag = _maxentry(Ke, V.symbolic)
    Kref = ref_scatter(M, ndof, x, Ke, bc, bcdiag, const, V.symbolic)
    chk.arrays_eq("scatter", K, Kref, "scatter")
    # the domain object handed to the module is shared with every other module of the model: it must keep its sizes
    es = np.asarray(dom.element_size)
    chk.true("domain.element_size-shape", tuple(es.shape) == (3,), "domain-unchanged")
    if tuple(es.shape) == (3,):
        for a_, (got_, want_) in enumerate(zip(es, siz)):
            chk.eq("domain.element_size[%d]-unchanged" % a_, got_, want_, "domain-unchanged")
    if cfg.get("again"):
        # history on one module: the same assembly module evaluated for another design (iteration 2 of any optimisation)
        K1 = np.array(K, dtype=K.dtype)
        x2 = V.reals("xb", len(x))
        sig.state = x2
        m.response()
        K2 = dense(m.sig_out[0].state)
        chk.arrays_eq("second-design:scatter", K2, ref_scatter(M, ndof, x2, Ke, bc, bcdiag, const, V.symbolic), "scatter")
        chk.arrays_eq("first-result-unchanged-by-second-evaluation", K1, Kref, "scatter")
        obs["K2"] = K2

    # ---- clause 2: symmetry
    if which != "general" or (cfg.get("symmetric_elmat") and const is None):
        for i in range(n):
            for j in range(i + 1, n):
                chk.eq("sym[%d,%d]" % (i, j), K[i, j], K[j, i], "symmetry")

    # ---- added: element matrix == exact integral of the definition (pins Gauss points/weights, get_B, get_D)
    if which != "general" and M.nel == 1 and bc is None:
        thick = uz if dim == 2 else 1
        if which == "stiffness":
            lam, mu = _lame(E, nu, dim, cfg.get("plane", "strain"))
            Kx = ref_elmat(which, dim, siz, ndof, V.symbolic, lam=lam * thick, mu=mu * thick)
        else:
            Kx = ref_elmat(which, dim, siz, ndof, V.symbolic, coef=(rho if which == "mass" else kappa) * thick)
        chk.arrays_eq("elmat-exact", Ke, Kx, "elmat-exact-integral")

    coords = M.coords(siz)
    vol = ux * uy * uz                # element volume; in 2D uz is the out-of-plane thickness (element_size[2])
    sumx = _tot(x)

    if bc is None and which == "stiffness":
        # ---- clause 3: rigid-body motions
        fields = {}
        for d in range(dim):
            fields["t%s" % "xyz"[d]] = [[1 if c == d else 0 for c in range(dim)] for _ in coords]
        if dim == 2:
            fields["rz"] = [[-X[1], X[0]] for X in coords]
        else:
            fields["rx"] = [[0, -X[2], X[1]] for X in coords]
            fields["ry"] = [[X[2], 0, -X[0]] for X in coords]
            fields["rz"] = [[-X[1], X[0], 0] for X in coords]
        for nm, f in fields.items():
            r = [c for nodev in f for c in nodev]
            Kr = _matvec(K, r)
            for i in range(n):
                chk.eq("rigid-%s[%d]" % (nm, i), Kr[i], 0, "rigid-body")
        # ---- added: strain energy of an affine field with the textbook isotropic law (pins D and the weights)
        G = V.reals("G", (dim, dim))
        u0 = V.reals("u0", dim)
        u = []
        for X in coords:
            for a in range(dim):
                u.append(u0[a] + _dot(G[a, :], X))
        uKu = _dot(u, _matvec(K, u))
        lam, mu = _lame(E, nu, dim, cfg.get("plane", "strain"))
        tr = _tot(G[a, a] for a in range(dim))
        ee = 0
        for a in range(dim):
            for b in range(dim):
                eab = (G[a, b] + G[b, a]) / 2
                ee = ee + eab * eab
        dens = lam * tr * tr + 2 * mu * ee          # = eps^T D eps
        chk.eq("affine-energy", uKu, dens * vol * sumx, "stiffness-affine-energy")
        obs["uKu"] = uKu

    if bc is None and which == "mass":
        # ---- clause 5: total mass per direction, no coupling between directions
        for d in range(ndof):
            one_d = [1 if (q % ndof) == d else 0 for q in range(n)]
            Mone = _matvec(K, one_d)
            chk.eq("mass-total[%d]" % d, _dot(one_d, Mone), rho * vol * sumx, "mass-total")
            for d2 in range(ndof):
                if d2 != d:
                    one_2 = [1 if (q % ndof) == d2 else 0 for q in range(n)]
                    chk.eq("mass-cross[%d,%d]" % (d2, d), _dot(one_2, Mone), 0, "mass-total")

    if bc is None and which == "poisson":
        # ---- clause 6: constants annihilated; energy of a linear field
        P1 = _matvec(K, [1] * n)
        for i in range(n):
            chk.eq("poisson-const[%d]" % i, P1[i], 0, "poisson-constant")
        g = V.reals("g", dim)
        c0 = V.real("c0", default=0.5)
        phi = [c0 + _dot(g, X) for X in coords]
        en = _dot(phi, _matvec(K, phi))
        chk.eq("poisson-energy", en, kappa * _dot(g, g) * vol * sumx, "poisson-energy")
        obs["phiPphi"] = en
    return obs


# ------------------------------------------------------------------------------------------------
def sc_psd(V, P, cfg, chk=None):
    """u^T K_e u >= 0 for symbolic u on a rational grid of element sizes / Poisson ratios (one element, x = 1)."""
    import pymoto as pym
    chk = chk or Chk(P)
    dim = cfg["dim"]
    nd = dim * 2 ** dim
    u = V.reals("u", nd)
    obs = {}
    for gi, (a, b, c, nu, plane) in enumerate(cfg["grid"]):
        dom = pym.DomainDefinition(1, 1, 1 if dim == 3 else 0, unitx=V.const(a), unity=V.const(b), unitz=V.const(c))
        sig = pym.Signal("x", np.array([V.const(1)], dtype=object if V.symbolic else float))
        m = pym.AssembleStiffness(sig, domain=dom, e_modulus=V.const(1), poisson_ratio=V.const(nu), plane=plane)
        m.response()
        K = dense(m.sig_out[0].state)
        q = _dot(u, _matvec(K, u))
        if V.symbolic:
            # the form is homogeneous: prefer a witness with a clearly negative value for the float replay
            pref = (q * 64 <= -1)
            V.c.witness_prefs = [pref.t] if isinstance(pref, SB) else []
        chk.ge0("psd[a=%s,b=%s,c=%s,nu=%s,%s]" % (a, b, c, nu, plane), q, "psd-%dd" % dim, scale=_dot(u, u))
        if V.symbolic:
            V.c.witness_prefs = []
        obs["q%d" % gi] = q
    return obs


def sc_linear_E(V, P, cfg, chk=None):
    """K_e(E, t) == E * t * K_e(1, 1) with symbolic sizes and nu (justifies E = 1, thickness 1 in the PSD grid)."""
    import pymoto as pym
    chk = chk or Chk(P)
    dim = cfg["dim"]
    ux = V.real("ux", positive=True, default=1.0)
    uy = V.real("uy", positive=True, default=1.5)
    uz = V.real("uz", positive=True, default=0.75)
    E = V.real("E", positive=True, default=2.0)
    nu = V.real("nu", default=0.25)
    V.assume(nu > -1, "-1 < nu < 1/2")
    V.assume(nu * 2 < 1)
    one = V.const(1)

    def elmat(E_, t_):
        dom = pym.DomainDefinition(1, 1, 1 if dim == 3 else 0, unitx=ux, unity=uy, unitz=(uz if dim == 3 else t_))
        sig = pym.Signal("x", np.array([one], dtype=object if V.symbolic else float))
        m = pym.AssembleStiffness(sig, domain=dom, e_modulus=E_, poisson_ratio=nu, plane=cfg.get("plane", "strain"))
        return np.asarray(m.elmat)
    K1 = elmat(one, one)
    K2 = elmat(E, uz)
    if cfg.get("repeat"):
        # further modules built in the same process with the same material (and thickness): same element matrix
        K2 = elmat(E, uz)
        K2 = elmat(E, uz)
    fac = E if dim == 3 else E * uz
    chk.arrays_eq("elmat-linear", K2, fac * K1 if not V.symbolic else np.array(
        [[fac * K1[i, j] for j in range(K1.shape[1])] for i in range(K1.shape[0])], dtype=object), "elmat-linear-in-E")
    return dict(K2=K2)


SCEN = {"assembly": sc_assembly, "psd": sc_psd, "linear-E": sc_linear_E}


# ------------------------------------------------------------------------------------------------
def _bcsets(M, ndof):
    n = ndof * M.nnodes
    one = [min(1, n - 1)]
    several = sorted(set([0, n - 1, n // 2]))
    return dict(one=one, several=several)


def VIEWS_LAYOUT_ITEMS(it, tier):
    return "-1x2x0" in it["id"] or (tier == "thorough" and "-2x2x0" in it["id"])


def items(tier):
    q = tier == "quick"
    out = []

    def add(ident, **kw):
        out.append(dict(kind="assembly", id=ident, **kw))

    m2 = _M2Q if q else _M2T
    m3 = _M3Q if q else _M3T
    for mesh in m2 + m3:
        M = Mesh(mesh)
        tag = "%dx%dx%d" % tuple(mesh)
        big = M.nnodes >= 12
        # --- AssembleGeneral: dofs per node 1..3, bc sets, csr, constant
        for ndof in (1, 2, 3):
            if big and ndof == 3 and q:
                continue
            bcs = _bcsets(M, ndof)
            add("general-%s-ndof%d" % (tag, ndof), which="general", mesh=mesh, ndof=ndof)
            add("general-%s-ndof%d-bc1" % (tag, ndof), which="general", mesh=mesh, ndof=ndof, bc=bcs["one"],
                csr=(ndof == 2))
            add("general-%s-ndof%d-bcN-const" % (tag, ndof), which="general", mesh=mesh, ndof=ndof, bc=bcs["several"],
                add_constant=True, csr=(ndof == 1))
        add("general-%s-ndof1-const-csr" % tag, which="general", mesh=mesh, ndof=1, add_constant=True, csr=True)
        add("general-%s-ndof2-symelmat" % tag, which="general", mesh=mesh, ndof=2, symmetric_elmat=True,
            csr=True)
        add("general-%s-ndof1-bc0" % tag, which="general", mesh=mesh, ndof=1, bc=[0])        # the set {0}
        if mesh == (1, 1, 1):
            # a 3-D mesh with more than one element in y AND z (element numbering k*nely*nelx + j*nelx + i), general matrix
            add("general-1x2x2-ndof1", which="general", mesh=(1, 2, 2), ndof=1)
            add("poisson-1x2x2", which="poisson", mesh=(1, 2, 2))
        add("poisson-%s-bc0-csr" % tag, which="poisson", mesh=mesh, bc=[0], csr=True)
        add("general-%s-ndof1-bc1-again" % tag, which="general", mesh=mesh, ndof=1, bc=_bcsets(M, 1)["one"], again=True)
        add("general-%s-ndof2-const-again" % tag, which="general", mesh=mesh, ndof=2, add_constant=True, again=True)
        add("general-%s-ndof1-elmat-transposed-view" % tag, which="general", mesh=mesh, ndof=1, elmat_layout="transposed-view")
        add("general-%s-ndof2-elmat-transposed-view-bc1" % tag, which="general", mesh=mesh, ndof=2, bc=_bcsets(M, 2)["one"],
            elmat_layout="transposed-view")
        # --- stiffness
        planes = ("strain", "stress") if M.dim == 2 else ("3d",)
        for pl in planes:
            bcs = _bcsets(M, M.dim)
            add("stiffness-%s-%s" % (tag, pl), which="stiffness", mesh=mesh, plane=pl if pl != "3d" else "strain")
            if not (M.dim == 3 and mesh != (1, 1, 1) and q):
                add("stiffness-%s-%s-bc1" % (tag, pl), which="stiffness", mesh=mesh, plane=pl if pl != "3d" else "strain",
                    bc=bcs["one"], csr=(pl == "stress"))
                add("stiffness-%s-%s-bcN" % (tag, pl), which="stiffness", mesh=mesh, plane=pl if pl != "3d" else "strain",
                    bc=bcs["several"], csr=(pl == "strain"))
        # --- mass
        for ndof in (1, 2, 3):
            bcs = _bcsets(M, ndof)
            add("mass-%s-ndof%d" % (tag, ndof), which="mass", mesh=mesh, ndof=ndof, csr=(ndof == 3))
            add("mass-%s-ndof%d-bcN" % (tag, ndof), which="mass", mesh=mesh, ndof=ndof, bc=bcs["several"],
                bcdiagval=(ndof != 2))
        # --- poisson
        bcs = _bcsets(M, 1)
        add("poisson-%s" % tag, which="poisson", mesh=mesh)
        add("poisson-%s-bc1-csr" % tag, which="poisson", mesh=mesh, bc=bcs["one"], csr=True)
        add("poisson-%s-bcN" % tag, which="poisson", mesh=mesh, bc=bcs["several"])
    # --- default diagonal value (bcdiagval=None -> largest entry of the element matrix)
    add("general-1x1x0-ndof1-bcdefault", which="general", mesh=(1, 1, 0), ndof=1, bc=[1], bcdefault=True)
    add("general-2x1x0-ndof2-bcdefault", which="general", mesh=(2, 1, 0), ndof=2, bc=[0, 5], bcdefault=True, csr=True)
    add("poisson-2x1x0-bcdefault", which="poisson", mesh=(2, 1, 0), bc=[0, 5], bcdefault=True)
    add("stiffness-1x1x0-strain-bcdefault", which="stiffness", mesh=(1, 1, 0), plane="strain", bc=[0, 3], bcdefault=True)
    # --- linearity of K_e in E and thickness
    for dim, pl in ((2, "strain"), (2, "stress"), (3, "strain")):
        out.append(dict(kind="linear-E", id="elmat-linear-%dd-%s" % (dim, pl), dim=dim, plane=pl))
        out.append(dict(kind="linear-E", id="elmat-linear-%dd-%s-third-construction" % (dim, pl), dim=dim, plane=pl, repeat=True))
    # --- PSD on the rational grid
    for pl in ("strain", "stress"):
        for nu in _NUS:
            grid = [[a, b, "1", nu, pl] for a in _SIZES for b in _SIZES]
            out.append(dict(kind="psd", id="psd-2d-%s-nu%s" % (pl, nu.replace("/", "_")), dim=2, grid=grid))
    if q:
        g3 = [(s, nu) for s in (["1", "1", "1"], ["1/2", "1", "2"]) for nu in ("0", "3/10")]
    else:
        g3 = [([a, b, c], nu) for a in _SIZES for b in _SIZES for c in _SIZES for nu in _NUS]
    for s, nu in g3:
        out.append(dict(kind="psd", id="psd-3d-%s-nu%s" % ("x".join(s).replace("/", "_"), nu.replace("/", "_")), dim=3,
                        grid=[[s[0], s[1], s[2], nu, "strain"]]))
    return out


def run_item(cfg, tier):
    from symx import npshim
    npshim.EXACT_SCALAR_SQRT = True      # np.sqrt(3) of the Gauss loops -> exact algebraic constant (worker process only)
    try:
        return symbolic_run(SCEN[cfg["kind"]], cfg, tier, max_paths=8)
    finally:
        npshim.EXACT_SCALAR_SQRT = False


# ------------------------------------------------------------------------------------------------
def replay(cfg, label, env, case):
    """Re-run the scenario on the real library with the model's numbers; evaluate the violated clause numerically."""
    return generic_replay(SCEN, cfg, label, env)
