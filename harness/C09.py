"""C09 - density filters are the normalised local averages they are defined to be.

Executed for real (pymoto/modules/filter.py): FilterConv._prepare / _process_padding /
set_filter_radius / override_values / override_padded_values / get_padded_vector / _response,
Filter._prepare / _response, DensityFilter._calculate_h.

Oracle (independent, written from the definition, plain loops over Cartesian indices, no np.pad):

  extend(x)(i,j,k)   the field beyond the boundary by the per-side rule (symmetric = whole-sample
                     reflection, edge = clamp, wrap = modulo, value = constant), axes applied x, y, z
  FilterConv(weights) y_e = sum_a  k[a] * extend(x)(e + centre - a)           (true convolution)
  FilterConv(radius)  y_e = sum_o  w(o) extend(x)(e+o) / sum_o w(o),  w(o) = max(0, r - |o*h|),
                      offsets |o_a| <= n_a  (FilterConv never builds a kernel wider than 2*n_a+1)
  DensityFilter       y_i = sum_j max(0, r - d_ij) x_j / sum_j max(0, r - d_ij)   (element units)

Work item families (cfg["kind"]):
  fc-conv      free symbolic kernel, all boundary rules incl. symbolic constants: y == reference
  fc-widepad   the same with a kernel half-width larger than the domain (pad > n), same rule on both sides
  fc-widepad-mixed   pad > n with different rules on the two sides of an axis
  fc-override  override_values / override_padded_values (index sets enumerated, values symbolic)
  fc-bounds    kernel >= 0 summing to one, no constant padding: constant -> constant, m <= y <= M
  fc-volume    all-symmetric padding, kernel mirror-symmetric about every axis, sum 1: sum y == sum x
  fc-radius    radius kernels (constant exact radius or symbolic radius forking on int()):
               kernel >= 0, sums to one, == cone reference; y == reference; bounds; volume
  df           DensityFilter (constant / symbolic radius, nonpadding): y == reference, bounds
  ref-selftest the reference's flip convention against scipy.signal.convolve (asymmetric kernel)
"""
from fractions import Fraction
import itertools
import math
import numpy as np
import z3

from symx import R, SB
from symx import npshim
from symx.array import SymArray
from .common import symbolic_run, Vals

PROPERTY = "C09"
BOUNDS = {
    "quick": dict(meshes=["1x1", "1x3", "3x1", "2x2", "3x2"], kernels="odd shapes 1x1 .. 5x3 / 3x5 with pad <= domain "
                  "(plus pad > domain for same-rule-on-both-sides and three mixed combinations)",
                  boundary_modes="pairwise covering of {symmetric, edge, wrap, constant}^4 per mesh",
                  radius_constant=["0.5", "1", "1.5", "2", "2.5", "3.6"], radius_symbolic="[0.3, 3.6]",
                  units="relative; absolute with element size (1/2, 2, 1): radii 1.5, 2.5, symbolic [0.3, 3.6] on 3x2",
                  overrides="9 index-set shapes", field="symbolic", kernel="symbolic", pad_values="symbolic"),
    "thorough": dict(meshes=["1x1", "1x3", "3x1", "2x2", "3x2", "4x3", "2x2x2", "3x2x2"],
                     kernels="odd shapes up to 5x5 / 3x3x3 with pad <= domain (plus pad > domain as in quick)",
                     boundary_modes="all 256 combinations on 3x2 and 2x2 (3x3 kernel), pairwise covering elsewhere "
                                    "(6 factors in 3D)",
                     radius_constant=["0.3", "0.5", "1", "1.5", "2", "2.5", "3", "3.6", "4.5"],
                     radius_symbolic="[0.3, max(nx,ny,nz)+1.2]",
                     units="relative; absolute with element size (1/2, 2, 1): radii 0.4, 1.5, 2.5 (2D), 1.5 (3D), symbolic "
                           "[0.3, 2.6] on 3x2",
                     overrides="9 index-set shapes", field="symbolic", kernel="symbolic", pad_values="symbolic"),
}
OUTSIDE = ["meshes / kernels beyond the grid", "IEEE rounding (exact real arithmetic)",
           "symbolic radii within 1e-10 element sizes above a multiple of the element size: FilterConv's rounding guard "
           "int((r - 1e-10 h)/h) drops cone weights < 1e-10 h there (deviation of that order from the definition)",
           "radius kernels beyond |offset| <= n per axis: FilterConv truncates its radius kernel to 2n+1 entries per axis; "
           "the reference uses the same offset box (taken as the convention of FilterConv)",
           "absolute units with radii beyond 2.5 (3D: 1.5): every non-square squared distance is an algebraic constant and "
           "the queries stop terminating in the budget (measured: 2x2, r = 4.5 needs 131 s, 3x2 > 600 s)",
           "FilterConv._sensitivity (C01), DensityFilter with repeated / unsorted nonpadding indices",
           "override index sets other than the enumerated ones"]
ASSUMPTIONS = ["float64 arithmetic modelled as exact real arithmetic",
               "element numbering e = i + nelx*(j + nely*k) (C13)",
               "the extension rules are applied per axis in the order x, y, z (a constant / rule of a later axis wins in the "
               "corner regions)",
               "square roots of concrete integers computed by the code in float64 before they meet a symbol (relative units, "
               "DensityFilter) are read as their shortest round-tripping decimal (DESIGN section 1); with exact element sizes "
               "(absolute units) both code and reference use the algebraic constant s > 0, s*s == q",
               "override_values / override_padded_values replace entries of the extended (padded) field, in call order, after "
               "the constant padding"]
ITEM_TIMEOUT = {"quick": 100, "thorough": 600}
REPLAYS_PER_GROUP = 2

MODES = ["symmetric", "edge", "wrap", "value"]
ABBR = {"symmetric": "s", "edge": "e", "wrap": "w", "value": "v"}
SIDES = ["xmin", "xmax", "ymin", "ymax", "zmin", "zmax"]
LAST = {}


# ------------------------------------------------------------------------------------------------
# obligations stated once for both modes (symbolic: Prover; concrete: numeric, failures kept by label)
class Chk:
    def __init__(self, P):
        self.P = P
        self.fails = {}
        LAST["chk"] = self

    def eq(self, label, a, b, kind):
        if self.P is not None:
            self.P.eq(label, a, b, kind=kind)
        else:
            try:
                a, b = float(a), float(b)
            except (TypeError, ValueError):
                self.fails[label] = "non-numeric value %r vs %r" % (a, b)
                return
            if not abs(a - b) <= 1e-9 * max(1.0, abs(a), abs(b)):
                self.fails[label] = "%r != %r" % (a, b)

    def le(self, label, a, b, kind, expand=False):
        """a <= b.  expand: the cross-multiplied comparison is expanded into a sum of monomials and decided on its
        *monomial abstraction* (see _abstract); if that is not `unsat` the exact comparison is decided instead."""
        if self.P is not None:
            if R.of(a) is None or R.of(b) is None:
                return self.P.holds(label, False, kind=kind)      # a non-numeric output is a failed clause
            cond = R.of(a) <= R.of(b)
            if expand and isinstance(cond, SB):
                o = self.P.holds(label, _abstract(self, cond.t), kind=kind)
                if o.status == "unsat":
                    if o.stage and o.stage.startswith("solver"):
                        o.stage = "solver-full(monomial-abstraction)"
                    return
                self.P.obls.remove(o)
            self.P.holds(label, cond, kind=kind)
        else:
            try:
                a, b = float(a), float(b)
            except (TypeError, ValueError):
                self.fails[label] = "non-numeric value %r vs %r" % (a, b)
                return
            if not a <= b + 1e-9 * max(1.0, abs(a), abs(b)):
                self.fails[label] = "%r > %r" % (a, b)

    def true(self, label, cond, kind, info=None):
        if self.P is not None:
            self.P.holds(label, cond, kind=kind)
        elif not bool(cond):
            self.fails[label] = info if info is not None else "condition is False"


def _abstract(K, cond):
    """Monomial abstraction of a polynomial comparison (z3's nonlinear engine is erratic even on `a sum of products
    of non-negative symbols is non-negative`, measured 0.2 s .. > 30 s).  The comparison is expanded into a sum of
    monomials; every monomial u*v of two symbols is replaced by a fresh symbol pi_uv; the fact pi_uv >= 0 is used
    only after  u*v >= 0  has been discharged by the solver under the assumptions as an obligation of its own
    (kind 'product-of-nonnegatives').  The result  (and pi >= 0) => comparison[pi]  is linear; it implies the original
    comparison because it holds for every pi >= 0, in particular for pi_uv = u*v."""
    t = z3.simplify(cond, som=True, arith_lhs=True)
    table = K.__dict__.setdefault("_mono", {})
    used = {}

    def rec(e):
        if z3.is_app_of(e, z3.Z3_OP_MUL):
            coef, facs = Fraction(1), []
            for ch in e.children():
                if z3.is_rational_value(ch):
                    coef *= ch.as_fraction()
                else:
                    facs.append(ch)
            if len(facs) == 2 and all(z3.is_const(f) and f.decl().kind() == z3.Z3_OP_UNINTERPRETED for f in facs):
                key = tuple(sorted(f.get_id() for f in facs))
                if key not in table:
                    lemma = K.P.holds("%s*%s>=0" % (facs[0], facs[1]), facs[0] * facs[1] >= 0, kind="product-of-nonnegatives")
                    table[key] = (z3.Real("pi!%s!%s" % (facs[0], facs[1])), lemma.status == "unsat")
                    if lemma.status != "unsat":
                        K.P.obls.remove(lemma)      # not a lemma: the monomial stays as it is
                pi, ok = table[key]
                if ok:
                    used[key] = pi
                    return z3.RatVal(coef.numerator, coef.denominator) * pi
                return e
            return e.decl()(*[rec(ch) for ch in e.children()])
        if z3.is_app(e) and e.num_args() > 0:
            return e.decl()(*[rec(ch) for ch in e.children()])
        return e
    body = rec(t)
    if not used:
        return cond
    return z3.Implies(z3.And([pi >= 0 for pi in used.values()]), body)


# ------------------------------------------------------------------------------------------------
# the independent reference
def elem(i, j, k, n):
    return i + n[0] * (j + n[1] * k)


def extend_index(i, n, rule_lo, rule_hi):
    """Index inside 0..n-1 that position i of the extended axis reads; None for a constant rule."""
    if 0 <= i < n:
        return i
    rule = rule_lo if i < 0 else rule_hi
    if rule == "edge":
        return 0 if i < 0 else n - 1
    if rule == "wrap":
        return i % n
    if rule == "symmetric":
        t = i % (2 * n)
        return t if t < n else 2 * n - 1 - t
    if rule == "value":
        return None
    raise ValueError(rule)


def extended(x, n, rules, vals):
    """E(i,j,k): the field extended over all of Z^3; n = (nx, ny, nz>=1); rules / vals per side (6)."""
    def E(i, j, k):
        idx = (i, j, k)
        out = [0, 0, 0]
        for a in (2, 1, 0):            # a later axis wins in the corners: z, then y, then x
            m = extend_index(idx[a], n[a], rules[2 * a], rules[2 * a + 1])
            if m is None:
                return vals[2 * a] if idx[a] < 0 else vals[2 * a + 1]
            out[a] = m
        return x[elem(out[0], out[1], out[2], n)]
    return E


def ref_conv(x, n, K3, rules, vals, overrides=()):
    """True convolution of kernel K3 (3-D, odd) with the extended field; overrides: list of
    (padded coordinate, value) applied in order on the padded field."""
    E = extended(x, n, rules, vals)
    c = [(s - 1) // 2 for s in K3.shape]
    ov = {}
    for pos, v in overrides:
        ov[tuple(int(p) for p in pos)] = v
    y = [None] * (n[0] * n[1] * n[2])
    for k in range(n[2]):
        for j in range(n[1]):
            for i in range(n[0]):
                s = 0
                for a in np.ndindex(*K3.shape):
                    p = (i + c[0] - a[0], j + c[1] - a[1], k + c[2] - a[2])      # domain coordinates
                    pp = (p[0] + c[0], p[1] + c[1], p[2] + c[2])                # padded coordinates
                    s = s + K3[a] * (ov[pp] if pp in ov else E(*p))
                y[elem(i, j, k, n)] = s
    return y


def ref_sqrt(q, V, model):
    """sqrt of the exact non-negative rational q."""
    q = Fraction(q)
    rn, rd = math.isqrt(q.numerator), math.isqrt(q.denominator)
    if rn * rn == q.numerator and rd * rd == q.denominator:
        return Fraction(rn, rd) if V.symbolic else rn / rd
    if not V.symbolic:
        return math.sqrt(q)
    if model == "algebraic":
        from symx import axioms
        return axioms.sqrt(R(q=q))
    return Fraction(repr(math.sqrt(q)))        # IEEE square root read as its shortest decimal


def _max0(v):
    return npshim.maximum(0.0, v) if isinstance(v, R) else max(0.0, v)


def ref_cone(V, r, n, nz_real, h, model):
    """offset -> max(0, r - |offset * h|) over the box |o_a| <= n_a (z only if the domain is 3-D)."""
    box = [range(-n[0], n[0] + 1), range(-n[1], n[1] + 1), range(-nz_real, nz_real + 1)]
    w = {}
    for o in itertools.product(*box):
        sq = sum((Fraction(o[a]) * Fraction(h[a])) ** 2 for a in range(3))
        d = ref_sqrt(sq, V, model)
        if V.symbolic:
            wo = _max0(R.of(r) - R.of(d))
            w[o] = wo.q if (isinstance(wo, R) and wo.q is not None) else wo
        else:
            w[o] = max(0.0, float(r) - float(d))
    return w


def ref_radius_filter(x, n, w, rules, vals):
    E = extended(x, n, rules, vals)
    tot = 0
    for o in w:
        tot = tot + w[o]
    y = [None] * (n[0] * n[1] * n[2])
    for k in range(n[2]):
        for j in range(n[1]):
            for i in range(n[0]):
                s = 0
                for o, wo in w.items():
                    if isinstance(wo, (int, float, Fraction)) and wo == 0:
                        continue
                    s = s + wo * E(i + o[0], j + o[1], k + o[2])
                y[elem(i, j, k, n)] = s / tot
    return y, tot


def ref_density(V, x, n, r, model, nonpadding=None):
    N = n[0] * n[1] * n[2]
    coords = [(i, j, k) for k in range(n[2]) for j in range(n[1]) for i in range(n[0])]
    H = [[None] * N for _ in range(N)]
    for a, ca in enumerate(coords):
        for b, cb in enumerate(coords):
            sq = sum((ca[t] - cb[t]) ** 2 for t in range(3))
            d = ref_sqrt(sq, V, model)
            H[elem(*ca, n)][elem(*cb, n)] = _max0(R.of(r) - R.of(d)) if V.symbolic else max(0.0, float(r) - float(d))
    s = []
    for i in range(N):
        t = 0
        for j in range(N):
            t = t + H[i][j]
        s.append(t)
    if nonpadding is not None:
        smax = s[0]
        for t in s[1:]:
            smax = npshim._max2(smax, t) if V.symbolic else max(smax, t)
        s = [s[i] if i in nonpadding else smax for i in range(N)]
    y = []
    for i in range(N):
        t = 0
        for j in range(N):
            t = t + H[i][j] * x[j]
        y.append(t / s[i])
    return y


# ------------------------------------------------------------------------------------------------
# builders shared by the scenarios
def _n3(cfg):
    nx, ny, nz = cfg["mesh"]
    return (nx, ny, max(nz, 1))


def _domain(V, cfg):
    import pymoto as pym
    nx, ny, nz = cfg["mesh"]
    h = cfg.get("elsize", ["1", "1", "1"])
    return pym.DomainDefinition(nx, ny, nz, unitx=V.const(h[0]), unity=V.const(h[1]), unitz=V.const(h[2]))


def _bcs(V, cfg):
    """kwargs for FilterConv and (rules, vals) for the reference."""
    kw, rules, vals = {}, [], []
    for s in SIDES:
        mode = cfg.get("bcs", {}).get(s, "symmetric")
        if s[0] == "z" and cfg["mesh"][2] == 0:
            mode = "symmetric"
        v = None
        if mode == "value":
            v = V.real("pad_" + s, default=0.5)
            kw[s + "_bc"] = v
        elif s in cfg.get("bcs", {}):
            kw[s + "_bc"] = mode
        rules.append(mode)
        vals.append(v)
    return kw, rules, vals


def _kernel(V, shape, kind):
    """free: independent symbols.
    prob: k = u / sum(u) with u >= 0, sum(u) > 0 - a parametrisation of ALL kernels with k >= 0, sum k == 1
          (every such k arises with u = k); it turns the bound clauses into sums of products of non-negative symbols.
    mirror: entries tied under reflection about every axis, centre := 1 - sum(rest)  (all mirror-symmetric kernels
          that sum to one)."""
    shape = tuple(shape)
    K = np.empty(shape, dtype=object if V.symbolic else float)
    centre = tuple((s - 1) // 2 for s in shape)
    cache = {}
    tot = 0
    for idx in np.ndindex(*shape):
        if kind == "mirror" and idx == centre:
            continue
        key = idx if kind != "mirror" else tuple(min(a, s - 1 - a) for a, s in zip(idx, shape))
        if key not in cache:
            if kind == "prob":
                cache[key] = V.real("k_" + "_".join(map(str, key)), lo=0, default=0.0625)
            else:
                cache[key] = V.real("k_" + "_".join(map(str, key)), default=0.0625)
        K[idx] = cache[key]
        tot = tot + cache[key]
    if kind == "mirror":
        K[centre] = 1 - tot
    if kind == "prob":
        if V.symbolic:
            V.assume(tot > 0)
            V.c.mark_positive(z3.simplify(tot.n))
        elif tot <= 0:
            K[centre] += 1.0 - tot       # concrete twin outside the assumption: keep it well defined
            tot = 1.0
        for idx in np.ndindex(*shape):
            K[idx] = K[idx] / tot
    return K.view(SymArray) if V.symbolic else K


def _k3(K):
    K = np.asarray(K)
    while K.ndim < 3:
        K = K[..., None]
    return K


def _field(V, cfg, bounded=False):
    n = _n3(cfg)
    N = n[0] * n[1] * n[2]
    x = V.reals("x", N)
    lo = hi = None
    if bounded:
        lo, hi = V.real("m", default=-1.0), V.real("M", default=1.0)
        for xi in x:
            V.assume(xi >= lo)
            V.assume(xi <= hi)
    return x, lo, hi


def _offset_field(V, cfg):
    """Fields  m + d  and  M - d  with d >= 0: parametrisations of {x : m <= x_j} and {x : x_j <= M}."""
    n = _n3(cfg)
    N = n[0] * n[1] * n[2]
    lo, hi = V.real("m", default=-1.0), V.real("M", default=1.0)
    d = V.reals("d", N, lo=0)
    return d + lo, hi - d, lo, hi


def _const_field(V, cfg):
    n = _n3(cfg)
    N = n[0] * n[1] * n[2]
    c = V.real("c", default=0.75)
    a = np.empty(N, dtype=object if V.symbolic else float)
    a.fill(c)
    return (a.view(SymArray) if V.symbolic else a), c


def _has_value(cfg):
    return any(cfg.get("bcs", {}).get(s) == "value" for s in SIDES if not (s[0] == "z" and cfg["mesh"][2] == 0))


def _all_symmetric(cfg):
    return all(cfg.get("bcs", {}).get(s, "symmetric") == "symmetric" for s in SIDES
               if not (s[0] == "z" and cfg["mesh"][2] == 0))


def _clean(obs, V):
    """Observables for the concretised twin: only arrays of proper numbers (a code path that divides by zero yields
    nan / the engine's 0/0 marker; the clauses on those entries fail on their own, the twin comparison skips them)."""
    out = {}
    for k, v in obs.items():
        a = np.asarray(v)
        if V.symbolic:
            ok = all(isinstance(e, (R, int, float, Fraction, np.integer, np.floating)) for e in a.flat)
        else:
            try:
                ok = bool(np.all(np.isfinite(np.asarray(a, dtype=float))))
            except (TypeError, ValueError):
                ok = False
        if ok:
            out[k] = v
    return out


def _total(v):
    t = 0
    for e in v:
        t = t + e
    return t


def _check_y(K, y, yref, kind="value==reference", pre=""):
    ok = len(y) == len(yref)
    K.true(pre + "len(y)", ok, "shape")
    if ok:
        for e in range(len(yref)):
            K.eq(pre + "y[%d]==ref" % e, y[e], yref[e], kind)


def _constant(V, K, m, sig, cfg):
    """x == c  =>  y == c  (same module, new input)."""
    xc, c = _const_field(V, cfg)
    sig.state = xc
    m.response()
    yc = m.sig_out[0].state
    for e in range(len(yc)):
        K.eq("const:y[%d]==c" % e, yc[e], c, "constant-field")
    return yc


def _bounds_and_constant(V, K, m, sig, y, lo, hi, cfg):
    """m <= x <= M  =>  m <= y <= M ;  x == c  =>  y == c."""
    for e in range(len(y)):
        K.le("m<=y[%d]" % e, lo, y[e], "bound-lower")
        K.le("y[%d]<=M" % e, y[e], hi, "bound-upper")
    return _constant(V, K, m, sig, cfg)


# ------------------------------------------------------------------------------------------------
def _override_sets(cfg, n, pads):
    """Enumerated index sets -> (how to call the public API, list of padded coordinates in assignment order)."""
    spec = cfg["override"]
    name = spec["set"]
    nx, ny, nz = n
    P = (nx + 2 * pads[0], ny + 2 * pads[1], nz + 2 * pads[2])
    if spec["api"] == "values":
        if name == "single":
            pts = [(nx - 1, 0, 0)]
        elif name == "pair":
            pts = [(0, 0, 0), (nx - 1, ny - 1, nz - 1)]
        elif name == "column-x0":
            pts = [(0, j, k) for j in range(ny) for k in range(nz)]
        elif name == "row-ylast":
            pts = [(i, ny - 1, k) for i in range(nx) for k in range(nz)]
        elif name == "all":
            pts = [(i, j, k) for i in range(nx) for j in range(ny) for k in range(nz)]
        else:
            raise ValueError(name)
        how = spec.get("how", "arrays")
        if how == "arrays":
            index = tuple(np.array([p[a] for p in pts], dtype=int) for a in range(3))
        elif how == "mask":
            index = np.zeros((nx, ny, nz), dtype=bool)
            for p in pts:
                index[p] = True
            pts = [p for p in itertools.product(range(nx), range(ny), range(nz)) if index[p]]    # C order of a mask
        elif how == "slice":
            assert name in ("column-x0", "row-ylast")
            index = (0, slice(None), slice(None)) if name == "column-x0" else (slice(None), ny - 1, slice(None))
            pts = ([(0, j, k) for j in range(ny) for k in range(nz)] if name == "column-x0" else
                   [(i, ny - 1, k) for i in range(nx) for k in range(nz)])
        padded = [(p[0] + pads[0], p[1] + pads[1], p[2] + pads[2]) for p in pts]
        return index, padded
    # padded coordinates given directly
    if name == "corner":
        pts = [(0, 0, 0)]
    elif name == "pad-strip-xmin":
        pts = [(0, j, k) for j in range(P[1]) for k in range(P[2])]
    elif name == "mixed":
        pts = [(0, P[1] - 1, 0), (pads[0], pads[1], pads[2]), (P[0] - 1, 0, P[2] - 1)]
    else:
        raise ValueError(name)
    index = tuple(np.array([p[a] for p in pts], dtype=int) for a in range(3))
    return index, pts


def sc_fc_kernel(V, P, cfg):
    """FilterConv with explicit weights: kinds fc-conv, fc-widepad, fc-override, fc-bounds, fc-volume."""
    import pymoto as pym
    K = Chk(P)
    kind = cfg["kind"]
    n = _n3(cfg)
    dom = _domain(V, cfg)
    if kind == "fc-bounds":
        x, x_up, lo, hi = _offset_field(V, cfg)
    else:
        x, lo, hi = _field(V, cfg)
    sig = pym.Signal("x", x)
    kw, rules, vals = _bcs(V, cfg)
    wk = {"fc-bounds": "prob", "fc-volume": "mirror"}.get(kind, "free")
    W = _kernel(V, cfg["kernel"], wk)
    m = pym.FilterConv(sig, domain=dom, weights=W, **kw)
    K3 = _k3(W)
    pads = [(s - 1) // 2 for s in K3.shape]
    overrides = []
    if kind == "fc-override":
        index, padded = _override_sets(cfg, n, pads)
        if cfg["override"].get("value") == "array":
            val = V.reals("ov", len(padded))
            pairs = list(zip(padded, list(val)))
        else:
            val = V.real("ov", default=0.25)
            pairs = [(p, val) for p in padded]
        if cfg["override"]["api"] == "values":
            m.override_values(index, val)
        else:
            m.override_padded_values(index, val)
        overrides.extend(pairs)
        if cfg["override"].get("second"):
            # a second, overlapping override: the later call wins
            v2 = V.real("ov2", default=-0.5)
            m.override_values((np.array([0]), np.array([0]), np.array([0])), v2)
            overrides.append(((pads[0], pads[1], pads[2]), v2))
    m.response()
    y = m.sig_out[0].state
    obs = dict(y=y)
    yref = ref_conv(x, n, K3, rules, vals, overrides)
    _check_y(K, y, yref)
    if cfg.get("again"):
        # history on one object: the same filter applied to another field (iteration 2 of any optimisation loop)
        x2 = V.reals("xb", len(x))
        sig.state = x2
        m.response()
        y2 = m.sig_out[0].state
        obs["y2"] = y2
        _check_y(K, y2, ref_conv(x2, n, K3, rules, vals, overrides), pre="second-field:")
    if kind == "fc-bounds":
        for e in range(len(y)):
            K.le("m<=y[%d]" % e, lo, y[e], "bound-lower", expand=True)
        sig.state = x_up
        m.response()
        y_up = m.sig_out[0].state
        obs["y_up"] = y_up
        for e in range(len(y_up)):
            K.le("y[%d]<=M" % e, y_up[e], hi, "bound-upper", expand=True)
        obs["yc"] = _constant(V, K, m, sig, cfg)
    if kind == "fc-volume":
        K.eq("sum(y)==sum(x)", _total(y), _total(x), "volume")
    return _clean(obs, V)


def sc_fc_radius(V, P, cfg):
    import pymoto as pym
    K = Chk(P)
    n = _n3(cfg)
    nz_real = cfg["mesh"][2]
    dom = _domain(V, cfg)
    novalue = not _has_value(cfg)
    x, lo, hi = _field(V, cfg, bounded=novalue)
    sig = pym.Signal("x", x)
    kw, rules, vals = _bcs(V, cfg)
    rel = cfg.get("relative", True)
    h = [Fraction(1)] * 3 if rel else [Fraction(s) for s in cfg.get("elsize", ["1", "1", "1"])]
    if cfg.get("symradius"):
        r = V.real("radius", lo=cfg["symradius"][0], hi=cfg["symradius"][1], default=1.5)
        if V.symbolic:
            top = Fraction(cfg["symradius"][1])
            for a in range(3 if nz_real else 2):
                for k in range(1, int(top / h[a]) + 2):
                    V.assume(SB(z3.Not(z3.And((r > k * h[a]).t, (r < k * h[a] + Fraction(1, 10 ** 10) * h[a]).t))),
                             "symbolic radius not within 1e-10 h above a multiple of the element size h")
    else:
        r = V.const(cfg["radius"])
    if cfg.get("prior_radius") is not None:
        # process history: another filter on a mesh of the same size, with another radius, was built and used before
        m0 = pym.FilterConv(pym.Signal("x0", x), domain=_domain(V, cfg), radius=V.const(cfg["prior_radius"]), relative_units=rel, **kw)
        m0.response()
    if rel and cfg.get("default_units"):
        m = pym.FilterConv(sig, domain=dom, radius=r, **kw)
    elif cfg.get("radius_first") is not None:
        # history on one object: built with another radius, then the public set_filter_radius(r) installs the final one
        m = pym.FilterConv(sig, domain=dom, radius=V.const(cfg["radius_first"]), relative_units=rel, **kw)
        m.set_filter_radius(r, relative_units=rel)
    else:
        m = pym.FilterConv(sig, domain=dom, radius=r, relative_units=rel, **kw)
    Wm = np.asarray(m.weights)
    obs = dict(weights=m.weights)
    model = "decimal" if rel else "algebraic"
    w = ref_cone(V, r, n, nz_real, h, model)
    # kernel: shape, non-negative, sums to one, equals the normalised cone
    ok = Wm.ndim == 3 and all(s % 2 == 1 for s in Wm.shape) and all((s - 1) // 2 <= (n[a] if (a < 2 or nz_real) else 0)
                                                                    for a, s in enumerate(Wm.shape))
    K.true("kernel-shape", ok, "kernel-shape", info=list(Wm.shape))
    if ok:
        d = [(s - 1) // 2 for s in Wm.shape]
        tot = 0
        for o in w:
            tot = tot + w[o]
        for o, wo in w.items():
            inside = all(abs(o[a]) <= d[a] for a in range(3))
            lab = "w[%d,%d,%d]" % o
            if inside:
                got = Wm[o[0] + d[0], o[1] + d[1], o[2] + d[2]]
                K.eq(lab + "==cone/sum", got, wo / tot, "kernel==cone")
                K.le("0<=" + lab, 0, got, "kernel-nonnegative")
            else:
                K.eq(lab + " outside the kernel is 0", wo, 0, "kernel-support")
        K.eq("sum(w)==1", _total(list(Wm.flat)), 1, "kernel-sums-to-one")
    m.response()
    y = m.sig_out[0].state
    obs["y"] = y
    yref, _ = ref_radius_filter(x, n, w, rules, vals)
    _check_y(K, y, yref)
    if novalue:
        obs["yc"] = _bounds_and_constant(V, K, m, sig, y, lo, hi, cfg)
        if _all_symmetric(cfg):
            K.eq("sum(y)==sum(x)", _total(y), _total(x), "volume")
    return _clean(obs, V)


def sc_df(V, P, cfg):
    import pymoto as pym
    K = Chk(P)
    n = _n3(cfg)
    dom = _domain(V, cfg)
    nonpad = cfg.get("nonpadding")
    x, lo, hi = _field(V, cfg, bounded=nonpad is None)
    sig = pym.Signal("x", x)
    if cfg.get("symradius"):
        r = V.real("radius", lo=cfg["symradius"][0], hi=cfg["symradius"][1], default=1.5)
    else:
        r = V.const(cfg["radius"])
    kw = {}
    if nonpad is not None:
        kw["nonpadding"] = np.array(nonpad, dtype=int)
    if cfg.get("prior_radius") is not None:
        # process history: another filter on a mesh of the same size, with another radius, was built and used before
        m0 = pym.DensityFilter(pym.Signal("x0", x), domain=_domain(V, cfg), radius=V.const(cfg["prior_radius"]), **kw)
        m0.response()
    m = pym.DensityFilter(sig, domain=dom, radius=r, **kw)
    m.response()
    y = m.sig_out[0].state
    obs = dict(y=y)
    yref = ref_density(V, x, n, r, "decimal", nonpadding=nonpad)
    _check_y(K, y, yref)
    if nonpad is None:
        obs["yc"] = _bounds_and_constant(V, K, m, sig, y, lo, hi, cfg)
    return _clean(obs, V)


def sc_selftest(V, P, cfg):
    """The reference's convention (kernel flipped) against scipy.signal.convolve on concrete data with an
    asymmetric kernel and zero padding ('same' mode == valid mode on the zero-extended field)."""
    from scipy.signal import convolve as sp_convolve
    K = Chk(P)
    rng = np.random.default_rng(5)
    for n, ks in [((3, 2, 1), (3, 3, 1)), ((4, 3, 1), (5, 3, 1)), ((3, 2, 2), (3, 3, 3)), ((1, 3, 1), (1, 3, 1))]:
        x = rng.integers(-8, 9, size=n[0] * n[1] * n[2]).astype(float)
        k3 = rng.integers(-8, 9, size=ks).astype(float)
        yref = ref_conv(x, n, k3, ["value"] * 6, [0.0] * 6)
        x3 = np.zeros(n)
        for k in range(n[2]):
            for j in range(n[1]):
                for i in range(n[0]):
                    x3[i, j, k] = x[elem(i, j, k, n)]
        ysp = sp_convolve(x3, k3, mode="same")
        ok = all(abs(yref[elem(i, j, k, n)] - ysp[i, j, k]) < 1e-9 for i in range(n[0]) for j in range(n[1]) for k in range(n[2]))
        K.true("reference==scipy.signal.convolve %s/%s" % (n, ks), ok, "reference-selftest")
    return dict(done=1.0)


SCEN = {"fc-conv": sc_fc_kernel, "fc-widepad": sc_fc_kernel, "fc-widepad-mixed": sc_fc_kernel, "fc-override": sc_fc_kernel, "fc-bounds": sc_fc_kernel,
        "fc-volume": sc_fc_kernel, "fc-radius": sc_fc_radius, "df": sc_df, "ref-selftest": sc_selftest}


# ------------------------------------------------------------------------------------------------
# grid
def pairwise(levels, nfac, fixed_first=None):
    """Greedy pairwise covering array (deterministic)."""
    need = set()
    for f1, f2 in itertools.combinations(range(nfac), 2):
        for a in levels:
            for b in levels:
                need.add((f1, a, f2, b))
    allrows = list(itertools.product(levels, repeat=nfac))
    rows = []
    if fixed_first:
        for r in fixed_first:
            rows.append(tuple(r))
            for f1, f2 in itertools.combinations(range(nfac), 2):
                need.discard((f1, r[f1], f2, r[f2]))
    while need:
        best, bestn = None, -1
        for r in allrows:
            c = 0
            for f1, f2 in itertools.combinations(range(nfac), 2):
                if (f1, r[f1], f2, r[f2]) in need:
                    c += 1
            if c > bestn:
                best, bestn = r, c
        rows.append(best)
        for f1, f2 in itertools.combinations(range(nfac), 2):
            need.discard((f1, best[f1], f2, best[f2]))
    return rows


def _tag(mesh):
    return "x".join(str(s) for s in mesh if s > 0)


def _ktag(k):
    return "k" + "x".join(map(str, k))


def _btag(bcs, dim):
    return "".join(ABBR[bcs.get(s, "symmetric")] for s in SIDES[:2 * dim])


def _fits(mesh, kernel):
    n = (mesh[0], mesh[1], mesh[2])
    return all((kernel[a] - 1) // 2 <= (n[a] if (a < 2 or n[2] > 0) else 0) for a in range(len(kernel)))


def VIEWS_LAYOUT_ITEMS(it, tier):
    return True


def items(tier):
    q = tier == "quick"
    out = []

    seen = set()

    def add(kind, ident, **kw):
        i = "%s-%s" % (kind, ident)
        if i not in seen:
            seen.add(i)
            out.append(dict(kind=kind, id=i, **kw))

    meshes2 = [(1, 1, 0), (1, 3, 0), (3, 1, 0), (2, 2, 0), (3, 2, 0)] + ([] if q else [(4, 3, 0)])
    meshes3 = [] if q else [(2, 2, 2), (3, 2, 2)]
    pw4 = pairwise(MODES, 4, fixed_first=[("symmetric",) * 4])
    pw6 = pairwise(MODES, 6, fixed_first=[("symmetric",) * 6])
    pw4n = pairwise(MODES[:3], 4, fixed_first=[("symmetric",) * 4])          # no constant padding
    pw6n = pairwise(MODES[:3], 6, fixed_first=[("symmetric",) * 6])
    kernels2 = [(3, 3), (1, 1), (3, 1), (1, 3), (5, 3), (3, 5)] + ([] if q else [(5, 5), (7, 3)])
    kernels3 = [(3, 3, 3), (1, 3, 3), (3, 1, 5), (5, 3, 1)]

    # ---- explicit kernels against the reference
    for mesh in meshes2 + meshes3:
        dim = 3 if mesh[2] else 2
        ks = [k for k in (kernels3 if dim == 3 else kernels2) if _fits(mesh, k)]
        pw = pw6 if dim == 3 else pw4
        for ki, kern in enumerate(ks):
            if ki == 0:
                combos = pw
                if not q and mesh in ((3, 2, 0), (2, 2, 0)):
                    combos = list(itertools.product(MODES, repeat=4))
            else:
                combos = [pw[(3 * ki + 5 * t + 1) % len(pw)] for t in range(3 if q else 6)]
            for combo in dict.fromkeys(combos):
                bcs = dict(zip(SIDES[:2 * dim], combo))
                add("fc-conv", "%s-%s-%s" % (_tag(mesh), _ktag(kern), _btag(bcs, dim)), mesh=mesh, kernel=kern, bcs=bcs)
                if ki == 0 and "value" in combo and mesh in ((3, 2, 0), (2, 2, 2)):
                    add("fc-conv", "%s-%s-%s-again" % (_tag(mesh), _ktag(kern), _btag(bcs, dim)), mesh=mesh, kernel=kern,
                        bcs=bcs, again=True)
    # ---- a kernel given as a 1-D array acts along x (missing trailing axes have size one, as for 2-D kernels on 3-D domains)
    for mesh, kern in [((3, 2, 0), (3,)), ((2, 2, 0), (3,)), ((3, 2, 0), (5,))] + ([] if q else [((2, 2, 2), (3,))]):
        dim = 3 if mesh[2] else 2
        for combo in [("symmetric",) * 6, ("edge", "value", "wrap", "symmetric", "value", "edge")]:
            bcs = dict(zip(SIDES[:2 * dim], combo))
            add("fc-conv", "%s-%s-%s" % (_tag(mesh), _ktag(kern), _btag(bcs, dim)), mesh=mesh, kernel=kern, bcs=bcs)
    # ---- pad larger than the domain: the same rule on both sides of every axis, and mixed rules
    wide = [((1, 3, 0), (5, 3)), ((2, 2, 0), (7, 3)), ((3, 1, 0), (3, 5))] + ([] if q else [((2, 2, 0), (7, 7)), ((1, 1, 0), (5, 5)),
                                                                                          ((2, 2, 2), (7, 3, 3))])
    for mesh, kern in wide:
        dim = 3 if mesh[2] else 2
        for a, b in itertools.product(MODES, repeat=2):
            if dim == 2:
                bcs = dict(xmin=a, xmax=a, ymin=b, ymax=b)
            else:
                bcs = dict(xmin=a, xmax=a, ymin=b, ymax=b, zmin=a, zmax=b)
            add("fc-widepad", "%s-%s-%s" % (_tag(mesh), _ktag(kern), _btag(bcs, dim)), mesh=mesh, kernel=kern, bcs=bcs)
    for mesh, kern, bcs in [((1, 3, 0), (5, 3), dict(xmin="symmetric", xmax="value", ymin="edge", ymax="wrap")),
                            ((2, 2, 0), (7, 3), dict(xmin="symmetric", xmax="wrap", ymin="symmetric", ymax="symmetric")),
                            ((2, 2, 0), (7, 3), dict(xmin="wrap", xmax="symmetric", ymin="edge", ymax="edge")),
                            ((3, 1, 0), (3, 5), dict(xmin="edge", xmax="edge", ymin="symmetric", ymax="value")),
                            ((1, 3, 0), (5, 3), dict(xmin="edge", xmax="value", ymin="symmetric", ymax="symmetric")),
                            ((2, 2, 0), (7, 3), dict(xmin="edge", xmax="wrap", ymin="value", ymax="edge"))]:
        add("fc-widepad-mixed", "%s-%s-%s" % (_tag(mesh), _ktag(kern), _btag(bcs, 2)), mesh=mesh, kernel=kern, bcs=bcs)
    # ---- overrides
    ovs = [dict(api="values", set="single"), dict(api="values", set="pair", value="array"),
           dict(api="values", set="column-x0", how="slice"), dict(api="values", set="row-ylast", how="mask", value="array"),
           dict(api="values", set="all", how="mask"), dict(api="values", set="column-x0", how="arrays", second=True),
           dict(api="padded", set="corner"), dict(api="padded", set="pad-strip-xmin", value="array"),
           dict(api="padded", set="mixed", value="array", second=True)]
    for mesh, kern in [((3, 2, 0), (3, 3)), ((2, 2, 0), (3, 5))] + ([] if q else [((4, 3, 0), (5, 3)), ((2, 2, 2), (3, 3, 3))]):
        dim = 3 if mesh[2] else 2
        for oi, ov in enumerate(ovs):
            for bi, combo in enumerate([("symmetric",) * 6, ("value", "wrap", "edge", "value", "wrap", "value")]):
                bcs = dict(zip(SIDES[:2 * dim], combo))
                add("fc-override", "%s-%s-%s-o%d%s" % (_tag(mesh), _ktag(kern), _btag(bcs, dim), oi, ov["set"]),
                    mesh=mesh, kernel=kern, bcs=bcs, override=ov)
                if (oi + bi) % 3 == 0:
                    add("fc-override", "%s-%s-%s-o%d%s-again" % (_tag(mesh), _ktag(kern), _btag(bcs, dim), oi, ov["set"]),
                        mesh=mesh, kernel=kern, bcs=bcs, override=ov, again=True)
    # ---- bounds / constant fields / volume
    for mesh in meshes2 + meshes3:
        dim = 3 if mesh[2] else 2
        ks = [k for k in ([(3, 3, 3), (3, 1, 3)] if dim == 3 else [(3, 3), (5, 3), (3, 5), (1, 3)]) if _fits(mesh, k)]
        pw = pw6n if dim == 3 else pw4n
        for ki, kern in enumerate(ks[:2] if q else ks):
            combos = pw if ki == 0 else [pw[(2 * ki + 3 * t + 1) % len(pw)] for t in range(2)]
            if dim == 3:
                combos = combos[:6]
            for combo in dict.fromkeys(combos):
                bcs = dict(zip(SIDES[:2 * dim], combo))
                add("fc-bounds", "%s-%s-%s" % (_tag(mesh), _ktag(kern), _btag(bcs, dim)), mesh=mesh, kernel=kern, bcs=bcs)
        for kern in [k for k in ([(3, 3, 3), (5, 3, 1)] if dim == 3 else [(3, 3), (5, 3), (3, 5), (3, 1), (5, 5)]) if _fits(mesh, k)]:
            add("fc-volume", "%s-%s" % (_tag(mesh), _ktag(kern)), mesh=mesh, kernel=kern, bcs={})
    # ---- radius kernels
    radii = BOUNDS[tier]["radius_constant"]
    for mesh in meshes2 + meshes3:
        dim = 3 if mesh[2] else 2
        pw = pw6 if dim == 3 else pw4
        for ri, rad in enumerate(radii):
            for t in range(2 if q else 3):
                combo = pw[0] if t == 0 else pw[(5 * ri + 7 * t + mesh[0]) % len(pw)]
                bcs = dict(zip(SIDES[:2 * dim], combo))
                add("fc-radius", "%s-r%s-%s" % (_tag(mesh), rad, _btag(bcs, dim)), mesh=mesh, radius=rad, bcs=bcs,
                    default_units=(t == 0))
                if t == 1 and ri == 0:
                    add("fc-radius", "%s-r1.8-after-another-filter-r1.2-%s" % (_tag(mesh), _btag(bcs, dim)), mesh=mesh, radius="1.8",
                        prior_radius="1.2", bcs=bcs)
                if t == 1 and ri == 0:
                    # set_filter_radius() on an existing filter: same kernel size (1.8 after 1.5: both 3 wide) ...
                    add("fc-radius", "%s-r1.8-after-r1.5-%s" % (_tag(mesh), _btag(bcs, dim)), mesh=mesh, radius="1.8",
                        radius_first="1.5", bcs=bcs)
                    # ... and a different kernel size (known finding D30: the padding keeps the first kernel's size)
                    add("fc-radius", "%s-r2.5-after-r1.5-%s" % (_tag(mesh), _btag(bcs, dim)), mesh=mesh, radius="2.5",
                        radius_first="1.5", bcs=bcs, resize=True)
        # absolute units: every non-square squared distance is an algebraic constant s (s*s == q) and the cone weights
        # max(0, r - s) stay If-terms; the cost grows quickly with the number of such constants inside the radius
        for rad in (["1.5", "2.5"] if (q or dim == 2) else ["1.5"]) + ([] if (q or dim == 3) else ["0.4"]):
            for t, combo in enumerate([pw[0], pw[(3 + mesh[1]) % len(pw)]]):
                bcs = dict(zip(SIDES[:2 * dim], combo))
                add("fc-radius", "%s-abs-r%s-%s" % (_tag(mesh), rad, _btag(bcs, dim)), mesh=mesh, radius=rad, bcs=bcs,
                    relative=False, elsize=["1/2", "2", "1"])
                if t == 0:
                    # the other anisotropy (unitx > unity > unitz): the per-axis half-widths must use their own element size
                    add("fc-radius", "%s-abs2-r%s-%s" % (_tag(mesh), rad, _btag(bcs, dim)), mesh=mesh, radius=rad, bcs=bcs,
                        relative=False, elsize=["2", "1", "1/2"])
        top = "3.6" if q else str(Fraction(max(mesh)) + Fraction("1.2"))
        if q and mesh not in ((3, 2, 0), (2, 2, 0), (1, 3, 0)):
            continue
        for t, combo in enumerate([pw[0], pw[(2 + mesh[0]) % len(pw)]]):
            bcs = dict(zip(SIDES[:2 * dim], combo))
            add("fc-radius", "%s-symr-%s" % (_tag(mesh), _btag(bcs, dim)), mesh=mesh, symradius=["0.3", top], bcs=bcs)
        if mesh == (3, 2, 0):
            add("fc-radius", "%s-abs-symr-%s" % (_tag(mesh), _btag({}, dim)), mesh=mesh, symradius=["0.3", "3.6" if q else "2.6"], bcs={},
                relative=False, elsize=["1/2", "2", "1"])
    # ---- DensityFilter
    for mesh in meshes2 + meshes3:
        for rad in radii:
            add("df", "%s-r%s" % (_tag(mesh), rad), mesh=mesh, radius=rad)
        top = "3.6" if q else str(Fraction(max(mesh)) + Fraction("1.2"))
        add("df", "%s-symr" % _tag(mesh), mesh=mesh, symradius=["0.3", top])
        if max(mesh) >= 2:
            add("df", "%s-r1.8-after-r1.2" % _tag(mesh), mesh=mesh, radius="1.8", prior_radius="1.2")
            add("df", "%s-r2.5-after-r1.5" % _tag(mesh), mesh=mesh, radius="2.5", prior_radius="1.5")
    for mesh, nonpad in [((3, 2, 0), [0, 1]), ((3, 2, 0), [2, 3, 5]), ((2, 2, 0), [])] + ([] if q else [((2, 2, 2), [0, 7]), ((4, 3, 0), [5, 6])]):
        for rad in ("1.5", "2.5"):
            add("df", "%s-r%s-nonpad%s" % (_tag(mesh), rad, "".join(map(str, nonpad))), mesh=mesh, radius=rad, nonpadding=nonpad)
    add("ref-selftest", "scipy")
    return out


def run_item(cfg, tier):
    return symbolic_run(SCEN[cfg["kind"]], cfg, tier, max_paths=60)


# ------------------------------------------------------------------------------------------------
def replay(cfg, label, env, case):
    """Floats on the real library: the scenario in concrete mode, the violated clause evaluated numerically."""
    V = Vals(env=env)
    LAST.clear()
    inputs = lambda: {k: env[k] for k in V.requested if k in env}
    try:
        SCEN[cfg["kind"]](V, None, cfg)
    except Exception as e:
        want = label.split(":", 1)[1] if label.startswith("exception:") else None
        return dict(reproduced=(want is None or type(e).__name__ == want),
                    detail=dict(raised="%s: %s" % (type(e).__name__, str(e)[:300]), clause=label, inputs=inputs()))
    fails = LAST["chk"].fails if "chk" in LAST else {}
    if label.startswith("exception:"):
        return dict(reproduced=False, detail="no exception on the real code")
    if label == "*":          # any clause failing on the real library with these numbers (used by the runner's fallbacks)
        if fails:
            first = sorted(fails)[0]
            return dict(reproduced=True, detail=dict(clause=first, observed=fails[first], other_failing=[k for k in sorted(fails)[1:7]]))
        return dict(reproduced=False, detail="every clause holds on the real library")
    if label in fails:
        return dict(reproduced=True, detail=dict(clause=label, observed=fails[label], inputs=inputs(),
                                                 other_failing=[k for k in fails if k != label][:6]))
    return dict(reproduced=False, detail=dict(clause=label, inputs=inputs(), failing=list(fails)[:6]))
