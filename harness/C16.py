"""C16 - aggregations bound the true extreme; active sets select the requested band.

Executed for real: AggActiveSet.__call__, AggScaling.__call__, Aggregation._response,
PNorm/KSFunction/SoftMinMax.aggregation_function.
"""
import math
import warnings
import numpy as np
import z3

from symx import R, SB, C
from symx import axioms
from .common import symbolic_run, Vals, env_floats

PROPERTY = "C16"
BOUNDS = {
    "quick": dict(active_set_n=[1, 2, 3], active_set_both_max=3, scaling_calls=3, scaling_n=3, bounds_n=[2, 3],
                  pnorm_p=[1, 2, -1, -2], fractions="symbolic in [0,1]"),
    "thorough": dict(active_set_n=[1, 2, 3, 4, 5], active_set_both_max=4, scaling_calls=3, scaling_n=[2, 3, 4], bounds_n=[2, 3, 4],
                     pnorm_p=[1, 2, 3, 4, -1, -2, -3], fractions="symbolic in [0,1]"),
}
OUTSIDE = ["vector lengths beyond the bound", "PNorm bounds for non-integer p",
           "IEEE rounding, overflow of exp(): not visible to exact-real arithmetic; six `range-concrete-*` regression items run the "
           "real modules on fixed wide-range data (evidence kind `concrete-regression`, not a solver verdict)",
           "AggScaling with approximations equal to zero (division by zero)"]
ASSUMPTIONS = ["float64 arithmetic modelled as exact real arithmetic",
               "EXP/LOG/SQRT are uninterpreted functions with ground instances of: EXP(t)>0, EXP monotone, "
               "LOG(EXP(t))=t, LOG monotone, LOG(a*b)=LOG(a)+LOG(b) (instances listed per obligation kind)"]
ITEM_TIMEOUT = {"quick": 150, "thorough": 900}


def VIEWS_LAYOUT_ITEMS(it, tier):
    return it["id"] != "activeset-n3-both" and it["kind"] != "range-concrete"      # (two minutes on its own)


def items(tier):
    b = BOUNDS[tier]
    out = []
    for n in b["active_set_n"]:
        for mode in ("amt", "rel", "both"):
            if mode == "both" and n > b["active_set_both_max"]:
                continue
            out.append(dict(kind="activeset", id="activeset-n%d-%s" % (n, mode), n=n, mode=mode, timeout=(400 if tier == "quick" else 1500)))
            if mode == "amt":
                # the same AggActiveSet object called before with another (fixed) vector of the same size, as inside an
                # aggregation module in every design iteration
                out.append(dict(kind="activeset", id="activeset-n%d-%s-second-call" % (n, mode), n=n, mode=mode, prior_call=True,
                                timeout=(400 if tier == "quick" else 1500)))
    ns = b["scaling_n"] if isinstance(b["scaling_n"], list) else [b["scaling_n"]]
    for n in ns:
        for which in ("max", "min"):
            for agg in ("PNorm2", "KS", "SoftMinMax"):
                out.append(dict(kind="scaling", id="scaling-%s-%s-n%d" % (agg, which, n), n=n, which=which, agg=agg))
    # scaling AND an active set that cuts on the side of the extreme: the scale refers to the extreme of the ACTIVE entries
    for which in ("max", "min"):
        for agg in ("PNorm2", "KS", "SoftMinMax"):
            out.append(dict(kind="scaling", id="scaling-%s-%s-n3-activeset" % (agg, which), n=3, which=which, agg=agg, active=True))
    out.append(dict(kind="scaling", id="scaling-KS-max-n3-varying-length", n=3, which="max", agg="KS", varlen=True))
    out.append(dict(kind="scaling", id="scaling-PNorm2-min-n2-varying-length", n=2, which="min", agg="PNorm2", varlen=True))
    for n in b["bounds_n"]:
        for sgn in (+1, -1):
            out.append(dict(kind="bound-softminmax", id="bound-softminmax-n%d-%s" % (n, "pos" if sgn > 0 else "neg"), n=n, sgn=sgn))
            out.append(dict(kind="bound-ks", id="bound-ks-n%d-%s" % (n, "pos" if sgn > 0 else "neg"), n=n, sgn=sgn))
        for p in b["pnorm_p"]:
            out.append(dict(kind="bound-pnorm", id="bound-pnorm-n%d-p%d" % (n, p), n=n, p=p))
        if n == 2:
            # concrete regression items: wide spreads / large magnitudes for which the defining formula is representable
            for nm, agg, par, xs in [("ks-min-wide", "KS", -1.0, [0.001, 900.0, 3.0]), ("ks-max-wide", "KS", 1.0, [-900.0, -0.5, -3.0]),
                                     ("ks-min-large", "KS", -2.0, [250.0, 300.0]), ("softmin-wide", "SoftMinMax", -1.0, [0.5, 800.0]),
                                     ("softmax-wide", "SoftMinMax", 1.0, [-800.0, -0.5]), ("pnorm-large", "PNorm", 4.0, [1e60, 2e60])]:
                out.append(dict(kind="range-concrete", id="range-concrete-%s" % nm, agg=agg, par=par, x=xs))
            out.append(dict(kind="bound-softminmax", id="bound-softminmax-n2-pos-param-changed", n=n, sgn=+1, param_changed=True))
            out.append(dict(kind="bound-ks", id="bound-ks-n2-neg-param-changed", n=n, sgn=-1, param_changed=True))
            for p in b["pnorm_p"][:2]:
                out.append(dict(kind="bound-pnorm", id="bound-pnorm-n2-p%d-param-changed" % p, n=n, p=p, param_changed=True))
    return out


# ------------------------------------------------------------------------------------------------
PRIOR_X = [3.0, -1.0, 2.0, 0.5, 7.0, -4.0]      # distinct values: lowest and highest at positions 1 and 0 (n = 3)


def sc_activeset(V, P, cfg):
    import pymoto as pym
    n, mode = cfg["n"], cfg["mode"]
    x = V.reals("x", n)
    kw = {}
    if mode in ("amt", "both"):
        la, ua = V.real("lower_amt", lo=0, hi=1), V.real("upper_amt", lo=0, hi=1)
        V.assume(la < ua)
        kw.update(lower_amt=la, upper_amt=ua)
    else:
        la, ua = 0.0, 1.0
    if mode in ("rel", "both"):
        lr, ur = V.real("lower_rel", lo=0, hi=1), V.real("upper_rel", lo=0, hi=1)
        V.assume(lr < ur)
        kw.update(lower_rel=lr, upper_rel=ur)
    else:
        lr, ur = 0.0, 1.0
    a = pym.AggActiveSet(**kw)
    if cfg.get("prior_call"):
        a(np.array(PRIOR_X[:n]))
    sel = a(x)
    if sel is Ellipsis:
        mask = np.ones(n, dtype=bool)
    else:
        mask = sel
    if P is not None:
        xs = list(x)
        xmin, xmax = _min(xs), _max(xs)
        if sel is Ellipsis:
            P.holds("ellipsis-iff-all-equal", xmax == xmin, kind="ellipsis")
        else:
            # reference: value band minus floor(n*lower_amt) lowest and floor(n*(1-upper_amt)) highest by rank
            perm = np.argsort(np.asarray(x))
            rank = np.empty(n, dtype=int)
            rank[perm] = np.arange(n)
            nl = int(n * la) if mode != "rel" else 0
            nu = int(n * (1 - ua)) if mode != "rel" else 0
            for k in range(n - 1):
                P.holds("perm-sorted[%d]" % k, x[perm[k]] <= x[perm[k + 1]], kind="aux")
            for i in range(n):
                keep = True
                if mode != "amt":
                    xrel = (x[i] - xmin) / (xmax - xmin)
                    keep = _and(xrel >= lr, xrel <= ur)
                by_rank = (rank[i] >= nl) and (rank[i] < n - nu)
                exp = _and(keep, by_rank)
                P.holds("mask[%d]" % i, _iff(mask[i], exp), kind="mask:nl=%d,nu=%d" % (nl, nu))
    return dict(mask=np.array([_b(m) for m in mask], dtype=object) if V.symbolic else np.asarray(mask, dtype=float))


def _b(m):
    if isinstance(m, SB):
        return m.as_R()
    return int(bool(m))


def _and(a, b):
    if isinstance(a, (bool, np.bool_)) and isinstance(b, (bool, np.bool_)):
        return bool(a) and bool(b)
    return SB(z3.And(SB._t(a), SB._t(b)))


def _iff(a, b):
    if isinstance(a, (bool, np.bool_)) and isinstance(b, (bool, np.bool_)):
        return bool(a) == bool(b)
    return SB(SB._t(a) == SB._t(b))


def _max(xs):
    from symx.npshim import _max2
    r = xs[0]
    for e in xs[1:]:
        r = _max2(r, e)
    return r


def _min(xs):
    from symx.npshim import _min2
    r = xs[0]
    for e in xs[1:]:
        r = _min2(r, e)
    return r


# ------------------------------------------------------------------------------------------------
def _mk_agg(agg, sig, V, **kw):
    import pymoto as pym
    if agg == "PNorm2":
        return pym.PNorm(sig, p=2, **kw)
    if agg == "KS":
        return pym.KSFunction(sig, rho=V.real("rho", nonzero=True, default=2.0), **kw)
    if agg == "SoftMinMax":
        return pym.SoftMinMax(sig, alpha=V.real("alpha", nonzero=True, default=2.0), **kw)
    raise ValueError(agg)


def sc_scaling(V, P, cfg):
    """Three successive responses with independent data and damping d; undamped twin."""
    import pymoto as pym
    n, which, agg = cfg["n"], cfg["which"], cfg["agg"]
    d = V.real("d", lo=0, hi="0.9375")
    nresp = 1 if cfg.get("active") else 3        # (with an active set every response forks over the 6 orderings)
    # `varlen`: the number of values changes between the responses (a value band of an active set, a re-meshed input): the
    # damped recurrence carries over whatever the lengths are
    lens_ = [n, max(1, n - 1), n] if cfg.get("varlen") else [n] * 3
    xs = [V.reals("x%d" % k, lens_[k], positive=True) for k in range(nresp)]
    sig = pym.Signal("x")
    sc = pym.AggScaling(which, damping=d)
    akw = {}
    if cfg.get("active"):
        # n = 3, one entry removed on the side of the extreme (int(3 * 0.5) = 1): the middle value is the extreme kept
        mk_as = (lambda: pym.AggActiveSet(upper_amt=V.const("0.5"))) if which == "max" else (lambda: pym.AggActiveSet(lower_amt=V.const("0.5")))
        if V.symbolic:
            for xk in xs:
                V.assume(xk[0] != xk[1])
                V.assume(xk[0] != xk[2])
                V.assume(xk[1] != xk[2])
    else:
        mk_as = None
    m = _mk_agg(agg, sig, V, scaling=sc, **(dict(active_set=mk_as()) if mk_as else {}))
    sig0 = pym.Signal("x")
    m0 = _mk_agg(agg, sig0, V, **(dict(active_set=mk_as()) if mk_as else {}))                      # unscaled twin gives the approximation itself
    sigu = pym.Signal("x")
    mu = _mk_agg(agg, sigu, V, scaling=pym.AggScaling(which, damping=0.0), **(dict(active_set=mk_as()) if mk_as else {}))   # undamped
    obs = {}
    s_prev = None
    ext = _max if which == "max" else _min
    for k in range(nresp):
        sig.state = xs[k]
        sig0.state = xs[k]
        sigu.state = xs[k]
        m.response()
        m0.response()
        mu.response()
        y, approx, yu = m.sig_out[0].state, m0.sig_out[0].state, mu.sig_out[0].state
        true = ext(list(xs[k]))
        if cfg.get("active"):
            true = xs[k][0] + xs[k][1] + xs[k][2] - _max(list(xs[k])) - _min(list(xs[k]))      # the middle value
        obs["y%d" % k], obs["approx%d" % k], obs["yu%d" % k] = y, approx, yu
        if P is not None:
            s_exp = true / approx if s_prev is None else d * s_prev + (1 - d) * true / approx
            P.eq("sf[%d]" % k, sc.sf, s_exp, kind="damped-recurrence")
            P.eq("y[%d]" % k, y, s_exp * approx, kind="scaled-output")
            P.eq("undamped[%d]" % k, yu, true, kind="undamped-exact")
            s_prev = s_exp
        if k == 0:
            # an optimisation loop seeds, back-propagates and resets between two responses: the damped recurrence
            # carries over (Module.reset() clears sensitivities, nothing else)
            m.sig_out[0].sensitivity = V.real("w_between", default=1.0)
            m.sensitivity()
            m.reset()
        elif k == 1:
            m.reset()
    return obs


# ------------------------------------------------------------------------------------------------
def sc_bound_softminmax(V, P, cfg):
    import pymoto as pym
    n, sgn = cfg["n"], cfg["sgn"]
    x = V.reals("x", n, positive=True)
    al = V.real("alpha", positive=True, default=1.5)
    alpha = al if sgn > 0 else -al
    sig = pym.Signal("x", x)
    if cfg.get("param_changed"):
        # history on one module: built and evaluated with another parameter, then the public attribute is set
        m = pym.SoftMinMax(sig, alpha=alpha * 3)
        m.response()
        m.alpha = alpha
    else:
        m = pym.SoftMinMax(sig, alpha=alpha)
    m.response()
    y = m.sig_out[0].state
    if P is not None:
        xs = list(x)
        P.holds("y>=min", y >= _min(xs), kind="bound-lower")
        P.holds("y<=max", y <= _max(xs), kind="bound-upper")
    return dict(y=y)


def sc_bound_ks(V, P, cfg):
    import pymoto as pym
    n, sgn = cfg["n"], cfg["sgn"]
    x = V.reals("x", n, positive=True)
    rh = V.real("rho", positive=True, default=1.5)
    rho = rh if sgn > 0 else -rh
    sig = pym.Signal("x", x)
    if cfg.get("param_changed"):
        m = pym.KSFunction(sig, rho=rho * 3)
        m.response()
        m.rho = rho
    else:
        m = pym.KSFunction(sig, rho=rho)
    m.response()
    y = m.sig_out[0].state
    if P is not None:
        c = V.c
        xs = list(x)
        ts = [axioms.as_term(rho * xi) for xi in xs]
        es = [axioms.EXP(t) for t in ts]
        S = es[0]
        for e in es[1:]:
            S = S + e
        S = z3.simplify(S)
        LS = axioms.LOG(S)
        Ln = axioms.LOG(z3.RealVal(n))
        # ground lemma instances (true for the real exp/log)
        for i in range(n):
            c.assume(z3.Implies(S >= es[i], LS >= ts[i]))                      # LOG monotone + LOG(EXP t) = t
            for j in range(n):
                if i != j:
                    c.assume(z3.Implies(ts[j] <= ts[i], es[j] <= es[i]))       # EXP monotone
            c.assume(z3.Implies(S <= n * es[i], LS <= Ln + ts[i]))             # LOG monotone, LOG(n e^t) = LOG n + t
        c.assume(Ln > 0 if n > 1 else Ln == 0)
        lgn = R(n=Ln, d=())
        if sgn > 0:
            P.holds("KS>=max", y >= _max(xs), kind="bound-lower")
            P.holds("KS<=max+log(n)/rho", y <= _max(xs) + lgn / rho, kind="bound-upper")
        else:
            P.holds("KS<=min", y <= _min(xs), kind="bound-upper")
            P.holds("KS>=min-log(n)/|rho|", y >= _min(xs) + lgn / rho, kind="bound-lower")
    return dict(y=y)


def sc_bound_pnorm(V, P, cfg):
    """max <= S_p and S_p^p <= n * max^p (p > 0) stated without roots; mirrored for p < 0."""
    import pymoto as pym
    n, p = cfg["n"], cfg["p"]
    x = V.reals("x", n, positive=True)
    sig = pym.Signal("x", x)
    pv = (R.of(p) if V.symbolic else p)
    if cfg.get("param_changed"):
        m = pym.PNorm(sig, p=(R.of(2 * p) if V.symbolic else 2 * p))
        m.response()
        m.p = pv
    else:
        m = pym.PNorm(sig, p=pv)
    m.response()
    y = m.sig_out[0].state
    if P is not None:
        xs = list(x)
        tot = xs[0] ** p
        for e in xs[1:]:
            tot = tot + e ** p
        # y is the positive p-th root of sum x^p
        P.eq("S^p==sum x^p", y ** p, tot, kind="root-identity")
        P.holds("S>0", y > 0, kind="positivity")
        if p > 0:
            mx = _max(xs)
            P.holds("max^p<=S^p", mx ** p <= y ** p, kind="bound-lower")
            P.holds("S^p<=n*max^p", y ** p <= n * mx ** p, kind="bound-upper")
        else:
            mn = _min(xs)
            P.holds("S^p>=min^p", y ** p >= mn ** p, kind="bound-upper")     # p<0: reverses -> S <= min
            P.holds("S^p<=n*min^p", y ** p <= n * mn ** p, kind="bound-lower")
    return dict(y=y)


def sc_range_concrete(V, P, cfg):
    """Concrete regression items (NOT a solver verdict; evidence kind `concrete-regression`): floating-point range. For data
    whose defining formula is representable in float64 (every exp(rho x_i) is finite and their sum is not zero) the
    aggregate is finite and inside its bounds; exact-real arithmetic cannot see an overflow of a rewritten formula."""
    import math
    import pymoto as pym
    agg, x, par = cfg["agg"], np.array(cfg["x"], dtype=float), float(cfg["par"])
    if V.symbolic:
        from symx import npshim
        npshim.uninstall()
    try:
        sig = pym.Signal("x", x.copy())
        m = {"KS": lambda: pym.KSFunction(sig, rho=par), "SoftMinMax": lambda: pym.SoftMinMax(sig, alpha=par),
             "PNorm": lambda: pym.PNorm(sig, p=par)}[agg]()
        with warnings.catch_warnings():
            warnings.simplefilter("ignore")
            m.response()
            y = float(m.sig_out[0].state)
            m.sig_out[0].sensitivity = 1.0
            m.sensitivity()
            g = np.asarray(sig.sensitivity, dtype=float)
    finally:
        if V.symbolic:
            npshim.install()
    n = len(x)
    if agg == "KS":
        lo, hi = (x.max(), x.max() + math.log(n) / par) if par > 0 else (x.min() + math.log(n) / par, x.min())
    elif agg == "SoftMinMax":
        lo, hi = x.min(), x.max()
    else:
        lo, hi = (x.max(), x.max() * n ** (1 / par)) if par > 0 else (x.min() * n ** (1 / par), x.min())
    tol = 1e-9 * max(1.0, abs(lo), abs(hi))
    ok = bool(np.isfinite(y) and lo - tol <= y <= hi + tol)
    okg = bool(np.all(np.isfinite(g)))
    if P is not None:
        P.holds("range:finite-and-within-bounds", ok, kind="concrete-regression:float-range")
        P.holds("range:finite-sensitivity", okg, kind="concrete-regression:float-range")
    return dict(ok=float(ok), okg=float(okg), y=(y if np.isfinite(y) else 1e300))


SCEN = {"range-concrete": sc_range_concrete, "activeset": sc_activeset, "scaling": sc_scaling, "bound-softminmax": sc_bound_softminmax,
        "bound-ks": sc_bound_ks, "bound-pnorm": sc_bound_pnorm}


def run_item(cfg, tier):
    # tolerances of np.isclose / np.allclose are modelled as the inequalities NumPy evaluates (not as "exactly equal"):
    # the value band of an active set is defined by exact comparisons (forked worker: no leak into other harnesses)
    from symx import npshim
    npshim.EXACT_CLOSE = False
    mp = 2500 if cfg["kind"] == "activeset" else 200
    return symbolic_run(SCEN[cfg["kind"]], cfg, tier, max_paths=mp)


# ------------------------------------------------------------------------------------------------
def replay(cfg, label, env, case):
    """Re-run on the real library with floats; evaluate the violated clause numerically."""
    import pymoto as pym
    kind = cfg["kind"]
    V = Vals(env=env)
    if kind == "range-concrete":
        obs = sc_range_concrete(V, None, cfg)
        return dict(reproduced=bool(not obs["ok"] or not obs["okg"]), detail=dict(cfg=cfg, y=obs["y"], within_bounds=obs["ok"],
                                                                                  finite_sensitivity=obs["okg"]))
    if kind == "activeset":
        n, mode = cfg["n"], cfg["mode"]
        x = np.array([env.get("x_%d" % i, 0.0) for i in range(n)])
        la, ua = (env.get("lower_amt", 0.0), env.get("upper_amt", 1.0)) if mode != "rel" else (0.0, 1.0)
        lr, ur = (env.get("lower_rel", 0.0), env.get("upper_rel", 1.0)) if mode != "amt" else (0.0, 1.0)
        kw = {}
        if mode != "rel":
            kw.update(lower_amt=la, upper_amt=ua)
        if mode != "amt":
            kw.update(lower_rel=lr, upper_rel=ur)
        aobj = pym.AggActiveSet(**kw)
        if cfg.get("prior_call"):
            aobj(np.array(PRIOR_X[:n]))
        sel = aobj(x)
        if sel is Ellipsis:
            ok = x.max() == x.min()
            return dict(reproduced=not ok, detail=dict(x=x.tolist(), sel="Ellipsis"))
        xrel = (x - x.min()) / (x.max() - x.min())
        nl, nu = int(n * la) if mode != "rel" else 0, int(n * (1 - ua)) if mode != "rel" else 0
        order = np.argsort(x, kind="stable")
        # accept any tie-break: expected mask must be achievable; compare counts and value thresholds
        band = (xrel >= lr) & (xrel <= ur)
        srt = np.sort(x)
        lo_thr = srt[nl - 1] if nl > 0 else -np.inf
        hi_thr = srt[n - nu] if nu > 0 else np.inf
        must_keep = band & (x > lo_thr) & (x < hi_thr)
        must_drop = ~band | (x < lo_thr) | (x > hi_thr)
        bad = bool(np.any(must_keep & ~sel) or np.any(must_drop & sel))
        if mode == "amt" and nl + nu <= n:
            # whatever the tie-break: exactly nl lowest and nu highest entries are removed
            bad = bad or int(np.sum(sel)) != n - nl - nu
        n_removed_by_rank = int(np.sum(band & ~sel))
        max_rank_removed = int(np.sum(band[order[:nl]])) + int(np.sum(band[order[n - nu:]])) if (nl + nu) > 0 else 0
        return dict(reproduced=bad, detail=dict(x=x.tolist(), kw={k: float(v) for k, v in kw.items()}, sel=sel.tolist(),
                                                nl=nl, nu=nu, must_keep=must_keep.tolist()))
    if kind == "scaling":
        obs = sc_scaling(V, None, cfg)
        n, which = cfg["n"], cfg["which"]
        d = env.get("d", 0.0)
        ext = max if which == "max" else min
        s_prev, bad, det = None, False, {}
        for k in range(1 if cfg.get("active") else 3):
            xk = [env.get("x%d_%d" % (k, i), 1.0) for i in range(n)]
            true, approx = (sorted(xk)[1] if cfg.get("active") else ext(xk)), float(obs["approx%d" % k])
            s = true / approx if s_prev is None else d * s_prev + (1 - d) * true / approx
            if abs(float(obs["y%d" % k]) - s * approx) > 1e-9 * max(1, abs(s * approx)):
                bad = True
            if abs(float(obs["yu%d" % k]) - true) > 1e-9 * max(1, abs(true)):
                bad = True
            det["k%d" % k] = dict(y=float(obs["y%d" % k]), expected=s * approx, yu=float(obs["yu%d" % k]), true=true)
            s_prev = s
        return dict(reproduced=bad, detail=det)
    n = cfg["n"]
    x = np.array([env.get("x_%d" % i, 1.0) for i in range(n)])
    if kind == "bound-softminmax":
        y = float(sc_bound_softminmax(V, None, cfg)["y"])
        bad = y < x.min() - 1e-12 or y > x.max() + 1e-12
        return dict(reproduced=bool(bad), detail=dict(x=x.tolist(), y=y))
    if kind == "bound-ks":
        y = float(sc_bound_ks(V, None, cfg)["y"])
        rho = env.get("rho", 1.5) * cfg["sgn"]
        if rho > 0:
            bad = y < x.max() - 1e-12 or y > x.max() + math.log(n) / rho + 1e-12
        else:
            bad = y > x.min() + 1e-12 or y < x.min() + math.log(n) / rho - 1e-12
        return dict(reproduced=bool(bad), detail=dict(x=x.tolist(), y=y, rho=rho))
    if kind == "bound-pnorm":
        y = float(sc_bound_pnorm(V, None, cfg)["y"])
        p = cfg["p"]
        if p > 0:
            bad = y < x.max() * (1 - 1e-12) or y > n ** (1 / p) * x.max() * (1 + 1e-12)
        else:
            bad = y > x.min() * (1 + 1e-12) or y < n ** (1 / p) * x.min() * (1 - 1e-12)
        return dict(reproduced=bool(bad), detail=dict(x=x.tolist(), y=y, p=p))
    return dict(reproduced=None, detail="no replay for kind %s" % kind)
