"""Shared harness plumbing: value providers (symbolic / concrete), the per-item symbolic run with
vacuity guard and encoding validation, and result records that travel back to the runner."""
from fractions import Fraction
import hashlib
import os
import time
import traceback
import numpy as np
import z3

from symx import Ctx, explore, sym, csym, R, C, SB
from symx import npshim, evalterm
from symx.array import SymArray, wrap
from symx.decide import Prover, model_env
from symx.npshim import EncodingGap


def _num(v):
    if isinstance(v, (list, tuple)):
        return v[0] / v[1]
    return float(v)


class GenericEnv(dict):
    """Deterministic generic assignment for concrete items: every name gets a non-zero multiple of 1/8 in [-3, 3] the first
    time it is asked for (and keeps it)."""

    def __init__(self, seed=1):
        super().__init__()
        self.seed = seed

    def __contains__(self, k):
        return True

    def __missing__(self, k):
        import hashlib
        h = int(hashlib.md5(("%s/%s" % (self.seed, k)).encode()).hexdigest()[:8], 16)
        v = ((h % 47) - 23) / 8.0
        self[k] = v if v != 0 else 0.625
        return self[k]

    def get(self, k, default=None):
        return self[k]


class Vals:
    """Source of input values: fresh symbols (symbolic run) or numbers from an assignment."""

    # "views": arrays are handed out as views that are NOT C-contiguous (1-D: every second entry of a longer buffer,
    # 2-D: the transpose of a row-major buffer) - the same values in another memory layout; set per item (cfg["mem_layout"])
    default_layout = None

    def __init__(self, c=None, env=None):
        self.c = c
        self.env = env
        self.symbolic = env is None
        self.requested = []
        self.layout = Vals.default_layout

    def _laid_out(self, a):
        if self.layout != "views" or a.ndim not in (1, 2) or a.size == 0:
            return a
        if a.ndim == 1:
            base = np.zeros((a.shape[0], 2), dtype=a.dtype)
            base[:, 0] = a
            v = base[:, 0]
        else:
            base = np.array(np.asarray(a).T, order="C")
            v = base.T
        return v

    def real(self, name, positive=False, nonzero=False, lo=None, hi=None, default=None):
        self.requested.append(name)
        if self.symbolic:
            return sym(name, positive=positive, nonzero=nonzero, lo=lo, hi=hi)
        if name in self.env:
            return _num(self.env[name])
        if default is not None:
            return float(default)
        return 1.0 if positive or nonzero else (float(lo) if lo is not None else 0.0)

    def reals(self, name, shape, **kw):
        if isinstance(shape, int):
            shape = (shape,)
        if self.symbolic:
            a = np.empty(shape, dtype=object)
        else:
            a = np.empty(shape, dtype=float)
        for idx in np.ndindex(*shape):
            a[idx] = self.real(name + "_" + "_".join(str(i) for i in idx), **kw)
        a = self._laid_out(a)
        return a.view(SymArray) if self.symbolic else a

    def cplx(self, name):
        if self.symbolic:
            return C(self.real(name + "_re"), self.real(name + "_im"))
        return complex(self.real(name + "_re"), self.real(name + "_im"))

    def cplxs(self, name, shape):
        if isinstance(shape, int):
            shape = (shape,)
        a = np.empty(shape, dtype=object if self.symbolic else complex)
        for idx in np.ndindex(*shape):
            a[idx] = self.cplx(name + "_" + "_".join(str(i) for i in idx))
        a = self._laid_out(a)
        return a.view(SymArray) if self.symbolic else a

    def const(self, x):
        """Exact constant (string decimal / Fraction / int) usable in both modes."""
        if self.symbolic:
            return R(q=Fraction(x) if isinstance(x, str) else Fraction(x))
        return float(Fraction(x)) if isinstance(x, str) else float(x)

    def assume(self, cond, note=None):
        if self.symbolic:
            self.c.assume(cond, note)


def flatten_obs(obs):
    """dict name -> scalar/array/None  ->  list of (name, value) leaves."""
    out = []
    for k, v in obs.items():
        if v is None:
            out.append((k, None))
        elif hasattr(v, "_dense"):
            out.append((k, np.asarray(v._dense)))
        elif hasattr(v, "todense") and not isinstance(v, np.ndarray):
            out.append((k, np.asarray(v.todense())))
        elif hasattr(v, "toarray") and not isinstance(v, np.ndarray):
            out.append((k, np.asarray(v.toarray())))
        else:
            out.append((k, v))
    return out


def compare_obs(sym_eval, conc, rtol=1e-7, atol=1e-9):
    """Compare evaluated symbolic observables with the concrete run. Returns list of mismatches."""
    bad = []
    cd = dict(conc)
    for k, v in sym_eval:
        if k not in cd:
            bad.append("%s: missing in concrete run" % k)
            continue
        w = cd[k]
        if v is None or w is None:
            if not (v is None and w is None):
                bad.append("%s: None-ness differs (sym %r, impl %r)" % (k, v is None, w is None))
            continue
        try:
            va, wa = np.asarray(v, dtype=complex), np.asarray(w, dtype=complex)
        except Exception as e:
            bad.append("%s: not numeric (%s)" % (k, e))
            continue
        if va.shape != wa.shape:
            if va.size == wa.size:
                va, wa = va.reshape(-1), wa.reshape(-1)
            else:
                bad.append("%s: shape %s vs %s" % (k, va.shape, wa.shape))
                continue
        scale = max(1.0, float(np.max(np.abs(wa))) if wa.size else 1.0)
        if va.size and np.max(np.abs(va - wa)) > atol + rtol * scale:
            bad.append("%s: max abs diff %.3e (scale %.3e)" % (k, float(np.max(np.abs(va - wa))), scale))
    return bad


def boxed_model(c, extra=(), box=8, timeout_ms=3000):
    """Well-conditioned assignment for assumptions + definedness + pc (+extra): |v| <= box."""
    s = z3.Solver()
    s.set("timeout", timeout_ms)
    cs = c.base_constraints() + list(extra)
    for a in cs:
        s.add(a)
    from symx import axioms as _axm
    for a in _axm.instances(cs, c):
        s.add(a)
    s.push()
    k = 0
    for name, t in c.symbols.items():
        if z3.is_real(t):
            k += 1
            s.add(t <= box, t >= -box)
    r = s.check()
    if r != z3.sat:
        s.pop()
        r = s.check()
        if r != z3.sat:
            return None
    return model_env(s.model(), c)


def spread_model(c, seed=0, timeout_ms=2500):
    """Assignment with distinct, non-trivial values (better for the concretised twin than z3's favourite
    zeros).  Fresh non-incremental solver per attempt (keeps z3 on its QF_NRA procedure and its timeout)."""
    import random
    from symx import axioms as _axm
    rnd = random.Random(seed)
    bcs = c.base_constraints()
    axs = list(_axm.instances(bcs, c))
    pins = []
    for name, t in c.symbols.items():
        if not z3.is_real(t) or name.startswith("sqrt_") or "!" in name:
            continue
        v = Fraction(rnd.randint(-24, 24), 8)
        if v == 0:
            v = Fraction(3, 8)
        lo, hi = v - Fraction(1, 16), v + Fraction(1, 16)
        pins.append(z3.And(t >= z3.RatVal(lo.numerator, lo.denominator), t <= z3.RatVal(hi.numerator, hi.denominator)))
    for frac in (1.0, 0.5, 0.2):
        k = int(len(pins) * frac)
        s = z3.Solver()
        s.set("timeout", timeout_ms)
        for a in bcs + axs:
            s.add(a)
        for pcon in rnd.sample(pins, k) if k < len(pins) else pins:
            s.add(pcon)
        if s.check() == z3.sat:
            return model_env(s.model(), c)
    return boxed_model(c, timeout_ms=timeout_ms)


def _raised_in_repo(exc):
    """True if some frame of the traceback lies in the repository under test."""
    import os
    root = os.path.join(os.path.realpath(os.environ.get("SYMX_REPO", "/repo")), "pymoto")
    tb = exc.__traceback__
    while tb is not None:
        if os.path.realpath(tb.tb_frame.f_code.co_filename).startswith(root):
            return True
        tb = tb.tb_next
    return False


class ItemResult(dict):
    pass


def symbolic_run(scenario, cfg, tier, *, max_paths=400, obl_timeout_ms=None, validate=True,
                 feas_timeout_ms=3000, seed=0, rtol=1e-6, twin_exceptions=False):
    """Run `scenario(V, P, cfg)` on all paths; decide obligations; vacuity guard; encoding validation.

    scenario returns a dict of observables (name -> scalar/array/None) or None.
    """
    if obl_timeout_ms is None:
        obl_timeout_ms = 10000 if tier == "quick" else 60000
    t_start = time.time()
    Vals.default_layout = cfg.get("mem_layout")   # (forked worker: one item per process)
    c = Ctx(feas_timeout_ms=feas_timeout_ms, name=str(cfg.get("id", "")))
    out = ItemResult(item=cfg.get("id"), kind=cfg.get("kind"), cfg=_jsonable(cfg), obligations=[], paths=0,
                     aborted=0, exceptions=[], errors=[], notes=[], samples=[], validated=0,
                     vacuity=dict(paths_sat=0, paths_unknown=0, paths_unsat=0))
    twin = {}

    def body(c):
        V = Vals(c)
        P = Prover(c, timeout_ms=obl_timeout_ms)
        obs = scenario(V, P, cfg)
        for text, cond in getattr(c, "lib_preconditions", []):
            # preconditions of stubbed library routines that the code under test has to establish
            P.holds("library-precondition:" + text, cond, kind="library-precondition")
        r, s = c.check(timeout_ms=obl_timeout_ms)
        if str(r) == "unknown":
            # vacuity guard only: a solver-verified witness with pinned inputs shows the path is feasible
            r2, s2 = c.check_pinned()
            if str(r2) == "sat":
                r, s = r2, s2
        if str(r) == "unknown" and os.environ.get("SYMX_FEAS_DEBUG"):
            with open(os.environ["SYMX_FEAS_DEBUG"], "a") as fh:
                fh.write("; item %s: feasibility unknown (%s)\n%s\n" % (cfg.get("id"), s.reason_unknown(), s.to_smt2()))
        info = dict(P=P, feas=str(r))
        if str(r) == "sat" and validate and "env" not in twin and obs is not None:
            env = spread_model(c, seed=seed) or model_env(s.model(), c)
            try:
                ev = [(k, (None if v is None else evalterm.eval_array(v, env))) for k, v in flatten_obs(obs)]
                twin["env"] = env
                twin["ev"] = ev
            except evalterm.EvalError as e:
                out["notes"].append("twin: evaluation failed (%s)" % e)
        return info

    def on_path(rec, c):
        out["paths"] += 1
        pidx = out["paths"] - 1
        if rec.aborted:
            out["aborted"] += 1
            return
        if rec.exception is not None:
            if isinstance(rec.exception, EncodingGap):
                out["errors"].append("ENCODING-GAP %s" % rec.exception)
                return
            if not _raised_in_repo(rec.exception):
                out["errors"].append("HARNESS-ERROR %s: %s\n%s" % (type(rec.exception).__name__, rec.exception,
                                                                   (rec.traceback or "")[-1500:]))
                return
            # an exception of the code under test on a feasible path
            r, s = c.check(timeout_ms=obl_timeout_ms)
            env = None
            if str(r) == "sat":
                env = boxed_model(c) or model_env(s.model(), c)
            out["exceptions"].append(dict(path=pidx, type=type(rec.exception).__name__,
                                          msg=str(rec.exception)[:300], tb=(rec.traceback or "")[-1500:],
                                          feasible=str(r), model=env))
            return
        info = rec.result
        P = info["P"]
        fe = info["feas"]
        out["vacuity"]["paths_" + fe] = out["vacuity"].get("paths_" + fe, 0) + 1
        for o in P.obls:
            d = o.as_dict()
            d["path"] = pidx
            d["key"] = hashlib.md5(("%s|%s|%s" % (cfg.get("id"), pidx, o.label)).encode()).hexdigest()[:12]
            if o.status == "sat" and o.model:
                # prefer a well-conditioned witness for the replay
                pass
            out["obligations"].append(d)
        out["samples"].extend(P.samples[: max(0, 2 - len(out["samples"]))])
        out.setdefault("solver_time", 0.0)
        out["solver_time"] += P.solver_time

    try:
        npshim.install()
        explore(body, c, max_paths=max_paths, on_path=on_path)
    except EncodingGap as e:
        out["errors"].append("ENCODING-GAP %s" % e)
    except Exception as e:
        out["errors"].append("HARNESS-ERROR %s: %s\n%s" % (type(e).__name__, e, traceback.format_exc()[-2000:]))
    finally:
        npshim.uninstall()
    # encoding validation: same scenario on the real library with the numbers of the model
    if validate and "env" in twin and not out["errors"]:
        try:
            Vc = Vals(env=twin["env"])
            obs_c = scenario(Vc, None, cfg)
            conc = flatten_obs(obs_c) if obs_c is not None else []
            bad = compare_obs(twin["ev"], conc, rtol=rtol)
            if bad and os.environ.get("SYMX_TWIN_DEBUG"):
                with open(os.environ["SYMX_TWIN_DEBUG"], "a") as fh:
                    fh.write("item %s env %r\n" % (cfg.get("id"), twin["env"]))
                    for (k1, v1), (k2, v2) in zip(twin["ev"], conc):
                        fh.write("  %s: sym=%r conc=%r\n" % (k1, v1, v2))
            if bad:
                out["errors"].append("ENCODING-MISMATCH " + "; ".join(bad[:5]))
                # the runner replays the clauses of this item on the real library with these numbers: if one fails there,
                # the disagreement is a counterexample found by the concretised twin (a VIOLATION), not a harness error
                out["twin_mismatch"] = dict(env=twin["env"])
            else:
                out["validated"] = 1
        except Exception as e:
            out["notes"].append("twin: concrete run raised %s: %s" % (type(e).__name__, str(e)[:200]))
            if twin_exceptions and _raised_in_repo(e):
                # (opt-in per harness) the real library raises for the model's numbers where the symbolic run completed: handed
                # to the runner as an exception case, which replays it on the real code (VIOLATION / known finding if it
                # reproduces; "the call completes without raising" is a clause of the property)
                out.setdefault("exceptions", []).append(dict(type=type(e).__name__, msg=str(e)[:300],
                                                             tb=traceback.format_exc()[-1500:], feasible="twin", model=twin["env"],
                                                             path=-1))
    out["stats"] = dict(c.stats)
    out["solver_time"] = out.get("solver_time", 0.0) + c.stats["solver_time"]
    out["stubs"] = sorted(c.stubs)
    out["assumptions"] = list(dict.fromkeys(c.assumption_notes))
    out["notes"].extend(c.notes)
    out["budget_hit"] = bool(getattr(c, "budget_hit", False))
    from symx.ctx import soft_deadline_passed
    # (also when the deadline passed in the middle of the last path: its undecided obligations are `unknown`, and a path
    # whose feasibility was not established must not be read as "no feasible path")
    out["deadline_hit"] = bool(getattr(c, "deadline_hit", False)) or soft_deadline_passed()
    out["wall"] = time.time() - t_start
    return out


def _jsonable(x):
    if isinstance(x, dict):
        return {str(k): _jsonable(v) for k, v in x.items()}
    if isinstance(x, (list, tuple)):
        return [_jsonable(v) for v in x]
    if isinstance(x, (str, int, float, bool)) or x is None:
        return x
    if isinstance(x, Fraction):
        return str(x)
    if isinstance(x, np.ndarray):
        return x.tolist()
    if isinstance(x, (np.integer,)):
        return int(x)
    if isinstance(x, (np.floating,)):
        return float(x)
    return repr(x)


def env_floats(model):
    return {k: (_num(v) if not isinstance(v, bool) else v) for k, v in (model or {}).items()}


class NumProver:
    """Numeric stand-in for the Prover, used by replays: the scenario runs on the real library with floats and
    every clause is evaluated numerically; failing labels are collected."""

    def __init__(self, rtol=1e-7):
        self.rtol = rtol
        self.failed = []
        self.n = 0

    @staticmethod
    def _c(x):
        if isinstance(x, C):
            return complex(float(x.re.q), float(x.im.q))
        if isinstance(x, R):
            return complex(float(x.q))
        return complex(x)

    def eq(self, label, a, b, kind=None):
        self.n += 1
        try:
            ca, cb = self._c(a), self._c(b)
        except Exception as e:
            self.failed.append((label, "not numeric: %s" % e))
            return
        if not (abs(ca - cb) <= self.rtol * max(1.0, abs(ca), abs(cb))):
            self.failed.append((label, "%r vs %r" % (ca, cb)))

    def arrays_eq(self, label, A, B, kind=None):
        A = np.asarray(A._dense if hasattr(A, "_dense") else (A.toarray() if hasattr(A, "toarray") and not isinstance(A, np.ndarray) else A))
        B = np.asarray(B._dense if hasattr(B, "_dense") else (B.toarray() if hasattr(B, "toarray") and not isinstance(B, np.ndarray) else B))
        if A.shape != B.shape:
            self.n += 1
            self.failed.append((label + ".shape", "%s vs %s" % (A.shape, B.shape)))
            return
        for i in np.ndindex(*A.shape):
            self.eq("%s[%s]" % (label, ",".join(map(str, i))), A[i], B[i], kind)

    def holds(self, label, cond, kind=None):
        self.n += 1
        if isinstance(cond, np.ndarray) and cond.ndim == 0:
            cond = cond[()]
        if not bool(cond):
            self.failed.append((label, "false"))

    def verdict(self, label):
        if label == "*":
            return dict(reproduced=bool(self.failed), detail=dict(failed=["%s: %s" % f for f in self.failed][:8], clauses=self.n))
        if label.startswith("library-precondition:"):
            # the stubbed routine was called outside its contract: on the real library that shows as wrong results
            return dict(reproduced=bool(self.failed), detail=dict(failed=["%s: %s" % f for f in self.failed][:8], clauses=self.n))
        hit = [f for f in self.failed if f[0] == label or label.startswith(f[0]) or f[0].startswith(label)]
        return dict(reproduced=bool(hit), detail=dict(failed=["%s: %s" % f for f in self.failed][:8], clauses=self.n))
