"""C04 - back-propagation is linear in the seed, accumulative, and leaves states untouched.

Executed for real: Module.response / sensitivity / reset of every catalogue module, several times on the
same module instance.  No derivative oracle is needed: the obligations relate runs of the real code.
"""
import copy
import numpy as np

from symx import R, C, SB
from symx.array import wrap, is_complex_content
from .common import symbolic_run, Vals
from .catalogue import BUILDERS, module_grid, dense_entries
from . import adjoint as adj
from . import C01

PROPERTY = "C04"
BOUNDS = dict(C01.BOUNDS)
OUTSIDE = C01.OUTSIDE + ["in-place modification of the *seed* arrays is only reported through its observable effect "
                         "(second sensitivity() adds a different amount), as the property states"]
ASSUMPTIONS = C01.ASSUMPTIONS[:2] + ["seeds w1, w2 and scalars a, b are free symbols (complex where the output is complex)"]
ITEM_TIMEOUT = {"quick": 240, "thorough": 900}


def VIEWS_LAYOUT_ITEMS(it, tier):
    return True


def items(tier):
    out = []
    for g in module_grid(tier):
        if g.get("concrete_fd"):
            continue        # concrete finite-difference items of C01 (no symbolic inputs)
        if g["mod"] == "linsolve" and g.get("lda", True):
            continue
        if g.get("c01_only"):
            continue        # (real input receiving a complex seed: NumPy's cast to the real part on assignment is not modelled)
        if g["mod"] == "eigensolve_sparse":
            continue        # four runs with independent "any solution" oracles: the comparisons do not finish (C01 has the items)        # LDAWrapper memory between solves is C06/C03 territory; here the plain solver path
        if tier == "quick" and g["id"] in ("aggregation-PNorm-active", "aggregation-SoftMinMax-active", "inverse-n2-cplx",
                                           "sysofeq-n3-2rhs", "assemble-stiffness-1x1x1"):
            continue        # heavy items: thorough tier only
        out.append(dict(g, kind="linear:" + g["mod"]))
        if g["mod"] == "complex" and g.get("which") == "ComplexNorm":
            # entries with |z| = 0 admitted (the division restricts the clean code's paths to |z| != 0 by itself;
            # code that branches on |z| == 0 is followed into that branch): states must stay untouched there too
            out.append(dict(g, kind="linear:" + g["mod"], id=g["id"] + "-zero-allowed", allow_zero=True))
        if g.get("scaling") == "frozen":
            # scalar seeds handed over as 0-d arrays (what an upstream NumPy module produces): mutable seeds
            out.append(dict(g, kind="linear:" + g["mod"], id=g["id"] + "-seed0d", seed0d=True))
    return out


def _snap(x):
    e = dense_entries(x)
    if e is None:
        return None
    return np.array(e, dtype=object, copy=True) if np.asarray(e).dtype == object else np.array(e, copy=True)


def _seed_all(V, setup, outs, tag, combine=None, seed0d=False):
    seeds = []
    for j, s in enumerate(outs):
        kind = setup.seed_kinds.get(j, "dense")
        if kind == "preimage_T":
            seed, Wd = C01._preimage_seed(V, setup, s.state) if tag == "w" else _preimage_seed2(V, setup, s.state, tag)
        else:
            seed, Wd = adj.make_seed(V, j, s.state, kind, setup, tag=tag)
        if seed0d and np.ndim(seed) == 0 and not isinstance(seed, np.ndarray):
            seed = np.array(seed, dtype=object) if V.symbolic else np.array(seed)
        seeds.append(seed)
    return seeds


def _preimage_seed2(V, setup, ystate, tag):
    A = dense_entries(setup.inputs[0].state)
    y = dense_entries(ystate)
    shp = np.shape(y)
    cplx = (is_complex_content(A) or is_complex_content(y)) if V.symbolic else (np.iscomplexobj(A) or np.iscomplexobj(y))
    lam = V.cplxs("lam" + tag, shp) if cplx else V.reals("lam" + tag, shp)
    w = np.asarray(A).T @ np.asarray(lam)
    if V.symbolic:
        from symx import oracles
        oracles.add_candidate(lam)
        oracles.add_candidate(wrap(np.asarray(lam)).conj())
        w = wrap(np.asarray(w, dtype=object))
    return w, np.asarray(w)


def _combine(a, s1, b, s2):
    """a*s1 + b*s2 for array / scalar / DyadCarrier seeds."""
    return a * s1 + b * s2


def scenario(V, P, cfg):
    setup = BUILDERS[cfg["mod"]](V, cfg)
    m = setup.module
    ins = setup.inputs
    state0 = [_snap(s.state) for s in ins]
    m.response()
    outs = m.sig_out
    # (0) the very first response() already leaves the input states alone (checked before anything expensive runs on
    #     possibly destroyed inputs)
    state1 = [_snap(s.state) for s in ins]
    if V.symbolic:
        def _ident(x, y):
            if x is None or y is None:
                return (x is None) == (y is None)
            xa, ya = np.asarray(x, dtype=object), np.asarray(y, dtype=object)
            return xa.shape == ya.shape and all(a_ is b_ or (not isinstance(a_, (R, C)) and not isinstance(b_, (R, C)) and a_ == b_)
                                                for a_, b_ in zip(xa.flat, ya.flat))
        if not all(_ident(x, y) for x, y in zip(state0, state1)):
            for k, (x, y) in enumerate(zip(state0, state1)):
                _same(P, "input-state-after-first-response[%d]" % k, x, y, "input-unchanged-by-response")
            return {}
    first_change = 0.0
    if not V.symbolic:
        for x, y in zip(state0, state1):
            if x is not None and y is not None and np.shape(x) == np.shape(y) and np.size(x):
                first_change = max(first_change, float(np.max(np.abs(np.asarray(x, dtype=complex) - np.asarray(y, dtype=complex)))))
    allsig = list(ins) + list(outs)
    a, b = V.real("ca", default=1.5), V.real("cb", default=-0.75)
    S1 = _seed_all(V, setup, outs, "w", seed0d=cfg.get("seed0d", False))
    S2 = _seed_all(V, setup, outs, "v", seed0d=cfg.get("seed0d", False))
    if V.symbolic and any(k == "preimage_T" for k in setup.seed_kinds.values()):
        # pre-image of the combined adjoint right-hand side
        from symx import oracles
        c = V.c
        cands = c.oracle["candidates"]
        lw, lv = cands[-4], cands[-2]
        oracles.add_candidate(wrap(np.asarray(a * np.asarray(lw) + b * np.asarray(lv), dtype=object)))
    obs = {}

    def run(seeds, times=1):
        for s, sd in zip(outs, seeds):
            s.sensitivity = copy.deepcopy(sd)
        st_before = [_snap(s.state) for s in allsig]
        for _ in range(times):
            m.sensitivity()
        st_after = [_snap(s.state) for s in allsig]
        g = [_snap(s.sensitivity) for s in ins]
        return g, st_before, st_after

    g1, sb1, sa1 = run(S1)
    sens_in_before = [_snap(s.sensitivity) for s in allsig]
    state_before = [_snap(s.state) for s in ins]
    m.response()                                   # (iv) response leaves input states and sensitivities alone
    sens_in_after = [_snap(s.sensitivity) for s in allsig]
    state_after = [_snap(s.state) for s in ins]
    st_pre_reset = [_snap(s.state) for s in allsig]
    m.reset()
    st_post_reset = [_snap(s.state) for s in allsig]
    none_after_reset = [s.sensitivity is None for s in allsig]
    g2, _, _ = run(S2)
    m.reset()
    g12, _, _ = run([_combine(a, s1, b, s2) for s1, s2 in zip(S1, S2)])
    m.reset()
    gtw, _, _ = run(S1, times=2)
    m.reset()
    gtr, _, _ = run(S1, times=3)                   # "all repetitions": an aliased seed doubles (1, 2, 4), it does not add
    m.reset()
    for i in range(len(ins)):
        obs["g1_%d" % i], obs["g2_%d" % i], obs["g12_%d" % i], obs["gtw_%d" % i] = g1[i], g2[i], g12[i], gtw[i]
        obs["gtr_%d" % i] = gtr[i]
    if not V.symbolic:
        obs["_first_response_input_change"] = first_change

        def _maxchg(pairs):
            worst = 0.0
            for x, y in pairs:
                if x is None or y is None:
                    if (x is None) != (y is None):
                        worst = float("inf")
                    continue
                xa, ya = np.asarray(x, dtype=complex), np.asarray(y, dtype=complex)
                if xa.shape != ya.shape:
                    worst = float("inf")
                elif xa.size:
                    dlt = np.abs(xa - ya)
                    worst = max(worst, float(np.max(np.where(np.isnan(dlt), np.inf, dlt))))
            return worst
        obs["_chg:state-after-sensitivity"] = _maxchg(zip(sb1, sa1))
        obs["_chg:state-after-reset"] = _maxchg(zip(st_pre_reset, st_post_reset))
        obs["_chg:input-state-after-response"] = _maxchg(zip(state_before, state_after))
        obs["_chg:sensitivity-after-response"] = _maxchg(zip(sens_in_before, sens_in_after))
        obs["_chg:reset-clears"] = 0.0 if all(none_after_reset) else 1.0
    if P is not None:
        for i in range(len(ins)):
            if g1[i] is None and g2[i] is None and g12[i] is None and gtw[i] is None and gtr[i] is None:
                continue
            z = lambda g, ref: (np.zeros(np.shape(ref), dtype=object) if g is None else g)   # noqa: E731
            ref = next(x for x in (g1[i], g2[i], g12[i], gtw[i], gtr[i]) if x is not None)
            G1, G2, G12, GT, G3 = z(g1[i], ref), z(g2[i], ref), z(g12[i], ref), z(gtw[i], ref), z(gtr[i], ref)
            P.arrays_eq("linear[in%d]" % i, G12, a * G1 + b * G2, kind="linearity")
            P.arrays_eq("twice[in%d]" % i, GT, 2 * G1, kind="accumulate-twice")
            P.arrays_eq("thrice[in%d]" % i, G3, 3 * G1, kind="accumulate-thrice")
        for k, (x, y) in enumerate(zip(sb1, sa1)):
            _same(P, "state-after-sensitivity[%d]" % k, x, y, "state-unchanged-by-sensitivity")
        for k, (x, y) in enumerate(zip(st_pre_reset, st_post_reset)):
            _same(P, "state-after-reset[%d]" % k, x, y, "state-unchanged-by-reset")
        for k, (x, y) in enumerate(zip(state_before, state_after)):
            _same(P, "input-state-after-response[%d]" % k, x, y, "input-unchanged-by-response")
        for k, (x, y) in enumerate(zip(sens_in_before, sens_in_after)):
            _same(P, "sensitivity-after-response[%d]" % k, x, y, "sensitivity-unchanged-by-response")
        for k, isn in enumerate(none_after_reset):
            P.holds("reset-clears[%d]" % k, bool(isn), kind="reset-clears")
    return obs


def _same(P, label, x, y, kind):
    if x is None or y is None:
        P.holds(label, (x is None) == (y is None), kind=kind)
        return
    P.arrays_eq(label, x, y, kind=kind)


def run_item(cfg, tier):
    return symbolic_run(scenario, cfg, tier, max_paths=min(cfg.get("max_paths", 60), 60 if tier == "thorough" else 24))


def replay(cfg, label, env, case):
    import warnings
    warnings.simplefilter("ignore")
    if label.startswith("exception:"):
        try:
            scenario(Vals(env=env), None, cfg)
        except Exception as e:
            return dict(reproduced=type(e).__name__ == label.split(":", 1)[1], detail="%s: %s" % (type(e).__name__, str(e)[:200]))
        return dict(reproduced=False, detail="no exception on the real library")
    obs = scenario(Vals(env=env), None, cfg)
    if label.startswith("input-state-after-first-response"):
        ch = obs.get("_first_response_input_change", 0.0)
        return dict(reproduced=bool(ch > 0), detail=dict(max_abs_change_of_an_input_state_by_response=ch))
    a, b = env.get("ca", 1.5), env.get("cb", -0.75)
    bad, det = False, {}
    n = len([k for k in obs if k.startswith("g1_")])
    for i in range(n):
        g1, g2, g12, gt, g3 = (obs["%s_%d" % (k, i)] for k in ("g1", "g2", "g12", "gtw", "gtr"))
        if g1 is None and g12 is None and gt is None and g3 is None:
            continue
        z = lambda g, ref: np.zeros(np.shape(ref)) if g is None else np.asarray(g)   # noqa: E731
        ref = next(x for x in (g1, g2, g12, gt, g3) if x is not None)
        G1, G2, G12, GT, G3 = z(g1, ref), z(g2, ref), z(g12, ref), z(gt, ref), z(g3, ref)
        sc = max(1.0, float(np.max(np.abs(G12))) if G12.size else 1.0, float(np.max(np.abs(GT))) if GT.size else 1.0)
        e1 = float(np.max(np.abs(G12 - (a * G1 + b * G2)))) if G12.size else 0.0
        e2 = float(np.max(np.abs(GT - 2 * G1))) if GT.size else 0.0
        e3 = float(np.max(np.abs(G3 - 3 * G1))) if G3.size else 0.0
        sc = max(sc, float(np.max(np.abs(G3))) if G3.size else 1.0)
        det["in%d" % i] = dict(linearity_err=e1, twice_err=e2, thrice_err=e3)
        anyl = label == "*"
        if (("linear" in label or anyl) and e1 > 1e-8 * sc) or (("twice" in label or anyl) and e2 > 1e-8 * sc) \
                or (("thrice" in label or anyl) and e3 > 1e-8 * sc):
            bad = True
    for pre in ("state-after-sensitivity", "state-after-reset", "input-state-after-response", "sensitivity-after-response",
                "reset-clears"):
        if label == "*" and obs.get("_chg:" + pre, 0.0) > 0:
            return dict(reproduced=True, detail={"clause": pre, "max_abs_change_on_the_real_library": obs["_chg:" + pre]})
        if label.startswith(pre):
            ch = obs.get("_chg:" + pre, 0.0)
            return dict(reproduced=bool(ch > 0), detail={"clause": pre, "max_abs_change_on_the_real_library": ch})
    return dict(reproduced=bad, detail=det)
