"""C19 - finite_difference is a faithful and non-destructive derivative check.

Executed for real: pymoto.finite_difference (complete routine, unmodified) on modules / networks with symbolic
states, symbolic perturbation size dx, symbolic or stubbed-random seeds; np.nditer is a pure-Python stand-in.
"""
import copy
import io
import contextlib
import numpy as np

from symx import R, C, SB
from symx import diffz3
from symx.array import wrap, is_complex_content
from .common import symbolic_run, Vals
from .catalogue import BUILDERS, dense_entries
from . import adjoint as adj

PROPERTY = "C19"
BOUNDS = dict(
    quick=dict(inputs="<= 2 input signals with <= 3 entries each", zoo=["EinSum matvec (real, complex)", "MathGeneral",
               "Scaling", "MakeComplex/RealPart/ImagPart/ComplexNorm", "KSFunction", "AssembleGeneral (sparse output)",
               "user module with a wrong Jacobian entry (factor kappa)", "2-module network with fromsig/tosig"],
               dx="symbolic > 0", relative_dx=[False, True], seeds=["use_df symbolic", "random (stubbed: arbitrary in [0,1))"]),
    thorough=dict(inputs="<= 3 input signals with <= 4 entries each", zoo="quick zoo + more catalogue modules"),
)
OUTSIDE = ["the printed report and the pass/fail counting by `tol` (tol is an object that is never exceeded)",
           "integer-typed states", "the O(dx) closeness itself: the check proves fd*dx == difference of the seeded responses "
           "exactly, which is the definition of the difference quotient"]
ASSUMPTIONS = ["float64 as exact reals", "input entries are non-zero unless the item is about keep_zero_structure",
               "np.random.rand returns arbitrary values in [0,1)"]
ITEM_TIMEOUT = {"quick": 240, "thorough": 600}


class NeverExceeded:
    """Tolerance object: no error is ever larger, so printing/counting branches do not fork."""
    def __lt__(self, o):
        return False

    def __gt__(self, o):
        return True

    def __le__(self, o):
        return False

    def __ge__(self, o):
        return True

    def __format__(self, spec):
        return "inf"

    def __repr__(self):
        return "tol(never exceeded)"


def VIEWS_LAYOUT_ITEMS(it, tier):
    return True


def items(tier):
    out = []

    def add(ident, **kw):
        out.append(dict(kind="fd", id=ident, **kw))
    zoo = [
        ("einsum-dot", dict(mod="einsum", expr="dot2")),
        ("einsum-outer", dict(mod="einsum", expr="outer11")),
        ("einsum-matvec", dict(mod="einsum", expr="matvec")),
        ("einsum-dot-cplx", dict(mod="einsum", expr="dot1", cplx=[True, True])),
        ("math-poly", dict(mod="mathgeneral", expr="poly")),
        ("math-trig", dict(mod="mathgeneral", expr="trig1")),
        ("scaling-min", dict(mod="scaling", mode="min")),
        ("MakeComplex", dict(mod="complex", which="MakeComplex", shape=(1,))),
        ("RealPart", dict(mod="complex", which="RealPart", shape=(2,))),
        ("ImagPart", dict(mod="complex", which="ImagPart", shape=(1,))),
        ("ComplexNorm", dict(mod="complex", which="ComplexNorm", shape=(1,))),
        ("KS", dict(mod="aggregation", agg="KS", n=2)),
        ("assemble-general", dict(mod="assemble", which="general", mesh=(2, 1, 0), symsize=False)),
    ]
    for ident, cfg in zoo:
        for rel in (False, True):
            if rel and tier == "quick" and ident not in ("einsum-dot", "einsum-dot-cplx", "MakeComplex", "math-poly"):
                continue
            for seeds in ("use_df", "random"):
                if seeds == "random" and tier == "quick" and ident not in ("einsum-dot", "RealPart"):
                    continue
                add("%s-%s-%s" % (ident, "rel" if rel else "abs", seeds), relative_dx=rel, seeds=seeds, **cfg)
    for kappa in ("sym",):
        add("wrong-module", mod="wrong", relative_dx=False, seeds="use_df")
    add("correct-user-module", mod="wrong", kappa_one=True, relative_dx=False, seeds="use_df")
    add("module-forgets-an-input", mod="forgets-input", relative_dx=False, seeds="use_df")
    add("zero-structure", mod="einsum", expr="dot2", relative_dx=False, seeds="use_df", zero_entry=True)
    add("zero-structure-off", mod="einsum", expr="dot2", relative_dx=False, seeds="use_df", zero_entry=True, keep_zero=False)
    add("zero-structure-rel", mod="einsum", expr="dot2", relative_dx=True, seeds="use_df", zero_entry=True)
    add("zero-structure-off-rel", mod="einsum", expr="dot2", relative_dx=True, seeds="use_df", zero_entry=True, keep_zero=False)
    # inputs that are SignalSlices whose getter returns a copy (index array / boolean mask): the base signal must be restored
    add("slice-indexarray", mod="slice", index="array", relative_dx=False, seeds="use_df")
    add("slice-boolmask", mod="slice", index="mask", relative_dx=True, seeds="use_df")
    add("slice-basic", mod="slice", index="basic", relative_dx=False, seeds="use_df")
    add("network-fromto", mod="network", relative_dx=False, seeds="use_df")
    add("network-all", mod="network", relative_dx=False, seeds="use_df", allsig=True)
    add("network-reused-upstream-changed", mod="network-pre", relative_dx=False, seeds="use_df")
    add("network-input-through-a-slice-of-a-slice", mod="network-nested-slice", relative_dx=False, seeds="use_df")
    add("einsum-dot-leftover-sensitivities", mod="einsum", expr="dot2", relative_dx=False, seeds="use_df", leftover=True)
    add("network-fromto-leftover-sensitivities", mod="network", relative_dx=False, seeds="use_df", leftover=True)
    add("view-output-reshape", mod="view-output", view="reshape", relative_dx=False, seeds="use_df")
    add("view-output-strided", mod="view-output", view="strided", relative_dx=True, seeds="use_df")
    return out


def _build(V, cfg):
    """Returns (block, input signals to perturb, output signals, all signals, tangent hook)."""
    import pymoto as pym
    if cfg["mod"] == "wrong":
        x = V.reals("x", 2, nonzero=True)
        a = V.reals("a", (2, 2))
        kappa = V.const(1) if cfg.get("kappa_one") else V.real("kappa", default=1.5)
        if V.symbolic and not cfg.get("kappa_one"):
            V.assume(kappa != 1)

        class Quad(pym.Module):
            """y_i = sum_j a_ij x_j^2 ; the Jacobian entry (0,1) is scaled by kappa (wrong unless kappa == 1)."""
            def _response(self, x):
                return a @ (x * x)

            def _sensitivity(self, dy):
                J = 2 * a * x[np.newaxis, :]
                J = J.copy()
                J[0, 1] = kappa * J[0, 1]
                return J.T @ dy
        sx = pym.Signal("x", x)
        m = Quad(sx)
        return m, [sx], m.sig_out, [sx] + list(m.sig_out), dict(kappa=kappa, a=a, x=x)
    if cfg["mod"] == "forgets-input":
        # a module whose _sensitivity forgets its second input (returns None for it): finite_difference must still perturb that
        # input and report the pair (0, true derivative) - that is how the mistake becomes visible
        x = V.reals("x", 2, nonzero=True)
        z = V.reals("z", 2, nonzero=True)

        class Forgets(pym.Module):
            def _response(self, x, z):
                return x * x + 3 * z

            def _sensitivity(self, dy):
                return 2 * x * dy, None
        sx, sz = pym.Signal("x", x), pym.Signal("z", z)
        m = Forgets([sx, sz])
        return m, [sx, sz], m.sig_out, [sx, sz] + list(m.sig_out), dict()
    if cfg["mod"] == "slice":
        x = V.reals("x", 3, nonzero=True)
        z = V.reals("z", 2, nonzero=True)
        sx, sz = pym.Signal("x", x), pym.Signal("z", z)
        index = {"array": np.array([2, 0]), "mask": np.array([True, False, True]), "basic": slice(1, 3)}[cfg["index"]]
        ssl = sx[index]
        m = pym.EinSum([ssl, sz], expression="i,i->")
        return m, [ssl, sz], m.sig_out, [sx, ssl, sz] + list(m.sig_out), dict(base=[sx])
    if cfg["mod"] == "network":
        nn = 1 if cfg.get("allsig") else 2
        x = V.reals("x", nn, nonzero=True)
        z = V.reals("z", nn, nonzero=True)
        sx, sz = pym.Signal("x", x), pym.Signal("z", z)
        m1 = pym.EinSum([sx, sz], expression="i,i->i")
        m2 = pym.EinSum([m1.sig_out[0], sz], expression="i,i->")
        m3 = pym.EinSum([m2.sig_out[0], m2.sig_out[0]], expression=",->")
        net = pym.Network(m1, m2, m3)
        if cfg.get("allsig"):
            return net, None, None, [sx, sz, m1.sig_out[0], m2.sig_out[0], m3.sig_out[0]], dict(fromsig=None, tosig=None,
                                                                                               ins=[sx, sz], outs=None)
        return net, [sz], [m2.sig_out[0]], [sx, sz, m1.sig_out[0], m2.sig_out[0], m3.sig_out[0]], dict(fromsig=[sz], tosig=[m2.sig_out[0]])
    if cfg["mod"] == "network-pre":
        # the perturbed signal z is first used by the SECOND module: finite_difference evaluates the blocks in front of it
        # once; `upstream` is changed after an earlier evaluation of the whole network (re-used network)
        x = V.reals("x", 2, nonzero=True)
        c = V.reals("c", 2, nonzero=True)
        z = V.reals("z", 2, nonzero=True)
        sx, sc, sz = pym.Signal("x", x), pym.Signal("c", c), pym.Signal("z", z)
        m0 = pym.EinSum([sx, sc], expression="i,i->i")
        m1 = pym.EinSum([m0.sig_out[0], sz], expression="i,i->")
        net = pym.Network(m0, m1)
        return net, [sz], [m1.sig_out[0]], [sx, sc, sz, m0.sig_out[0], m1.sig_out[0]], dict(
            fromsig=[sz], tosig=[m1.sig_out[0]], upstream=sx, upstream_new=V.reals("xnew", 2, nonzero=True))
    if cfg["mod"] == "network-nested-slice":
        # the perturbed signal reaches the second module only through a slice of a slice (x[1:5][0:2])
        x = V.reals("x", 5, nonzero=True)
        z = V.reals("z", 2, nonzero=True)
        c = V.reals("c", 2, nonzero=True)
        sx, sz, sc = pym.Signal("x", x), pym.Signal("z", z), pym.Signal("c", c)
        m0 = pym.EinSum([sz, sc], expression="i,i->i")
        m1 = pym.EinSum([sx[1:5][0:2], m0.sig_out[0]], expression="i,i->")
        net = pym.Network(m0, m1)
        return net, [sx], [m1.sig_out[0]], [sx, sz, sc, m0.sig_out[0], m1.sig_out[0]], dict(fromsig=[sx], tosig=[m1.sig_out[0]], base=[sx])
    if cfg["mod"] == "view-output":
        # a module whose output state shares memory with its (perturbed) input: y = x.reshape(2, 2) / x[::2]
        x = V.reals("x", 4, nonzero=True)
        sx = pym.Signal("x", x)
        how = cfg["view"]

        class View(pym.Module):
            def _response(self, x):
                return x.reshape(2, 2) if how == "reshape" else x[::2]

            def _sensitivity(self, dy):
                if how == "reshape":
                    return np.asarray(dy).reshape(4)
                out = np.zeros(4, dtype=np.asarray(dy).dtype) if not isinstance(dy, np.ndarray) or dy.dtype != object else np.array([0, 0, 0, 0], dtype=object)
                out[::2] = dy
                return out
        m = View(sx)
        return m, [sx], m.sig_out, [sx] + list(m.sig_out), dict()
    setup = BUILDERS[cfg["mod"]](V, cfg)
    m = setup.module
    if cfg.get("zero_entry"):
        st = setup.inputs[0].state
        st[0] = 0 if V.symbolic else 0.0
    return m, list(setup.inputs), m.sig_out, list(setup.inputs) + list(m.sig_out), dict(setup=setup)


def scenario(V, P, cfg):
    import pymoto as pym
    from pymoto.core_objects import SignalSlice as _SignalSlice
    blk, ins, outs, allsig, extra = _build(V, cfg)
    isnet = cfg["mod"] in ("network", "network-pre", "network-nested-slice")
    dx = V.real("dx", positive=True, default=0.001)
    # reference response at the base point (real response of the block)
    blk.response()
    if isinstance(extra, dict) and extra.get("upstream") is not None:
        # the network has been evaluated; now an upstream input (not among fromsig) gets a new value - without a response()
        extra["upstream"].state = extra["upstream_new"]
    if ins is None:
        ins = list(blk.sig_in)       # a Network derives both lists from sets: take its own order
        outs = list(blk.sig_out)
    if cfg.get("leftover"):
        # the block was used before (a back-propagation for another purpose, no reset): sensitivities are set on its inputs
        for k_, s_ in enumerate(ins if ins is not None else list(blk.sig_in)):
            st_ = dense_entries(s_.state)
            s_.sensitivity = (V.reals("left%d" % k_, np.shape(st_)) if np.ndim(st_) else V.real("left%d" % k_))
    snap_states = [_snap(s.state) for s in ins]
    base_sigs = extra.get("base", []) if isinstance(extra, dict) else []
    snap_base = [_snap(s.state) for s in base_sigs]
    y0 = [_snap(dense_entries(s.state)) for s in outs]
    if V.symbolic:
        for s in ins:        # perturbed entries are non-zero (the zero-structure items use literal zeros)
            for e in np.asarray(dense_entries(s.state), dtype=object).flat:
                if isinstance(e, C):
                    V.assume(e.re != 0, "input entries non-zero")
                elif isinstance(e, R) and e.q is None:
                    V.assume(e != 0, "input entries non-zero")
    if cfg["seeds"] == "use_df":
        use_df = []
        for j, s in enumerate(outs):
            seed, Wd = adj.make_seed(V, j, s.state, "dense", None, tag="w")
            use_df.append(seed)
    else:
        use_df = None
    calls = []

    def test_fn(x0, dxx, an, fd):
        calls.append((x0, dxx, an, fd))
    kw = dict(dx=dx, relative_dx=cfg["relative_dx"], tol=NeverExceeded(), random=True, use_df=use_df, test_fn=test_fn,
              verbose=False, keep_zero_structure=cfg.get("keep_zero", True))
    if isnet and not cfg.get("allsig"):
        kw.update(fromsig=extra["fromsig"], tosig=extra["tosig"])
    buf = io.StringIO()
    drawn = []
    with contextlib.redirect_stdout(buf), _fixed_random(V, drawn):
        pym.finite_difference(blk, **kw)
    if isinstance(extra, dict) and extra.get("upstream") is not None:
        # base response for the inputs finite_difference was called with (the whole network, evaluated afresh)
        blk.response()
        y0 = [_snap(dense_entries(s.state)) for s in outs]
    if use_df is None:
        # reconstruct the seeds finite_difference generated from the recorded random draws
        use_df, k = [], 0
        for j, s in enumerate(outs):
            yj = dense_entries(s.state)
            w = drawn[k]
            k += 1
            if (is_complex_content(yj) if V.symbolic else np.iscomplexobj(yj)):
                w = w + (C(0, 1) if V.symbolic else 1j) * drawn[k]
                k += 1
            use_df.append(w)
        seeds_random = True
    else:
        seeds_random = False
    obs = {}
    for k, (x0, dxx, an, fd) in enumerate(calls):
        obs["an%d" % k], obs["fd%d" % k] = an, fd
    obs["ncalls"] = len(calls)
    if P is None:
        return obs
    # ---------------------------------------------------------------- obligations
    # (1) state restored, no sensitivity left
    for k, (s, sn) in enumerate(zip(ins, snap_states)):
        P.arrays_eq("state-restored[%d]" % k, dense_entries(s.state), sn, kind="state-restored")
    for k, (s, sn) in enumerate(zip(base_sigs, snap_base)):
        P.arrays_eq("base-state-restored[%d]" % k, dense_entries(s.state), sn, kind="state-restored")
    for k, s in enumerate(allsig):
        sens = s.sensitivity
        if sens is not None and (isinstance(s, _SignalSlice) or s in base_sigs):
            # a slice resets by zeroing its part of the base signal's sensitivity (by design, see C18): "nothing left
            # set" is then an all-zero array
            P.arrays_eq("no-sensitivity-left[%d]" % k, dense_entries(sens), np.zeros(np.shape(sens), dtype=int).astype(object),
                        kind="no-sensitivity-left")
            continue
        P.holds("no-sensitivity-left[%d]" % k, sens is None, kind="no-sensitivity-left")
    # (2) the seeds that were used: use_df, or the random ones (recover them from df_an is not possible from outside;
    #     with random seeds the analytic/numeric pair is checked against each other through the response only)
    if seeds_random:
        for j, w in enumerate(use_df):       # random seeds lie in [0,1) (+ i[0,1) for complex outputs)
            for e in np.asarray(w, dtype=object).flat:
                eC = C.of(e)
                P.holds("random-seed-range[%d]" % j, SB._t(eC.re >= 0) is not None and (eC.re >= 0), kind="seed-range")
    W = [np.asarray(dense_entries(w)) for w in use_df]
    # module's own back-propagated sensitivity for these seeds (separate run of the real block)
    blk.reset()
    blk.response()
    g_by_out = []
    for j, s in enumerate(outs):
        for s2 in allsig:
            s2.reset()
        s.sensitivity = copy.deepcopy(use_df[j])
        blk.sensitivity()
        g_by_out.append([_snap(si.sensitivity) for si in ins])
        blk.reset()
    # expected sequence of test_fn calls: for each input, each entry (skipping zeros), each output, real then imaginary pass
    k = 0
    for i, s in enumerate(ins):
        xs = dense_entries(s.state)
        if np.ndim(xs):
            # finite_difference walks an array with np.nditer, i.e. in MEMORY order (a transposed view column by column);
            # the property does not fix an order, so the expected sequence follows the array's own layout
            st_arr = s.state if isinstance(s.state, np.ndarray) else np.asarray(xs)
            try:
                it_ = np.nditer(st_arr, flags=["multi_index", "refs_ok"])
                idxs = []
                while not it_.finished:
                    idxs.append(tuple(it_.multi_index))
                    it_.iternext()
            except Exception:
                idxs = list(np.ndindex(*np.shape(xs)))
            xarr = np.asarray(xs, dtype=object)
            xflat = [xarr[i_] for i_ in idxs]
        else:
            xflat, idxs = [xs], [()]
        for e, idx in zip(xflat, idxs):
            is_zero = (not isinstance(e, (R, C))) and e == 0
            if is_zero and cfg.get("keep_zero", True) and np.ndim(xs):
                continue
            cplx_in = isinstance(e, (C, complex, np.complexfloating))
            sf = (abs(e) if (cfg["relative_dx"] and not is_zero) else 1)      # an exactly zero entry is perturbed by dx itself
            for part in (("re", "im") if cplx_in else ("re",)):
                for j, so in enumerate(outs):
                    if k >= len(calls):
                        P.holds("missing-call[%d]" % k, False, kind="visited-entries")
                        k += 1
                        continue
                    x0, dxx, an, fd = calls[k]
                    lab = "in%d%s.%s/out%d" % (i, list(idx), part, j)
                    g = g_by_out[j][i]
                    gi = (g[idx] if np.ndim(g) else (g[()] if isinstance(g, np.ndarray) else g)) if g is not None else 0
                    gC = C.of(gi)
                    P.eq("an==own-sensitivity:" + lab, an, gC.re if part == "re" else gC.im, kind="analytical-value")
                    # numerical value: fd * (dx*sf) == Re/Im sum w * (y(x + dx*sf*dir) - y(x)), by a fresh real response
                    step = dx * sf
                    delta = C(0, step) if part == "im" else step
                    yp = _perturbed_response(blk, s, idx, delta, outs[j])
                    dy = np.asarray(yp, dtype=object) - np.asarray(y0[j], dtype=object)
                    tot = R.of(0)
                    for we, de in zip(np.asarray(W[j], dtype=object).flat, np.asarray(dy, dtype=object).flat):
                        wC, dC = C.of(we), C.of(de)
                        if part == "re":
                            tot = tot + (wC.re * dC.re - wC.im * dC.im)
                        else:
                            # code: df = dy/(1j*step); value = Im(sum df*w) = -Re(sum dy*w)/step
                            tot = tot - (wC.re * dC.re - wC.im * dC.im)
                    P.eq("fd*dx==difference:" + lab, R.of(fd) * step, tot, kind="numerical-value")
                    k += 1
    P.holds("visited-exactly", k == len(calls), kind="visited-entries")
    # (3) correct vs wrong module
    if cfg["mod"] == "wrong":
        kappa, a, x = extra["kappa"], extra["a"], extra["x"]
        # calls order: input entries 0,1 x one output (vector y) -> analytical values are J^T w
        w = np.asarray(W[0])
        true0 = 2 * x[0] * (a[0, 0] * w[0] + a[1, 0] * w[1])
        true1 = 2 * x[1] * (a[0, 1] * w[0] + a[1, 1] * w[1])
        P.eq("entry0: an == true derivative", calls[0][2], true0, kind="wrong-module")
        P.eq("entry1: an - true == (kappa-1)*2*a01*x1*w0", calls[1][2] - true1, (kappa - 1) * 2 * a[0, 1] * x[1] * w[0],
             kind="wrong-module")
        if not cfg.get("kappa_one"):
            # the reported pair differs (for a generic seed): an != true derivative is satisfiable and, where
            # a01*x1*w0 != 0, valid
            V.assume(a[0, 1] != 0)
            V.assume(w[0] != 0)
            P.holds("entry1: non-matching pair", calls[1][2] != true1, kind="wrong-module")
    return obs


@contextlib.contextmanager
def _fixed_random(V, drawn):
    """Records the random draws.  Concrete mode: np.random.rand returns the values the solver model gave to the
    stubbed random numbers (same names as symx.oracles.random_rand uses)."""
    if V.symbolic:
        from symx import oracles
        real_rr = oracles.random_rand

        def rr(*shape):
            r = real_rr(*shape)
            drawn.append(r)
            return r
        oracles.random_rand = rr
        try:
            yield
        finally:
            oracles.random_rand = real_rr
        return
    real = np.random.rand
    count = [0]

    def rand(*shape):
        count[0] += 1
        name = "rnd%d" % count[0]
        if not shape:
            r = V.real(name, default=0.5)
            drawn.append(r)
            return r
        out = np.empty(shape)
        for i in np.ndindex(*shape):
            out[i] = V.real(name + "_" + "_".join(map(str, i)), default=0.5)
        drawn.append(out)
        return out
    np.random.rand = rand
    try:
        yield
    finally:
        np.random.rand = real


def _snap(x):
    e = dense_entries(x)
    if e is None:
        return None
    return np.array(e, dtype=object, copy=True) if np.asarray(e).dtype == object else np.array(e, copy=True)


def _perturbed_response(blk, sig, idx, delta, out_sig):
    """Real response of the block with one entry of one input perturbed; state restored afterwards."""
    st = _snap(sig.state)      # a copy: the getter of a basic SignalSlice returns a view of the base state
    if np.ndim(st):
        old = st[idx]
        new = st.copy()
        new[idx] = old + delta
        sig.state = new
        blk.response()
        y = _snap(out_sig.state)
        sig.state = st
    else:
        sig.state = st + delta
        blk.response()
        y = _snap(out_sig.state)
        sig.state = st
    blk.response()
    return y


def run_item(cfg, tier):
    return symbolic_run(scenario, cfg, tier, max_paths=cfg.get("max_paths", 400))


def replay(cfg, label, env, case):
    import warnings
    warnings.simplefilter("ignore")
    V = Vals(env=env)
    if label.startswith("exception:"):
        try:
            obs = scenario(V, None, cfg)
        except Exception as e:
            return dict(reproduced=type(e).__name__ == label.split(":", 1)[1], detail="%s: %s" % (type(e).__name__, str(e)[:300]))
        if label == "exception:ZeroDivisionError":
            # exact arithmetic stops at a division by an exact zero; IEEE arithmetic goes on with inf/nan: the reported
            # analytical / numerical values must be finite numbers
            bad = {k: repr(v) for k, v in (obs or {}).items()
                   if k[:2] in ("an", "fd") and not np.all(np.isfinite(np.asarray(v, dtype=complex)))}
            return dict(reproduced=bool(bad), detail=dict(non_finite_reported_values=bad) if bad else "no exception and finite values on the real library")
        return dict(reproduced=False, detail="no exception on the real library")
    from .common import NumProver
    P = NumProver(rtol=1e-6)
    scenario(V, P, cfg)
    return P.verdict(label)
